// C20: transform algebra and bounding spheres obey their geometric laws.
// Engine: Real mode - the IR's float operations are interpreted over the reals (no rounding), so the laws
// must hold *exactly*; natively (replay / validation) the same assertions use a float tolerance.
#include "symapi.h"
#include "Object3d.hpp"
#include "Geometry.hpp"
#include <cmath>
using namespace nifly;

#ifdef SYM_NATIVE
static bool REQ(float a, float b) { return std::fabs(a - b) <= 2e-3f * (1.0f + std::fabs(a) + std::fabs(b)); }
#else
static bool REQ(float a, float b) { return a == b; }
#endif

static Vector3 sym_vec(const char* n) { return Vector3(sym_real(n), sym_real(n), sym_real(n)); }
static Matrix3 sym_mat(const char* n) {
	Matrix3 m;
	for (int i = 0; i < 3; i++)
		for (int j = 0; j < 3; j++)
			m[i][j] = sym_real(n);
	return m;
}
static MatTransform sym_xform(const char* n) {
	MatTransform t;
	t.translation = sym_vec(n);
	t.rotation = sym_mat(n);
	t.scale = sym_real(n);
	return t;
}
static bool veq(const Vector3& a, const Vector3& b) { return REQ(a.x, b.x) & REQ(a.y, b.y) & REQ(a.z, b.z); }
static bool is_identity(const Matrix3& m) {
	bool ok = true;
	for (int i = 0; i < 3; i++)
		for (int j = 0; j < 3; j++)
			ok &= REQ(m[i][j], i == j ? 1.0f : 0.0f);
	return ok;
}
// keep native replays well-conditioned; the engine proves the exact law for all reals (no bound needed there)
#ifdef SYM_NATIVE
static void bounded(float x, float lim) { sym_assume(x > -lim && x < lim); }
#else
static void bounded(float, float) {}
#endif
static void assert_identity(const Matrix3& m, const char* id) {
	for (int i = 0; i < 3; i++)
		for (int j = 0; j < 3; j++)
			sym_assert(REQ(m[i][j], i == j ? 1.0f : 0.0f), id);
}
static void assert_veq(const Vector3& a, const Vector3& b, const char* id) {
	sym_assert(REQ(a.x, b.x), id);
	sym_assert(REQ(a.y, b.y), id);
	sym_assert(REQ(a.z, b.z), id);
}

// Matrix3::Invert: M * M^-1 == I, and false iff det == 0 (output untouched)
extern "C" void h_mat3_invert(int side) {
	Matrix3 m = sym_mat("m");
	for (int i = 0; i < 3; i++)
		for (int j = 0; j < 3; j++)
			bounded(m[i][j], 8.0f);
	float det = m.Determinant();
	Matrix3 inv;
	inv[0][0] = 7.0f; // sentinel: must stay when not invertible
	bool ok = m.Invert(&inv);
	if (det == 0.0f) {
		sym_assert(!ok, "C20-invert-singular: Invert must report a singular matrix");
		sym_assert(inv[0][0] == 7.0f, "C20-invert-untouched: Invert modified its output for a singular matrix");
		sym_reach("end");
		return;
	}
#ifdef SYM_NATIVE
	if (std::fabs(det) < 0.05f) { // ill-conditioned natively
		sym_reach("end");
		return;
	}
#endif
	sym_assert(ok, "C20-invert-ok: Invert must succeed for a non-singular matrix");
	Matrix3 p = side ? inv * m : m * inv;
	assert_identity(p, "C20-invert-identity: matrix times its inverse is not the identity");
	sym_reach("end");
}

// InverseTransform composed with the transform is the identity (both orders), as transforms and on points
extern "C" void h_xform_inverse(int order) {
	MatTransform t = sym_xform("t");
	for (int i = 0; i < 3; i++)
		for (int j = 0; j < 3; j++)
			bounded(t.rotation[i][j], 4.0f);
	bounded(t.scale, 8.0f);
	bounded(t.translation.x, 64.0f);
	bounded(t.translation.y, 64.0f);
	bounded(t.translation.z, 64.0f);
	float det = t.rotation.Determinant();
	sym_assume(det != 0.0f && t.scale != 0.0f);
#ifdef SYM_NATIVE
	if (std::fabs(det) < 0.1f || std::fabs(t.scale) < 0.1f) {
		sym_reach("end");
		return;
	}
#endif
	MatTransform inv = t.InverseTransform();
	MatTransform c = order ? inv.ComposeTransforms(t) : t.ComposeTransforms(inv);
	assert_identity(c.rotation, "C20-inverse-rotation: transform composed with its inverse has a non-identity rotation");
	sym_assert(REQ(c.scale, 1.0f), "C20-inverse-scale: transform composed with its inverse has scale != 1");
	assert_veq(c.translation, Vector3(0, 0, 0), "C20-inverse-translation: transform composed with its inverse has a translation");
	Vector3 p = sym_vec("p");
	bounded(p.x, 64.0f);
	bounded(p.y, 64.0f);
	bounded(p.z, 64.0f);
	Vector3 q = order ? inv.ApplyTransform(t.ApplyTransform(p)) : t.ApplyTransform(inv.ApplyTransform(p));
	assert_veq(q, p, "C20-inverse-point: applying a transform and its inverse does not return the point");
	sym_reach("end");
}

// ComposeTransforms == sequential application; ToMatrix consistent with ApplyTransform
extern "C" void h_xform_compose() {
	MatTransform a = sym_xform("a"), b = sym_xform("b");
	Vector3 p = sym_vec("p");
	MatTransform c = a.ComposeTransforms(b);
	Vector3 lhs = c.ApplyTransform(p);
	Vector3 rhs = a.ApplyTransform(b.ApplyTransform(p));
#ifdef SYM_NATIVE
	if (std::fabs(lhs.x) + std::fabs(lhs.y) + std::fabs(lhs.z) > 1e4f) {
		sym_reach("end");
		return;
	}
#endif
	assert_veq(lhs, rhs, "C20-compose: applying a composition differs from applying the parts in sequence");
	Matrix4 m = a.ToMatrix();
	Vector3 viaMat(m[0] * p.x + m[1] * p.y + m[2] * p.z + m[3], m[4] * p.x + m[5] * p.y + m[6] * p.z + m[7], m[8] * p.x + m[9] * p.y + m[10] * p.z + m[11]);
	assert_veq(viaMat, a.ApplyTransform(p), "C20-tomatrix: ToMatrix disagrees with ApplyTransform");
	Vector3 d = sym_vec("d");
	assert_veq(a.ApplyTransformToDiff(d), a.ApplyTransform(p + d) - a.ApplyTransform(p), "C20-diff: ApplyTransformToDiff is not the difference of transformed points");
	sym_reach("end");
}

// Matrix3 algebra used above: product associativity with a vector, transpose
extern "C" void h_mat3_algebra() {
	Matrix3 a = sym_mat("a"), b = sym_mat("b");
	Vector3 v = sym_vec("v");
	assert_veq((a * b) * v, a * (b * v), "C20-matmul: (A*B)*v != A*(B*v)");
	Matrix3 t = a.Transpose();
	bool ok = true;
	for (int i = 0; i < 3; i++)
		for (int j = 0; j < 3; j++)
			ok &= REQ(t[i][j], a[j][i]);
	sym_assert(ok, "C20-transpose: Transpose is not the transpose");
	sym_assert(REQ((a * b).Determinant(), a.Determinant() * b.Determinant()), "C20-det-product: det(A*B) != det(A)*det(B)");
	sym_reach("end");
}

// RotVecToMat: orthonormal with determinant +1 (both onemcosang branches)
extern "C" void h_rotvec_orthonormal() {
	Vector3 v = sym_vec("v");
	bounded(v.x, 3.0f);
	bounded(v.y, 3.0f);
	bounded(v.z, 3.0f);
	Matrix3 m = RotVecToMat(v);
	Matrix3 p = m * m.Transpose();
	assert_identity(p, "C20-rotvec-orthonormal: RotVecToMat result is not orthonormal");
	sym_assert(REQ(m.Determinant(), 1.0f), "C20-rotvec-det: RotVecToMat result does not have determinant +1");
	sym_reach("end");
}

// RotMatToVec(RotVecToMat(v)) == v for 0 < |v| < pi ; branch = 0: angle < pi/3 (asin branch), 1: acos branch
extern "C" void h_rotvec_roundtrip(int branch) {
	Vector3 v = sym_vec("v");
	float len2 = v.x * v.x + v.y * v.y + v.z * v.z;
	float pi = sym_pi();
	if (branch == 0)
		sym_assume(len2 > 0.0004f && len2 < 1.0f); // |v| < 1 < pi/3
	else
		sym_assume(len2 > 1.21f && len2 < 9.0f); // 1.1 < |v| < 3 < pi  (pi/3 < 1.1)
	(void) pi;
	Matrix3 m = RotVecToMat(v);
	Vector3 w = RotMatToVec(m);
	assert_veq(w, v, "C20-rotvec-roundtrip: RotMatToVec(RotVecToMat(v)) != v below a half turn");
	sym_reach("end");
}

// averages / medians of n identical transforms return that transform
extern "C" void h_average(int n, int median) {
	MatTransform t;
	t.translation = sym_vec("t");
	t.scale = sym_real("s");
	// a rotation matrix given by a rotation vector (RotMatToVec/RotVecToMat are used inside the average)
	bounded(t.scale, 8.0f);
	std::vector<MatTransform> ts(n, t);
	MatTransform r = median ? CalcMedianMatTransform(ts) : CalcAverageMatTransform(ts);
	assert_veq(r.translation, t.translation, "C20-average-translation: average/median of identical transforms changes the translation");
	sym_assert(REQ(r.scale, t.scale), "C20-average-scale: average/median of identical transforms changes the scale");
	assert_identity(r.rotation, "C20-average-rotation: average/median of identity rotations is not the identity");
	sym_reach("end");
}

// bounding sphere of a point set contains every point and is no larger than the bounding-box diagonal sphere
extern "C" void h_bounds(int n) {
	std::vector<Vector3> pts(n);
	for (auto& p : pts) {
		p = sym_vec("p");
		bounded(p.x, 16.0f);
		bounded(p.y, 16.0f);
		bounded(p.z, 16.0f);
	}
	BoundingSphere bs(pts);
	Vector3 lo = pts[0], hi = pts[0];
	for (auto& p : pts) {
		lo.x = p.x < lo.x ? p.x : lo.x;
		lo.y = p.y < lo.y ? p.y : lo.y;
		lo.z = p.z < lo.z ? p.z : lo.z;
		hi.x = p.x > hi.x ? p.x : hi.x;
		hi.y = p.y > hi.y ? p.y : hi.y;
		hi.z = p.z > hi.z ? p.z : hi.z;
	}
	float diag2 = (hi.x - lo.x) * (hi.x - lo.x) + (hi.y - lo.y) * (hi.y - lo.y) + (hi.z - lo.z) * (hi.z - lo.z);
#ifdef SYM_NATIVE
	float eps = 1e-3f * (1.0f + diag2);
#else
	float eps = 0.0f;
#endif
	for (auto& p : pts) {
		float d2 = (p.x - bs.center.x) * (p.x - bs.center.x) + (p.y - bs.center.y) * (p.y - bs.center.y) + (p.z - bs.center.z) * (p.z - bs.center.z);
		sym_assert(d2 <= bs.radius * bs.radius + eps, "C20-bounds-contain: bounding sphere does not contain a point of the set");
	}
	sym_assert(4.0f * bs.radius * bs.radius <= diag2 + eps, "C20-bounds-size: bounding sphere is larger than the sphere around the bounding-box diagonal");
	sym_assert(bs.radius >= 0.0f, "C20-bounds-radius: negative radius");
	sym_reach("end");
}

// recomputed shape bounds contain all *current* vertices: the shape's caches are filled first, then the vertices are
// moved (same count) and the bounds recomputed.  kind 0: BSTriShape (vertex records + raw cache), 1: NiTriShapeData
extern "C" void h_shape_bounds(int kind, int n) {
	std::vector<Vector3> a(n), b(n);
	for (int i = 0; i < n; i++) {
		a[i] = sym_vec("a");
		b[i] = sym_vec("b");
		bounded(a[i].x, 16.0f);
		bounded(a[i].y, 16.0f);
		bounded(a[i].z, 16.0f);
		bounded(b[i].x, 16.0f);
		bounded(b[i].y, 16.0f);
		bounded(b[i].z, 16.0f);
	}
	BoundingSphere bs;
	if (kind == 0) {
		BSTriShape s;
		s.vertData.resize(n);
		s.numVertices = (uint16_t) n;
		for (int i = 0; i < n; i++)
			s.vertData[i].vert = a[i];
		s.UpdateRawVertices();
		s.UpdateBounds();
		for (int i = 0; i < n; i++)
			s.vertData[i].vert = b[i];
		s.UpdateBounds();
		bs = s.GetBounds();
	}
	else {
		NiTriShapeData d;
		d.vertices = a;
		d.numVertices = (uint16_t) n;
		d.UpdateBounds();
		d.vertices = b;
		d.UpdateBounds();
		bs = d.GetBounds();
	}
#ifdef SYM_NATIVE
	float eps = 1e-2f;
#else
	float eps = 0.0f;
#endif
	for (int i = 0; i < n; i++) {
		float d2 = (b[i].x - bs.center.x) * (b[i].x - bs.center.x) + (b[i].y - bs.center.y) * (b[i].y - bs.center.y) + (b[i].z - bs.center.z) * (b[i].z - bs.center.z);
		sym_assert(d2 <= bs.radius * bs.radius + eps, "C20-shape-bounds: recomputed shape bounds do not contain a current vertex");
	}
	sym_reach("end");
}
