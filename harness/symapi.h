// nifsym harness API.  The same harness source is (a) compiled to bitcode and executed symbolically by
// nifsym (these functions are then engine primitives) and (b) compiled natively with -DSYM_NATIVE, where
// they read the concrete values of a replay file (sym_native.cpp).
#pragma once
#include <cstdint>
#include <cstring>
#include <iostream>
#include <istream>
#include <ostream>
#include <string>
#include <vector>

extern "C" {
uint8_t sym_u8(const char* name);
uint16_t sym_u16(const char* name);
uint32_t sym_u32(const char* name);
uint64_t sym_u64(const char* name);
float sym_f32(const char* name);
float sym_real(const char* name); // Real mode (C20): an arbitrary real number; natively the nearest float of the model value
float sym_pi();
// reference IEEE binary32 <-> binary16 conversions (engine: z3 fp.to_fp RNE; native: independent bit-level code)
uint16_t sym_ref_f2h(float x);
float sym_ref_h2f(uint16_t h);
void sym_bytes(void* p, unsigned long n, const char* name);
void sym_assume(bool c);
void sym_assert(bool c, const char* id_colon_msg);
void sym_reach(const char* tag);
void sym_note(const char* key, unsigned long value);
// one global output buffer / one input stream per path
unsigned long sym_out_len();
unsigned long sym_in_pos();
bool sym_in_eof(); // a read ran past the end of the input since the last sym_in_from_out
void sym_in_from_out(unsigned long a, unsigned long b);
void sym_in_rewind();
bool sym_out_equal(unsigned long a0, unsigned long a1, unsigned long b0, unsigned long b1);
void sym_out_reset();
void sym_out_clear();
void sym_out_truncate(unsigned long n);
void sym_out_read(void* dst, unsigned long pos, unsigned long n);
void sym_out_write(const void* src, unsigned long pos, unsigned long n);
void sym_set_truncation();
void sym_set_truncation_range(unsigned long lo, unsigned long hi); // truncation point T with lo <= T <= hi
// heap primitives (engine only; native: trivially true, ASan does the memory checking)
bool sym_heap_disjoint(void* a, unsigned long na, void* b, unsigned long nb);
bool sym_deep_equal(void* a, unsigned long na, void* b, unsigned long nb);
unsigned long sym_snapshot(void* a, unsigned long na);
bool sym_unchanged(unsigned long snap);
// serialisation hooks (OUSNIUS_NIFLY_VERIF): objects reported since the last reset
void sym_watch_reset();
unsigned long sym_watch_count(int kind);
void* sym_watch_get(int kind, unsigned long i);
}

#ifdef SYM_NATIVE
#include <streambuf>
// native streams: both operate on the global buffers of sym_native.cpp with absolute positions
class SymOutBuf : public std::streambuf {
protected:
	std::streamsize xsputn(const char* s, std::streamsize n) override;
	int_type overflow(int_type c) override;
	pos_type seekoff(off_type off, std::ios_base::seekdir dir, std::ios_base::openmode) override;
	pos_type seekpos(pos_type pos, std::ios_base::openmode) override;
};
class SymInBuf : public std::streambuf {
protected:
	std::streamsize xsgetn(char* s, std::streamsize n) override;
	int_type underflow() override;
	int_type uflow() override;
};
struct SymOStream {
	SymOutBuf buf;
	std::ostream os;
	SymOStream() : os(&buf) {}
	std::ostream& s() { return os; }
};
struct SymIStream {
	SymInBuf buf;
	std::istream is;
	SymIStream() : is(&buf) {}
	std::istream& s() { return is; }
};
#else
// engine streams: fake basic_ios images; read/write/tellp/seekp/getline are engine models.
// layout { vptr ; pad ; ios_base at vbase offset 16 }; ctype facet with identity widen table.
struct SymFakeIos {
	void* vptr;
	unsigned long pad[1];
	unsigned char ios[280];
};
static long sym_fake_vt[4] = {16 /*vbase offset*/, 0, 0, 0};
static unsigned char sym_fake_ctype[576];
static inline void sym_fake_init(SymFakeIos& f) {
	f.vptr = &sym_fake_vt[3];
	for (auto& c : f.ios)
		c = 0;
	sym_fake_ctype[56] = 1;
	for (int i = 0; i < 256; i++)
		sym_fake_ctype[57 + i] = (unsigned char) i;
	*(void**) (f.ios + 240) = sym_fake_ctype;
}
struct SymOStream {
	SymFakeIos f;
	SymOStream() { sym_fake_init(f); }
	std::ostream& s() { return *(std::ostream*) &f; }
};
struct SymIStream {
	SymFakeIos f;
	SymIStream() { sym_fake_init(f); }
	std::istream& s() { return *(std::istream*) &f; }
};
#endif

// helpers shared by harnesses
static inline std::vector<uint16_t> sym_sorted_u16(int k, const char* name) {
	std::vector<uint16_t> idx(k);
	for (int i = 0; i < k; i++) {
		idx[i] = sym_u16(name);
		if (i > 0)
			sym_assume(idx[i - 1] < idx[i]);
	}
	return idx;
}
