// F-model family: small whole-file models built through the public NifFile API inside the engine.
#pragma once
#include "symapi.h"
#include "NifFile.hpp"
#include "NifUtil.hpp"
#include "bhk.hpp"
#include "Animation.hpp"
#include "ExtraData.hpp"
#include <set>
using namespace nifly;

// version ids used by all F-model harnesses
enum { FM_OB = 0, FM_FO3 = 1, FM_SK = 2, FM_SSE = 3, FM_FO4 = 4, FM_FO76 = 5, FM_NVER = 6 };
static NiVersion fm_version(int ver) {
	switch (ver) {
		case FM_OB: return NiVersion::getOB();
		case FM_FO3: return NiVersion::getFO3();
		case FM_SK: return NiVersion::getSK();
		case FM_SSE: return NiVersion::getSSE();
		case FM_FO4: return NiVersion::getFO4();
		default: return NiVersion::getFO76();
	}
}

// feature bits
enum {
	FM_SKIN = 1,       // skinned shape with 2 bones
	FM_COLL = 2,       // bhkCollisionObject -> bhkRigidBody -> bhkBoxShape on the root (not FO4/FO76)
	FM_EXTRA = 4,      // NiStringExtraData + NiIntegerExtraData on the root
	FM_SHAPE2 = 8,     // second shape
	FM_CTRL = 16,      // NiTransformController -> NiTransformInterpolator -> NiTransformData on a node
	FM_LOOSE = 32,     // one unreferenced block
	FM_SYMPOS = 64,    // symbolic vertex positions / uvs
	FM_CHILDNODE = 128, // extra child node below a bone (deeper tree)
	FM_LOOSECHAIN = 256, // unreferenced bhkCollisionObject -> bhkRigidBody -> bhkBoxShape chain, stored children first
	FM_SHAPEEXTRA = 512,  // NiStringExtraData assigned to the shape itself (listed before any tangent-space extra data)
	FM_ROOT1 = 1024,      // with FM_LOOSE: the loose block is moved to index 0 and the root node to index 1
	FM_SHAREDCOLL = 2048, // with FM_COLL: a second node references the same collision object
	FM_SHADERCTRL = 4096, // chain of two float controllers on the shape's lighting shader (SK/SSE/FO4)
	FM_BONETREE = 8192,   // with FM_SKIN: Bone1 is a child of Bone0 instead of the root
	FM_LEGACYSHAPE = 16384, // SSE/FO4 file that still contains NiTriShape geometry (built as Skyrim LE, then re-versioned)
	FM_EXPORTINFO = 32768,  // 300-character export info in the header
	FM_TEXPATH = 65536,     // a texture path that needs cleaning in texture slot 0
	FM_CHILD0 = 33554432,   // a NiCamera child of the root is moved to block index 0 (the root to index 1): non-zero root index with a referenced block in front
	FM_VERTEXTRA = 16777216, // SSE/FO4/FO76 unskinned: full-precision BSTriShape whose vertices carry one extra float each
	FM_STRIPPART = 8388608, // OB/FO3/SK with FM_SKIN: the skin partition stores its faces as strips (one strip per triangle), as game files do
	FM_SEGMENTS = 4194304,  // FO4/FO76: the shape carries 2 segments, the first with 2 sub-segments (triangle 0 in sub-segment 1, triangle 1 in segment 2)
	FM_SKIN2 = 2097152,     // with FM_SHAPE2: "Other" is skinned to ONE bone ("Bone0"), so that the file holds skin blocks with different bone counts
	FM_DATALESS = 1048576,  // OB/FO3/SK: a NiTriShape "NoData" without geometry data is the first shape of the file
	FM_BONETYPE = 524288,   // with FM_SKIN: bone "Bone1" is a BSValueNode (value 42) instead of a NiNode
	FM_STRIPS = 262144,     // OB/FO3/SK: "Shape" is a NiTriStrips (one strip 0-1-2-3) instead of a NiTriShape
	FM_SRCTEX = 131072      // OB/FO3: NiTexturingProperty (base texture) -> NiSourceTexture with a path that needs cleaning
};

struct FmModel {
	NiShape* shape = nullptr;
	NiShape* shape2 = nullptr;
	int nverts = 4;
};

static inline void fm_geometry(std::vector<Vector3>& verts, std::vector<Triangle>& tris, std::vector<Vector2>& uvs, std::vector<Vector3>& norms, bool sym) {
	// values that are NOT exactly representable as half floats (so that precision loss in memory is visible)
	verts = {Vector3(0.1f, 0, 0), Vector3(1.1f, 0.3f, 0), Vector3(0, 1.7f, 0.01f), Vector3(1.003f, 1, 0.5f)};
	tris = {Triangle(0, 1, 2), Triangle(1, 3, 2)};
	uvs = {Vector2(0.1f, 0), Vector2(1, 0.3f), Vector2(0, 0.9f), Vector2(0.7f, 1)};
	norms = {Vector3(0, 0, 1), Vector3(0, 0, 1), Vector3(0, 0, 1), Vector3(0, 0, 1)};
	if (sym) {
		for (auto& v : verts) {
			v.x = sym_f32("px");
			v.y = sym_f32("py");
			v.z = sym_f32("pz");
		}
		for (auto& u : uvs) {
			u.u = sym_f32("uu");
			u.v = sym_f32("uv");
		}
	}
}

static inline void fm_skin(NifFile& nif, NiShape* shape, const char* shapeName, int nv, bool boneTree = false) {
	MatTransform t;
	nif.CreateSkinning(shape);
	std::vector<int> bones;
	NiNode* b0 = nif.AddNode("Bone0", t);
	NiNode* b1 = boneTree ? nif.AddNode("Bone1", t, b0) : nif.AddNode("Bone1", t);
	bones.push_back(nif.GetBlockID(b0));
	bones.push_back(nif.GetBlockID(b1));
	nif.SetShapeBoneIDList(shape, bones);
	for (int b = 0; b < 2; b++) {
		std::unordered_map<uint16_t, float> w;
		for (int i = 0; i < nv; i++)
			w[(uint16_t) i] = (b == 0) ? 0.25f * (i + 1) : 1.0f - 0.25f * (i + 1);
		nif.SetShapeBoneWeights(shapeName, b, w);
	}
	if (dynamic_cast<BSTriShape*>(shape)) {
		for (int i = 0; i < nv; i++) {
			std::vector<uint8_t> ids = {0, 1};
			std::vector<float> ws = {0.25f * (i + 1), 1.0f - 0.25f * (i + 1)};
			nif.SetShapeVertWeights(shapeName, (uint16_t) i, ids, ws);
		}
	}
	nif.UpdateSkinPartitions(shape);
}

static inline FmModel fm_build(NifFile& nif, int ver, int feat) {
	FmModel m;
	bool legacy = (feat & FM_LEGACYSHAPE) && (ver == FM_SSE || ver == FM_FO4);
	nif.Create(fm_version(legacy ? (int) FM_SK : ver));
	MatTransform t;
	std::vector<Vector3> verts, norms;
	std::vector<Triangle> tris;
	std::vector<Vector2> uvs;
	fm_geometry(verts, tris, uvs, norms, feat & FM_SYMPOS);
	if ((feat & FM_DATALESS) && (ver == FM_OB || ver == FM_FO3 || ver == FM_SK)) {
		auto [ndS, nd] = nifly::make_unique<NiTriShape>();
		nd->name.get() = "NoData";
		uint32_t id = nif.GetHeader().AddBlock(std::move(ndS));
		nif.GetRootNode()->childRefs.AddBlockRef(id);
	}
	m.shape = nif.CreateShapeFromData("Shape", &verts, &tris, &uvs, &norms);
	if ((feat & FM_STRIPS) && (ver == FM_OB || ver == FM_FO3 || ver == FM_SK)) {
		NiHeader& h = nif.GetHeader();
		auto old = dynamic_cast<NiTriShape*>(m.shape);
		uint32_t shapeId = nif.GetBlockID(old);
		uint32_t dataId = old->DataRef()->index;
		auto [sdS, sd] = nifly::make_unique<NiTriStripsData>();
		sd->Create(h.GetVersion(), &verts, &tris, &uvs, &norms);
		sd->numTriangles = 2;
		sd->stripsInfo.stripLengths.resize(1);
		sd->stripsInfo.stripLengths[0] = 4;
		sd->stripsInfo.points = {{0, 1, 2, 3}};
		auto [stS, st] = nifly::make_unique<NiTriStrips>();
		*static_cast<NiTriBasedGeom*>(st) = *static_cast<NiTriBasedGeom*>(old);
		st->SetGeomData(sd);
		h.ReplaceBlock(dataId, std::move(sdS));
		h.ReplaceBlock(shapeId, std::move(stS));
		m.shape = st;
	}
	if (feat & FM_SKIN)
		fm_skin(nif, m.shape, "Shape", 4, (feat & FM_BONETREE) != 0);
	else
		nif.AddNode("Bone0", t);
	if ((feat & FM_VERTEXTRA) && !(feat & FM_SKIN)) {
		if (auto bs = dynamic_cast<BSTriShape*>(m.shape)) {
			bs->SetFullPrecision(true);
			float f = 0.25f;
			for (auto& v : bs->vertData) {
				v.extra.assign(1, f);
				f += 0.5f;
			}
		}
	}
	if ((feat & FM_STRIPPART) && (feat & FM_SKIN) && (ver == FM_OB || ver == FM_FO3 || ver == FM_SK)) {
		auto si = nif.GetHeader().GetBlock<NiSkinInstance>(m.shape->SkinInstanceRef());
		auto sp = si ? nif.GetHeader().GetBlock(si->skinPartitionRef) : nullptr;
		if (sp)
			for (auto& pb : sp->partitions) {
				pb.numStrips = (uint16_t) pb.triangles.size();
				pb.stripLengths.assign(pb.triangles.size(), 3);
				pb.strips.clear();
				for (auto& t : pb.triangles)
					pb.strips.push_back({t.p1, t.p2, t.p3});
				pb.hasFaces = true;
				pb.triangles.clear();
				pb.trueTriangles.clear();
			}
	}
	if ((feat & FM_BONETYPE) && (feat & FM_SKIN)) {
		if (auto b = nif.FindBlockByName<NiNode>("Bone1")) {
			auto [vS, v] = nifly::make_unique<BSValueNode>();
			*static_cast<NiNode*>(v) = *b;
			v->value = 42;
			nif.GetHeader().ReplaceBlock(nif.GetBlockID(b), std::move(vS));
		}
	}
	if (feat & FM_SHAPE2) {
		std::vector<Vector3> v2 = {Vector3(2, 0, 0), Vector3(3, 0, 0), Vector3(2, 1, 0)};
		std::vector<Triangle> t2 = {Triangle(0, 1, 2)};
		std::vector<Vector2> u2 = {Vector2(0, 0), Vector2(1, 0), Vector2(0, 1)};
		m.shape2 = nif.CreateShapeFromData("Other", &v2, &t2, &u2, nullptr);
	}
	if ((feat & FM_SEGMENTS) && (ver == FM_FO4 || ver == FM_FO76)) {
		NifSegmentationInfo inf;
		inf.segs.resize(2);
		inf.segs[0].partID = 0;
		inf.segs[0].subs.resize(2);
		inf.segs[0].subs[0].partID = 1;
		inf.segs[0].subs[0].userSlotID = 30;
		inf.segs[0].subs[0].material = 7;
		inf.segs[0].subs[1].partID = 2;
		inf.segs[0].subs[1].userSlotID = 31;
		inf.segs[0].subs[1].material = 8;
		inf.segs[1].partID = 3;
		inf.ssfFile = "Meshes\\a.ssf";
		std::vector<int> parts = {1, 3};
		NifFile::SetShapeSegments(m.shape, inf, parts);
	}
	if ((feat & FM_SKIN2) && m.shape2) {
		nif.CreateSkinning(m.shape2);
		NiNode* b0 = nif.FindBlockByName<NiNode>("Bone0");
		std::vector<int> bones = {(int) nif.GetBlockID(b0)};
		nif.SetShapeBoneIDList(m.shape2, bones);
		std::unordered_map<uint16_t, float> w;
		for (int i = 0; i < 3; i++)
			w[(uint16_t) i] = 1.0f;
		nif.SetShapeBoneWeights("Other", 0, w);
		if (dynamic_cast<BSTriShape*>(m.shape2))
			for (int i = 0; i < 3; i++) {
				std::vector<uint8_t> ids = {0};
				std::vector<float> ws = {1.0f};
				nif.SetShapeVertWeights("Other", (uint16_t) i, ids, ws);
			}
		nif.UpdateSkinPartitions(m.shape2);
	}
	NiHeader& hdr = nif.GetHeader();
	if ((feat & FM_COLL) && ver != FM_FO4 && ver != FM_FO76) {
		auto [colS, col] = nifly::make_unique<bhkCollisionObject>();
		auto [bodyS, body] = nifly::make_unique<bhkRigidBody>();
		auto [boxS, box] = nifly::make_unique<bhkBoxShape>();
		uint32_t boxId = hdr.AddBlock(std::move(boxS));
		body->shapeRef.index = boxId;
		uint32_t bodyId = hdr.AddBlock(std::move(bodyS));
		col->bodyRef.index = bodyId;
		col->targetRef.index = nif.GetBlockID(nif.GetRootNode());
		uint32_t colId = hdr.AddBlock(std::move(colS));
		nif.GetRootNode()->collisionRef.index = colId;
	}
	if (feat & FM_EXTRA) {
		auto sd = std::make_unique<NiStringExtraData>();
		sd->name.get() = "Prn";
		sd->stringData.get() = "WEAPON";
		nif.AssignExtraData(nif.GetRootNode(), std::move(sd));
		auto id = std::make_unique<NiIntegerExtraData>();
		id->name.get() = "BSX";
		id->integerData = 3;
		nif.AssignExtraData(nif.GetRootNode(), std::move(id));
	}
	if (feat & FM_CHILDNODE) {
		NiNode* bone = nif.FindBlockByName<NiNode>("Bone0");
		nif.AddNode("Child0", t, bone);
	}
	if (feat & FM_CTRL) {
		NiNode* bone = nif.FindBlockByName<NiNode>("Bone0");
		auto [dataS, data] = nifly::make_unique<NiTransformData>();
		auto [interpS, interp] = nifly::make_unique<NiTransformInterpolator>();
		auto [ctrlS, ctrl] = nifly::make_unique<NiTransformController>();
		interp->dataRef.index = hdr.AddBlock(std::move(dataS));
		ctrl->interpolatorRef.index = hdr.AddBlock(std::move(interpS));
		ctrl->targetRef.index = nif.GetBlockID(bone);
		bone->controllerRef.index = hdr.AddBlock(std::move(ctrlS));
	}
	if ((feat & FM_LOOSECHAIN) && ver != FM_FO4 && ver != FM_FO76) {
		auto [colS, col] = nifly::make_unique<bhkCollisionObject>();
		auto [bodyS, body] = nifly::make_unique<bhkRigidBody>();
		auto [boxS, box] = nifly::make_unique<bhkBoxShape>();
		uint32_t boxId = hdr.AddBlock(std::move(boxS));
		body->shapeRef.index = boxId;
		uint32_t bodyId = hdr.AddBlock(std::move(bodyS));
		col->bodyRef.index = bodyId;
		hdr.AddBlock(std::move(colS));
	}
	if (feat & FM_SHADERCTRL) {
		if (auto ls = dynamic_cast<BSLightingShaderProperty*>(nif.GetShader(m.shape))) {
			uint32_t shaderId = nif.GetBlockID(ls);
			auto [c2S, c2] = nifly::make_unique<BSLightingShaderPropertyFloatController>();
			auto [c1S, c1] = nifly::make_unique<BSLightingShaderPropertyFloatController>();
			c2->typeOfControlledVariable = 2;
			c2->targetRef.index = shaderId;
			c1->typeOfControlledVariable = 1;
			c1->targetRef.index = shaderId;
			c1->nextControllerRef.index = hdr.AddBlock(std::move(c2S));
			ls->controllerRef.index = hdr.AddBlock(std::move(c1S));
		}
	}
	if (feat & FM_SHAPEEXTRA) {
		auto sd = std::make_unique<NiStringExtraData>();
		sd->name.get() = "ShapeNote";
		sd->stringData.get() = "note";
		nif.AssignExtraData(m.shape, std::move(sd));
	}
	if ((feat & FM_SHAREDCOLL) && (feat & FM_COLL) && ver != FM_FO4 && ver != FM_FO76) {
		NiNode* bone = nif.FindBlockByName<NiNode>("Bone0");
		if (bone)
			bone->collisionRef.index = nif.GetRootNode()->collisionRef.index;
	}
	if (feat & FM_LOOSE) {
		auto loose = std::make_unique<NiStringExtraData>();
		loose->name.get() = "Loose";
		loose->stringData.get() = "unreferenced";
		uint32_t looseId = hdr.AddBlock(std::move(loose));
		if (feat & FM_ROOT1) {
			// new order: loose block first, root second, everything else shifted by one
			uint32_t n = hdr.GetNumBlocks();
			std::vector<uint32_t> order(n);
			for (uint32_t i = 0; i < n; i++)
				order[i] = i + 1;
			order[looseId] = 0;
			hdr.SetBlockOrder(order);
		}
	}
	if ((feat & FM_CHILD0) && !(feat & FM_ROOT1)) {
		auto [camS, cam] = nifly::make_unique<NiCamera>();
		cam->name.get() = "Cam";
		uint32_t camId = hdr.AddBlock(std::move(camS));
		nif.GetRootNode()->childRefs.AddBlockRef(camId);
		uint32_t n = hdr.GetNumBlocks();
		std::vector<uint32_t> order(n);
		for (uint32_t i = 0; i < n; i++)
			order[i] = i + 1;
		order[camId] = 0;
		hdr.SetBlockOrder(order);
	}
	if (feat & FM_EXPORTINFO)
		hdr.SetExportInfo(std::string(300, 'e'));
	if (feat & FM_TEXPATH) {
		if (auto sh = nif.GetShader(m.shape))
			if (auto ts = hdr.GetBlock<BSShaderTextureSet>(sh->TextureSetRef()))
				if (!ts->textures.empty())
					ts->textures[0].get() = "/effects//fx.dds ";
	}
	if ((feat & FM_SRCTEX) && (ver == FM_OB || ver == FM_FO3)) {
		auto [srcS, src] = nifly::make_unique<NiSourceTexture>();
		src->fileName.get() = "Data/Textures/armor//c.dds ";
		uint32_t sid = hdr.AddBlock(std::move(srcS));
		auto [tpS, tp] = nifly::make_unique<NiTexturingProperty>();
		tp->hasBaseTex = true;
		tp->baseTex.sourceRef.index = sid;
		uint32_t tid = hdr.AddBlock(std::move(tpS));
		m.shape->propertyRefs.AddBlockRef(tid);
	}
	if (legacy)
		hdr.SetVersion(fm_version(ver));
	return m;
}

// read-only query battery shared by C15 / C16: everything a viewer or converter would ask a loaded model
static inline void fm_query_battery(NifFile& nif) {
	auto shapes = nif.GetShapes();
	std::vector<NiObject*> tree;
	nif.GetTree(tree);
	nif.GetShapeNames();
	nif.GetNodes();
	nif.GetRootNode();
	for (auto sh : shapes) {
		std::vector<Vector3> v;
		nif.GetVertsForShape(sh, v);
		std::vector<Triangle> t;
		sh->GetTriangles(t);
		std::vector<std::string> bones;
		nif.GetShapeBoneList(sh, bones);
		std::vector<int> ids;
		nif.GetShapeBoneIDList(sh, ids);
		std::string tex;
		nif.GetTextureSlot(sh, tex, 0);
		nif.GetShader(sh);
		nif.GetParentNode(sh);
		nif.GetUvsForShape(sh);
		nif.GetNormalsForShape(sh);
		NiVector<BSDismemberSkinInstance::PartitionInfo> pinfo;
		std::vector<int> triParts;
		nif.GetShapePartitions(sh, pinfo, triParts);
		NifSegmentationInfo sinf;
		std::vector<int> segParts;
		NifFile::GetShapeSegments(sh, sinf, segParts);
		MatTransform xf;
		nif.GetShapeTransformGlobalToSkin(sh, xf);
		nif.CalcShapeTransformGlobalToSkin(sh, xf);
		// per-bone queries with every index that is valid for the shape's own bone list
		for (uint32_t bi = 0; bi < ids.size(); bi++) {
			nif.GetShapeTransformSkinToBone(sh, bi, xf);
			nif.GetShapeBoneTransform(sh, bi, xf);
			BoundingSphere bs;
			nif.GetShapeBoneBounds(sh, bi, bs);
			std::unordered_map<uint16_t, float> w;
			nif.GetShapeBoneWeights(sh, bi, w);
		}
		for (auto& bn : bones) {
			nif.GetShapeTransformSkinToBone(sh, bn, xf);
			nif.GetShapeBoneTransform(sh, bn, xf);
		}
	}
	for (auto n : nif.GetNodes())
		nif.GetParentNode(n);
}

struct FmRange {
	unsigned long a, b;
	int rc;
};
static inline FmRange fm_save(NifFile& nif, bool raw) {
	SymOStream o;
	NifSaveOptions opt;
	if (raw) {
		opt.optimize = false;
		opt.sortBlocks = false;
	}
	FmRange r;
	sym_out_reset();
	r.a = sym_out_len();
	r.rc = nif.Save(o.s(), opt);
	sym_out_reset();
	r.b = sym_out_len();
	return r;
}
static inline int fm_load(NifFile& nif, const FmRange& r, bool truncate = false, int seg = 0, int nseg = 1) {
	SymIStream i;
	sym_in_from_out(r.a, r.b);
	if (truncate) {
		unsigned long len = r.b - r.a;
		if (nseg <= 1)
			sym_set_truncation();
		else // the truncation points are split into nseg ranges explored by parallel jobs
			sym_set_truncation_range(len * seg / nseg, seg + 1 == nseg ? len : len * (seg + 1) / nseg - 1);
	}
	return nif.Load(i.s());
}

// all reference fields of the model, in block order
struct FmRef {
	NiRef* ref;
	NiObject* owner;
	bool isPtr;
};
static inline std::vector<FmRef> fm_all_refs(NifFile& nif) {
	// Deterministic order (identical in the engine and in the native twin): serialisation order, obtained by
	// writing each block to a scratch stream and reading the OUSNIUS_NIFLY_VERIF reference hook.
	std::vector<FmRef> all;
	NiHeader& hdr = nif.GetHeader();
	unsigned long keep = sym_out_len();
	for (uint32_t i = 0; i < hdr.GetNumBlocks(); i++) {
		auto b = hdr.GetBlock<NiObject>(i);
		if (!b)
			continue;
		std::set<NiRef*> refs, ptrs;
		b->GetChildRefs(refs);
		b->GetPtrs(ptrs);
		SymOStream scratch;
		NiOStream os(&scratch.s(), &hdr);
		sym_out_reset();
		sym_watch_reset();
		b->Put(os);
		unsigned long n = sym_watch_count(0);
		for (unsigned long k = 0; k < n; k++) {
			NiRef* r = (NiRef*) sym_watch_get(0, k);
			bool isChild = refs.count(r) != 0, isPtr = ptrs.count(r) != 0;
			if (isChild || isPtr)
				all.push_back({r, b, isPtr && !isChild});
		}
	}
	sym_out_reset();
	sym_out_truncate(keep);
	sym_watch_reset();
	return all;
}
