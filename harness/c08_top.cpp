// C08: lock-step translation validation of the current build against the reference snapshot (/verif/ref,
// compiled with -Dnifly=nifly_ref into the same module).  Both sides decode the same symbolic bytes
// under the same symbolic version.
#include <cstdint>
extern "C" {
uint32_t sym_u32(const char*);
void sym_assume(bool);
void sym_assert(bool, const char*);
void sym_reach(const char*);
unsigned long sym_out_len();
unsigned long sym_in_pos();
void sym_in_rewind();
void sym_in_from_out(unsigned long, unsigned long);
bool sym_out_equal(unsigned long, unsigned long, unsigned long, unsigned long);
bool sym_deep_equal(void* a, unsigned long na, void* b, unsigned long nb);
void* cur_getput(int, uint32_t, uint32_t, uint32_t, unsigned long*);
void* ref_getput(int, uint32_t, uint32_t, uint32_t, unsigned long*);
unsigned long cur_blocksize();
unsigned long ref_blocksize();
bool ref_supported(uint32_t, uint32_t, uint32_t);
bool cur_supported(uint32_t, uint32_t, uint32_t);
}
extern "C" void h_c08(int type, int vclass) {
	uint32_t f = sym_u32("vfile"), u = sym_u32("vuser"), s = sym_u32("vstream");
	sym_assume(ref_supported(f, u, s));
	if (vclass == 1)
		sym_assume(f != 0x14020007);
	else if (vclass == 2)
		sym_assume(f == 0x14020007 && s <= 100);
	else if (vclass == 3)
		sym_assume(f == 0x14020007 && s >= 130);
	sym_assert(cur_supported(f, u, s), "C08-accept: current build rejects a version the reference build accepts");
	unsigned long sr = 0, sc = 0;
	unsigned long o0 = sym_out_len();
	void* r = ref_getput(type, f, u, s, &sr);
	unsigned long bsr = ref_blocksize();
	unsigned long nr = sym_in_pos();
	unsigned long o1 = sym_out_len();
	sym_reach("loaded");
	sym_in_rewind();
	void* c = cur_getput(type, f, u, s, &sc);
	unsigned long nc = sym_in_pos();
	unsigned long o2 = sym_out_len();
	sym_assert(nr == nc, "C08-consumed: builds consume a different number of bytes for the same block");
	sym_assert(bsr == cur_blocksize(), "C08-blocksize: builds record different block sizes (header size table) for the same block");
	sym_assert(sym_out_equal(o0, o1, o1, o2), "C08-reencode: builds re-encode the same input to different bytes");
	if (sr == sc)
		sym_assert(sym_deep_equal(r, sr, c, sc), "C08-content: builds decode the same bytes to different content");
	// cross check: what the reference wrote is read by the current build to the same bytes, and vice versa
	sym_in_from_out(o0, o1);
	unsigned long s2 = 0;
	cur_getput(type, f, u, s, &s2);
	unsigned long o3 = sym_out_len();
	sym_assert(sym_in_pos() == o1 - o0, "C08-cross-consumed: current build does not consume exactly the block the reference wrote");
	sym_assert(sym_out_equal(o0, o1, o2, o3), "C08-cross: current build re-encodes the reference's output differently");
	sym_in_from_out(o1, o2);
	ref_getput(type, f, u, s, &s2);
	unsigned long o4 = sym_out_len();
	sym_assert(sym_in_pos() == o2 - o1, "C08-cross-consumed-ref: reference build does not consume exactly the block the current build wrote");
	sym_assert(sym_out_equal(o1, o2, o3, o4), "C08-cross-ref: reference build re-encodes the current build's output differently");
	sym_reach("end");
}
