"""Generates the block-type table of the F-block harness from the RegisterFactory<T>() lines of
/repo/src/Factory.cpp, so that a newly registered type is covered automatically."""
import os, re, sys


def block_types(repo):
    src = open(os.path.join(repo, "src", "Factory.cpp")).read()
    return re.findall(r"RegisterFactory<\s*([A-Za-z_0-9:]+)\s*>\s*\(\s*\)", src)


def generate(repo, out_path, template):
    types = block_types(repo)
    cases = "\n".join("\t\tcase %d: return new %s();" % (i, t) for i, t in enumerate(types))
    names = ",\n".join('\t"%s"' % t for t in types)
    sizes = "\n".join("\t\tcase %d: return sizeof(%s);" % (i, t) for i, t in enumerate(types))
    body = open(template).read()
    body = body.replace("/*@CASES@*/", cases).replace("/*@NAMES@*/", names).replace("/*@COUNT@*/", str(len(types))).replace("/*@SIZES@*/", sizes)
    os.makedirs(os.path.dirname(out_path), exist_ok=True)
    old = open(out_path).read() if os.path.exists(out_path) else None
    if old != body:
        with open(out_path, "w") as f:
            f.write(body)
    return types


if __name__ == "__main__":
    print(len(block_types(sys.argv[1] if len(sys.argv) > 1 else "/repo")))
