// C19: texture path clean-up is canonical and idempotent.
// The path is a string of concrete length with symbolic characters; the real TrimTexturePaths pipeline runs
// (trim_whitespace, std::regex_replace/regex_search through the engine's regex model, is_relative_path).
#include "fmodel.h"

static bool ci_starts(const std::string& s, const char* pre) {
	size_t n = strlen(pre);
	if (s.size() < n)
		return false;
	bool ok = true;
	for (size_t i = 0; i < n; i++) {
		unsigned char c = (unsigned char) s[i];
		unsigned char lc = (c >= 'A' && c <= 'Z') ? (unsigned char) (c + 32) : c;
		unsigned char p = (unsigned char) pre[i];
		unsigned char lp = (p >= 'A' && p <= 'Z') ? (unsigned char) (p + 32) : p;
		ok &= (lc == lp);
	}
	return ok;
}
static bool is_space(unsigned char c) { return c == 32 || (c >= 9 && c <= 13); }

static std::string make_path(int mode, int n1, int n2) {
	std::string s;
	auto symchars = [&](int n) {
		for (int i = 0; i < n; i++)
			s.push_back((char) sym_u8("c"));
	};
	if (mode == 0)
		symchars(n1);
	else if (mode == 1) {
		symchars(n1);
		s += "\\textures\\";
		symchars(n2);
	}
	else if (mode == 2) {
		symchars(n1);
		s += "textures";
		symchars(n2);
	}
	else if (mode == 3) {
		s += "data\\";
		symchars(n1);
	}
	else {
		s += "Textures\\";
		symchars(n1);
	}
	for (char c : s)
		sym_assume(c != 0); // C strings in the file format cannot contain NUL
	return s;
}

// is s already in canonical form (for the given game / terrain flag)?
static bool is_canonical(const std::string& s, bool isOB, bool terrain) {
	if (s.empty())
		return true;
	bool ok = !is_space((unsigned char) s.front()) && !is_space((unsigned char) s.back()) && s.front() != '\\';
	for (size_t i = 0; i < s.size(); i++) {
		ok &= (s[i] != '/');
		ok &= (s[i] != 10 && s[i] != 13); // line terminators: see known finding about '.'
		if (i + 1 < s.size())
			ok &= !(s[i] == '\\' && s[i + 1] == '\\');
	}
	std::string rest = s;
	if (terrain) {
		ok &= ci_starts(s, "data\\");
		rest = s.size() >= 5 ? s.substr(5) : std::string();
	}
	if (!isOB)
		ok &= ci_starts(rest, "textures\\");
	if (terrain && isOB)
		ok &= !ci_starts(rest, "data\\");
	// no further textures folder behind the first one, no drive/root prefix
	for (size_t i = 1; i + 10 <= rest.size(); i++)
		ok &= !ci_starts(rest.substr(i), "\\textures\\");
	if (terrain)
		for (size_t i = 0; i + 5 <= rest.size(); i++)
			ok &= !(ci_starts(rest.substr(i), "data\\") && (i == 0));
	return ok;
}

static void check_canonical(const std::string& in, const std::string& out, bool isOB, bool terrain) {
	bool blank = true;
	for (unsigned char c : in)
		blank &= is_space(c);
	if (blank) {
		sym_assert(out.empty(), "C19-blank: an empty or blank path did not become empty");
		return;
	}
	sym_assert(!out.empty() || true, "C19-nonempty: unreachable");
	if (!out.empty()) {
		// leading whitespace can only be what was uncovered when a prefix (leading separators, "...\\textures\\") was
		// cut after the trimming step: identified separately (known finding for Oblivion, see known_findings.json)
		sym_assert(!is_space((unsigned char) out.front()), "C19-whitespace-leading: cleaned path starts with whitespace (uncovered by cutting a prefix)");
		sym_assert(!is_space((unsigned char) out.back()), "C19-whitespace: cleaned path has trailing whitespace");
		for (size_t i = 0; i < out.size(); i++) {
			sym_assert(out[i] != '/', "C19-slash: cleaned path still contains a forward slash");
			if (i + 1 < out.size())
				sym_assert(!(out[i] == '\\' && out[i + 1] == '\\'), "C19-double: cleaned path contains a double backslash");
		}
		// nothing before the textures folder: a "\textures\" component may only occur when the path already starts with textures\ .
		// (for terrain the canonical form is Data\textures\..., so the Data\ prefix is skipped first)
		std::string rest = (terrain && ci_starts(out, "data\\")) ? out.substr(5) : out;
		bool inner = false;
		for (size_t i = 1; i + 10 <= rest.size(); i++)
			inner |= ci_starts(rest.substr(i), "\\textures\\");
		bool hasNewline = false;
		for (unsigned char c : in)
			hasNewline |= (c == 10 || c == 13);
		if (inner)
			sym_assert(ci_starts(rest, "textures\\"), hasNewline ? "C19-before-textures-newline: a prefix containing a line terminator is left in front of the textures folder"
																  : "C19-before-textures: something is left in front of the textures folder");
		sym_assert(out.front() != '\\', "C19-leading-backslash: cleaned path starts with a backslash");
		if (terrain)
			sym_assert(ci_starts(out, "data\\"), "C19-data-prefix: terrain path lacks the Data\\ prefix");
		else if (!isOB)
			sym_assert(ci_starts(out, "textures\\"), "C19-textures-prefix: relative path lacks the textures\\ prefix");
	}
}

// slot: 0 = texture set slot 0; 1..5 = effect shader source / normal / greyscale / env map / env mask texture;
//       6 = NiSourceTexture behind the shape's NiTexturingProperty (base texture; OB/FO3); 7 = texture set slot 1
// every other path of the same owner holds a distinct path in canonical form and must not change
extern "C" void h_paths(int ver, int terrain, int mode, int n1, int n2, int slot) {
	NifFile nif;
	fm_build(nif, ver, slot == 6 ? (int) FM_SRCTEX : 0);
	NiHeader& hdr = nif.GetHeader();
	NiShape* shape = nif.GetShapes()[0];
	NiShader* shader = nif.GetShader(shape);
	sym_assert(shader != nullptr, "C19-setup: no shader");
	std::string* target = nullptr;
	std::vector<std::string*> others;
	bool isOBv = hdr.GetVersion().IsOB();
	if (slot >= 1 && slot <= 5) {
		auto es = std::make_unique<BSEffectShaderProperty>();
		uint32_t id = hdr.ReplaceBlock(nif.GetBlockID(shader), std::move(es));
		auto eff = hdr.GetBlock<BSEffectShaderProperty>(id);
		std::string* all[5] = {&eff->sourceTexture.get(), &eff->normalTexture.get(), &eff->greyscaleTexture.get(), &eff->envMapTexture.get(), &eff->envMaskTexture.get()};
		for (int i = 0; i < 5; i++)
			if (i == slot - 1)
				target = all[i];
			else
				others.push_back(all[i]);
	}
	else if (slot == 6) {
		auto tp = nif.GetTexturingProperty(shape);
		sym_assert(tp != nullptr, "C19-setup: no texturing property");
		auto src = hdr.GetBlock(tp->baseTex.sourceRef);
		sym_assert(src != nullptr, "C19-setup: no source texture");
		target = &src->fileName.get();
	}
	else {
		auto ts = hdr.GetBlock<BSShaderTextureSet>(shader->TextureSetRef());
		sym_assert(ts != nullptr && !ts->textures.empty(), "C19-setup: no texture set");
		if (ts->textures.size() < 3)
			ts->textures.resize(3);
		int k = slot == 7 ? 1 : 0;
		for (int i = 0; i < 3; i++)
			if (i == k)
				target = &ts->textures[i].get();
			else
				others.push_back(&ts->textures[i].get());
	}
	// the other paths: distinct, already canonical
	std::vector<std::string> otherVals;
	for (size_t i = 0; i < others.size(); i++) {
		std::string v = std::string(terrain ? "Data\\" : "") + (isOBv ? "" : "textures\\") + "k" + std::string(1, (char) ('a' + i)) + ".dds";
		*others[i] = v;
		otherVals.push_back(v);
	}
	nif.isTerrain = terrain != 0;
	std::string in = make_path(mode, n1, n2);
	*target = in;
	sym_reach("loaded");
	nif.TrimTexturePaths();
	std::string out1 = *target;
	for (size_t i = 0; i < others.size(); i++)
		sym_assert(*others[i] == otherVals[i], "C19-other-slot: cleaning changed another path that was already in canonical form");
	bool isOB = hdr.GetVersion().IsOB();
	check_canonical(in, out1, isOB, terrain != 0);
	if (is_canonical(in, isOB, terrain != 0))
		sym_assert(out1 == in, "C19-clean-unchanged: a path that is already in canonical form was changed by the clean-up");
	nif.TrimTexturePaths();
	std::string out2 = *target;
	sym_assert(out2 == out1, (isOB && terrain) ? "C19-idempotent-ob-terrain: cleaning an already cleaned path changed it (Oblivion + terrain)" : "C19-idempotent: cleaning an already cleaned path changed it");
	// the results are appended to the output buffer so that the native validation compares the real libstdc++
	// regex results with what the engine's regex model computed
	unsigned long o = sym_out_len();
	if (!out1.empty())
		sym_out_write(out1.data(), o, out1.size());
	unsigned char sep = 0;
	sym_out_write(&sep, o + out1.size(), 1);
	sym_reach("end");
}
