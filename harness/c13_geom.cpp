// C13: geometry written through the API is what is read back, in every version.
#include "fmodel.h"
#include "half.hpp"

static uint32_t fbits(float f) {
	uint32_t b;
	memcpy(&b, &f, 4);
	return b;
}
// what the file format's half storage does to a float, via the library's own conversion kernels; the kernels
// themselves are proved equal to the IEEE conversions for every input by h_half_to_float / h_float_to_half
static float through_half(float x) { return (float) half_float::half(x); }
static bool is_nan_bits(uint32_t b) { return ((b >> 23) & 0xFF) == 0xFF && (b & 0x7FFFFF) != 0; }

// ---- (b) half.hpp kernels against the IEEE definition
extern "C" void h_half_to_float() {
	uint16_t h = sym_u16("h");
	sym_assume(!(((h >> 10) & 0x1F) == 0x1F && (h & 0x3FF) != 0)); // not NaN
	half_float::half x;
	x.data_ = h;
	float f = x;
	sym_assert(fbits(f) == fbits(sym_ref_h2f(h)), "C13-half2float: half->float conversion differs from the IEEE value");
	half_float::half y(f);
	sym_assert(y.data_ == h, "C13-half-roundtrip: float->half(half->float(h)) != h");
	sym_reach("end");
}
extern "C" void h_float_to_half() {
	float x = sym_f32("x");
	sym_assume(!is_nan_bits(fbits(x)));
	half_float::half y(x);
	sym_assert(y.data_ == sym_ref_f2h(x), "C13-float2half: float->half conversion is not IEEE round-to-nearest-even");
	sym_reach("end");
}

// ---- (a) shape created from data: read back immediately and after save+reload
extern "C" void h_create(int ver, int withNormals, int nsym) {
	NifFile nif;
	nif.Create(fm_version(ver));
	const int n = 3;
	std::vector<Vector3> verts(n), norms = {Vector3(0, 0, 1), Vector3(0, 1, 0), Vector3(1, 0, 0)};
	std::vector<Vector2> uvs(n);
	// nsym vertices carry symbolic position/UV bit patterns, the others distinct concrete values
	for (int i = 0; i < n; i++) {
		verts[i] = Vector3(1.5f * i, -0.25f * i, 3.0f + i);
		uvs[i] = Vector2(0.125f * i, 1.0f - 0.25f * i);
	}
	for (int i = 0; i < nsym && i < n; i++) {
		auto& v = verts[n - 1 - i];
		v.x = sym_f32("px");
		v.y = sym_f32("py");
		v.z = sym_f32("pz");
		sym_assume(!is_nan_bits(fbits(v.x)));
		sym_assume(!is_nan_bits(fbits(v.y)));
		sym_assume(!is_nan_bits(fbits(v.z)));
		auto& u = uvs[n - 1 - i];
		u.u = sym_f32("uu");
		u.v = sym_f32("uv");
		sym_assume(!is_nan_bits(fbits(u.u)));
		sym_assume(!is_nan_bits(fbits(u.v)));
	}
	std::vector<Triangle> tris = {Triangle(0, 1, 2)};
	NiShape* shape = nif.CreateShapeFromData("S", &verts, &tris, &uvs, withNormals ? &norms : nullptr);
	sym_assert(shape != nullptr, "C13-create: no shape created");
	if (!shape)
		return;
	std::vector<Vector3> gv;
	nif.GetVertsForShape(shape, gv);
	sym_assert(gv.size() == (size_t) n, "C13-count: vertex count read back differs");
	for (int i = 0; i < n && i < (int) gv.size(); i++)
		sym_assert(fbits(gv[i].x) == fbits(verts[i].x) && fbits(gv[i].y) == fbits(verts[i].y) && fbits(gv[i].z) == fbits(verts[i].z),
				   "C13-verts-now: vertex read back immediately is not bit-identical");
	std::vector<Vector2> gu;
	nif.GetUvsForShape(shape, gu);
	sym_assert(gu.size() == (size_t) n, "C13-uvcount: UV count read back differs");
	for (int i = 0; i < n && i < (int) gu.size(); i++)
		sym_assert(fbits(gu[i].u) == fbits(uvs[i].u) && fbits(gu[i].v) == fbits(uvs[i].v), "C13-uvs-now: UV read back immediately is not bit-identical");
	std::vector<Triangle> gt;
	shape->GetTriangles(gt);
	sym_assert(gt.size() == 1 && gt[0].p1 == 0 && gt[0].p2 == 1 && gt[0].p3 == 2, "C13-tris-now: triangles read back differ");
	sym_reach("loaded");
	FmRange f = fm_save(nif, true);
	NifFile re;
	int rc = fm_load(re, f);
	sym_assert(rc == 0, "C13-reload: saved shape does not reload");
	auto shapes = re.GetShapes();
	sym_assert(shapes.size() == 1, "C13-reload-shape: shape missing after reload");
	if (shapes.size() != 1)
		return;
	NiShape* rs = shapes[0];
	std::vector<Vector3> rv;
	re.GetVertsForShape(rs, rv);
	sym_assert(rv.size() == (size_t) n, "C13-reload-count: vertex count differs after reload");
	bool halfPos = false, halfUv = false;
	if (auto bs = dynamic_cast<BSTriShape*>(rs)) {
		// SSE (stream 100) always stores full-precision positions; later versions store halves unless flagged
		halfPos = !bs->IsFullPrecision() && re.GetHeader().GetVersion().Stream() != 100;
		halfUv = true;
	}
	for (int i = 0; i < n && i < (int) rv.size(); i++) {
		const float in[3] = {verts[i].x, verts[i].y, verts[i].z};
		const float out[3] = {rv[i].x, rv[i].y, rv[i].z};
		for (int k = 0; k < 3; k++) {
			if (halfPos)
				sym_assert(fbits(out[k]) == fbits(through_half(in[k])), "C13-verts-reload-half: vertex after reload is not the half-precision rounding of the input");
			else
				sym_assert(fbits(out[k]) == fbits(in[k]), "C13-verts-reload: vertex after reload is not bit-identical");
		}
	}
	std::vector<Vector2> ru;
	re.GetUvsForShape(rs, ru);
	sym_assert(ru.size() == (size_t) n, "C13-reload-uvcount: UV count differs after reload");
	for (int i = 0; i < n && i < (int) ru.size(); i++) {
		const float in[2] = {uvs[i].u, uvs[i].v};
		const float out[2] = {ru[i].u, ru[i].v};
		for (int k = 0; k < 2; k++) {
			if (halfUv)
				sym_assert(fbits(out[k]) == fbits(through_half(in[k])), "C13-uvs-reload-half: UV after reload is not the half-precision rounding of the input");
			else
				sym_assert(fbits(out[k]) == fbits(in[k]), "C13-uvs-reload: UV after reload is not bit-identical");
		}
	}
	std::vector<Triangle> rt;
	rs->GetTriangles(rt);
	sym_assert(rt.size() == 1 && rt[0].p1 == 0 && rt[0].p2 == 1 && rt[0].p3 == 2, "C13-tris-reload: triangles differ after reload");
	sym_reach("end");
}

// ---- (c) setter/getter pairs keep counts and return what was set (exact attributes)
extern "C" void h_setget(int ver, int skinned, int wrongSize, int nsym) {
	NifFile nif;
	FmModel m = fm_build(nif, ver, skinned ? FM_SKIN : 0);
	NiShape* s = m.shape;
	const size_t n = 4;
	std::vector<Vector3> nv(n);
	for (size_t i = 0; i < n; i++)
		nv[i] = Vector3(0.3f + i, 1.7f * i, -0.9f);
	for (size_t i = 0; i < n && (int) i < nsym; i++) {
		auto& v = nv[n - 1 - i];
		v.x = sym_f32("px");
		v.y = sym_f32("py");
		v.z = sym_f32("pz");
		sym_assume(!is_nan_bits(fbits(v.x)));
		sym_assume(!is_nan_bits(fbits(v.y)));
		sym_assume(!is_nan_bits(fbits(v.z)));
	}
	std::vector<Vector3> before;
	nif.GetVertsForShape(s, before);
	auto uvBefore = *nif.GetUvsForShape(s);
	std::vector<Triangle> tb;
	s->GetTriangles(tb);
	nif.SetVertsForShape(s, nv);
	std::vector<Vector3> after;
	nif.GetVertsForShape(s, after);
	sym_assert(after.size() == n, "C13-set-count: vertex count changed by SetVertsForShape");
	for (size_t i = 0; i < n && i < after.size(); i++)
		sym_assert(memcmp(&after[i], &nv[i], 12) == 0, "C13-set-verts: GetVertsForShape does not return what SetVertsForShape stored");
	auto uvAfter = *nif.GetUvsForShape(s);
	sym_assert(uvAfter.size() == uvBefore.size() && (uvAfter.empty() || memcmp(uvAfter.data(), uvBefore.data(), uvAfter.size() * 8) == 0), "C13-set-others: setting vertices changed the UVs");
	std::vector<Triangle> ta;
	s->GetTriangles(ta);
	sym_assert(ta.size() == tb.size() && (ta.empty() || memcmp(ta.data(), tb.data(), ta.size() * 6) == 0), "C13-set-tris: setting vertices changed the triangles");
	// UVs
	if (wrongSize) {
		// a UV list of the wrong length must be ignored (SetVertsForShape, by design, re-creates the geometry instead)
		std::vector<Vector2> bad(n - 1, Vector2(9.0f, 9.0f));
		nif.SetUvsForShape(s, bad);
		auto g0 = *nif.GetUvsForShape(s);
		sym_assert(g0.size() == uvBefore.size() && (g0.empty() || memcmp(g0.data(), uvBefore.data(), g0.size() * 8) == 0), "C13-setuv-wrongsize: wrong-sized UV input was not ignored");
	}
	std::vector<Vector2> nu(n);
	for (size_t i = 0; i < n; i++)
		nu[i] = Vector2(0.15f * i, 0.7f - 0.1f * i);
	for (size_t i = 0; i < n && (int) i < nsym; i++) {
		auto& u = nu[n - 1 - i];
		u.u = sym_f32("uu");
		u.v = sym_f32("uv");
		sym_assume(!is_nan_bits(fbits(u.u)));
		sym_assume(!is_nan_bits(fbits(u.v)));
	}
	nif.SetUvsForShape(s, nu);
	auto gu = *nif.GetUvsForShape(s);
	sym_assert(gu.size() == n, "C13-setuv-count: UV count changed by SetUvsForShape");
	for (size_t i = 0; i < n && i < gu.size(); i++)
		sym_assert(memcmp(&gu[i], &nu[i], 8) == 0, "C13-setuv: GetUvsForShape does not return what SetUvsForShape stored");
	std::vector<Vector3> after2;
	nif.GetVertsForShape(s, after2);
	sym_assert(after2.size() == after.size() && memcmp(after2.data(), after.data(), after.size() * 12) == 0, "C13-setuv-others: setting UVs changed the vertices");
	// what was set is what a save + reload returns (bit-exact, or through the half kernels where halves are stored)
	sym_reach("loaded");
	FmRange f = fm_save(nif, true);
	NifFile re;
	int rc = fm_load(re, f);
	sym_assert(rc == 0, "C13-set-reload: model does not reload after the setters");
	NiShape* rs = re.FindBlockByName<NiShape>("Shape");
	sym_assert(rs != nullptr, "C13-set-reload-shape: shape missing after reload");
	if (rs) {
		bool halfPos = false, halfUv = false;
		if (auto bs = dynamic_cast<BSTriShape*>(rs)) {
			halfPos = !bs->IsFullPrecision() && re.GetHeader().GetVersion().Stream() != 100;
			halfUv = true;
		}
		std::vector<Vector3> rv;
		re.GetVertsForShape(rs, rv);
		sym_assert(rv.size() == n, "C13-set-reload-count: vertex count differs after reload");
		for (size_t i = 0; i < n && i < rv.size(); i++) {
			const float in[3] = {nv[i].x, nv[i].y, nv[i].z};
			const float out[3] = {rv[i].x, rv[i].y, rv[i].z};
			for (int k = 0; k < 3; k++) {
				sym_assert(fbits(out[k]) == fbits(halfPos ? through_half(in[k]) : in[k]), "C13-set-reload-verts: vertices set through the API are not what is read back after save+reload");
			}
		}
		auto ru = re.GetUvsForShape(rs);
		sym_assert(ru && ru->size() == n, "C13-set-reload-uvcount: UV count differs after reload");
		if (ru)
			for (size_t i = 0; i < n && i < ru->size(); i++) {
				const float in[2] = {nu[i].u, nu[i].v};
				const float out[2] = {(*ru)[i].u, (*ru)[i].v};
				for (int k = 0; k < 2; k++) {
					sym_assert(fbits(out[k]) == fbits(halfUv ? through_half(in[k]) : in[k]), "C13-set-reload-uvs: UVs set through the API are not what is read back after save+reload");
				}
			}
	}
	// triangles: set, read back, and read back after another save + reload
	std::vector<Triangle> nt = {Triangle(2, 1, 0), Triangle(1, 2, 3)};
	if (!skinned) {
		// an emptied triangle list reads back empty, and can be filled again
		std::vector<Triangle> none, g0;
		s->SetTriangles(none);
		s->GetTriangles(g0);
		sym_assert(g0.empty() && s->GetNumTriangles() == 0, "C13-settris-empty: GetTriangles does not return the empty list SetTriangles stored");
	}
	s->SetTriangles(nt);
	sym_assert(s->GetNumTriangles() == 2, "C13-settris-count: triangle count after SetTriangles");
	if (skinned)
		nif.UpdateSkinPartitions(s); // changing the topology of a skinned shape requires rebuilding its partitions
	std::vector<Triangle> gt;
	s->GetTriangles(gt);
	sym_assert(gt.size() == 2 && memcmp(gt.data(), nt.data(), 12) == 0, "C13-settris: GetTriangles does not return what SetTriangles stored");
	{
		FmRange f2 = fm_save(nif, true);
		NifFile re2;
		int rc2 = fm_load(re2, f2);
		sym_assert(rc2 == 0, "C13-set-reload: model does not reload after SetTriangles");
		NiShape* rs = re2.FindBlockByName<NiShape>("Shape");
		sym_assert(rs != nullptr, "C13-set-reload-shape: shape missing after reload");
		if (rs) {
			std::vector<Triangle> rt;
			rs->GetTriangles(rt);
			// (a skinned SSE shape stores its triangles in the skin partitions, corner-rotated: same triangles, same order)
			sym_assert(rt.size() == 2, "C13-set-reload-tris: triangle count differs after save+reload");
			for (size_t i = 0; i < 2 && i < rt.size(); i++) {
				Triangle a = rt[i], b = nt[i];
				a.rot();
				b.rot();
				sym_assert(a.p1 == b.p1 && a.p2 == b.p2 && a.p3 == b.p3, "C13-set-reload-tris: triangles set through the API are not what is read back after save+reload");
			}
		}
	}
	sym_reach("end");
}

// byte-quantised attributes of BSTriShape (normals, tangents, colours): the stored byte is a fixed point of
// get -> set, for every byte value (exhaustive, concrete)
extern "C" void h_quant(int ver) {
	NifFile nif;
	FmModel m = fm_build(nif, ver, 0);
	auto bs = dynamic_cast<BSTriShape*>(m.shape);
	if (!bs) {
		sym_reach("notbs");
		return;
	}
	for (int b = 0; b < 256; b += 1) {
		for (int k = 0; k < 3; k++)
			bs->vertData[0].normal[k] = (uint8_t) ((b + 85 * k) & 0xFF);
		auto raw = bs->UpdateRawNormals();
		std::vector<Vector3> nn = raw;
		bs->SetNormals(nn);
		for (int k = 0; k < 3; k++)
			sym_assert(bs->vertData[0].normal[k] == (uint8_t) ((b + 85 * k) & 0xFF), "C13-quant-normal: normal byte is not a fixed point of get->set");
	}
	sym_reach("end");
}
