// Native side of the nifsym harness API: replays one concrete assignment produced by the solver.
// usage: twin <replay.txt>
//   line 1: entry name, then integer args
//   "v <name> <width> <value>" lines in creation order, "i <hex>" external input bytes, "t <trunc>"
// prints: REACH <tag>, ASSERT-FAIL <msg>, ASSUME-FAIL, OUT <hex>, END
#include "symapi.h"
#include <cstdio>
#include <cstdlib>
#include <dlfcn.h>
#include <unistd.h>
#include <string>
#include <vector>

struct Val {
	std::string name;
	int width;
	unsigned long long v;
};
static std::vector<Val> g_vals;
static size_t g_vpos = 0;
static std::string g_out;
static long g_outpos = -1; // -1: append
static std::string g_in;
static size_t g_inpos = 0;
static bool g_in_external = true;
static bool g_in_eof = false;
static std::string g_ext;
static long g_trunc = -1;
static std::vector<const void*> g_watch[2];
static int g_fails = 0;

static unsigned long long next_val(const char* name, int width) {
	if (g_vpos >= g_vals.size()) {
		// value not constrained on the engine's path (created after the recorded prefix): zero
		return 0;
	}
	Val& v = g_vals[g_vpos++];
	if (v.name != name) {
		printf("REPLAY-DESYNC expected %s got %s\n", v.name.c_str(), name);
		fflush(stdout);
		_exit(3);
	}
	return v.v;
}

extern "C" {
uint8_t sym_u8(const char* name) { return (uint8_t) next_val(name, 8); }
uint16_t sym_u16(const char* name) { return (uint16_t) next_val(name, 16); }
uint32_t sym_u32(const char* name) { return (uint32_t) next_val(name, 32); }
uint64_t sym_u64(const char* name) { return (uint64_t) next_val(name, 64); }
float sym_f32(const char* name) {
	uint32_t b = (uint32_t) next_val(name, 32);
	float f;
	memcpy(&f, &b, 4);
	return f;
}
float sym_real(const char* name) { return sym_f32(name); }
float sym_pi() { return 3.14159265358979f; }
// independent reference conversions (round to nearest even), written from the IEEE 754 definition
uint16_t sym_ref_f2h(float x) {
	uint32_t b;
	memcpy(&b, &x, 4);
	uint32_t sign = (b >> 16) & 0x8000, exp = (b >> 23) & 0xFF, man = b & 0x7FFFFF;
	if (exp == 0xFF)
		return (uint16_t) (sign | 0x7C00 | (man ? 0x200 | (man >> 13) : 0));
	int e = (int) exp - 127 + 15;
	if (e >= 31)
		return (uint16_t) (sign | 0x7C00);
	if (e <= 0) {
		if (e < -10)
			return (uint16_t) sign;
		man |= 0x800000;
		int shift = 14 - e;
		uint32_t half = man >> shift, rem = man & ((1u << shift) - 1), mid = 1u << (shift - 1);
		if (rem > mid || (rem == mid && (half & 1)))
			half++;
		return (uint16_t) (sign | half);
	}
	uint32_t half = ((uint32_t) e << 10) | (man >> 13), rem = man & 0x1FFF;
	if (rem > 0x1000 || (rem == 0x1000 && (half & 1)))
		half++;
	return (uint16_t) (sign | half);
}
float sym_ref_h2f(uint16_t h) {
	uint32_t sign = ((uint32_t) h & 0x8000) << 16, exp = (h >> 10) & 0x1F, man = h & 0x3FF, b;
	if (exp == 0) {
		if (man == 0)
			b = sign;
		else {
			int e = -1;
			do {
				e++;
				man <<= 1;
			} while (!(man & 0x400));
			b = sign | ((uint32_t) (127 - 15 - e) << 23) | ((man & 0x3FF) << 13);
		}
	}
	else if (exp == 31)
		b = sign | 0x7F800000 | (man << 13);
	else
		b = sign | ((exp - 15 + 127) << 23) | (man << 13);
	float f;
	memcpy(&f, &b, 4);
	return f;
}
void sym_bytes(void* p, unsigned long n, const char* name) {
	for (unsigned long i = 0; i < n; i++)
		((unsigned char*) p)[i] = (unsigned char) next_val(name, 8);
}
void sym_assume(bool c) {
	if (!c) {
		printf("ASSUME-FAIL\n");
		fflush(stdout);
		_exit(4);
	}
}
void sym_assert(bool c, const char* msg) {
	if (!c) {
		printf("ASSERT-FAIL %s\n", msg);
		fflush(stdout);
		g_fails++;
	}
}
void sym_reach(const char* tag) {
	printf("REACH %s\n", tag);
	fflush(stdout);
}
void sym_note(const char*, unsigned long) {}
unsigned long sym_out_len() { return g_out.size(); }
unsigned long sym_in_pos() { return g_inpos; }
bool sym_in_eof() { return g_in_eof; }
void sym_in_from_out(unsigned long a, unsigned long b) {
	g_in = g_out.substr(a, b - a);
	g_inpos = 0;
	g_in_external = false;
	g_in_eof = false;
}
void sym_in_rewind() { g_inpos = 0; }
bool sym_out_equal(unsigned long a0, unsigned long a1, unsigned long b0, unsigned long b1) {
	if (a1 - a0 != b1 - b0)
		return false;
	return memcmp(g_out.data() + a0, g_out.data() + b0, a1 - a0) == 0;
}
void sym_out_reset() { g_outpos = -1; }
void sym_out_clear() {
	g_out.clear();
	g_outpos = -1;
}
void sym_out_truncate(unsigned long n) {
	if (n < g_out.size())
		g_out.resize(n);
	g_outpos = -1;
}
void sym_out_read(void* dst, unsigned long pos, unsigned long n) {
	if (pos + n > g_out.size()) {
		printf("ASSERT-FAIL harness: sym_out_read out of range\n");
		_exit(5);
	}
	memcpy(dst, g_out.data() + pos, n);
}
void sym_out_write(const void* src, unsigned long pos, unsigned long n) {
	if (pos + n > g_out.size())
		g_out.resize(pos + n);
	memcpy(&g_out[pos], src, n);
}
void sym_set_truncation() {
	if (g_trunc >= 0 && (size_t) g_trunc < g_in.size())
		g_in.resize(g_trunc);
}
void sym_set_truncation_range(unsigned long, unsigned long) { sym_set_truncation(); }
bool sym_heap_disjoint(void*, unsigned long, void*, unsigned long) { return true; }
bool sym_deep_equal(void*, unsigned long, void*, unsigned long) { return true; }
unsigned long sym_snapshot(void*, unsigned long) { return 0; }
bool sym_unchanged(unsigned long) { return true; }
void sym_watch_reset() {
	g_watch[0].clear();
	g_watch[1].clear();
}
unsigned long sym_watch_count(int kind) { return g_watch[kind].size(); }
void* sym_watch_get(int kind, unsigned long i) { return (void*) g_watch[kind][i]; }
void nifly_verif_ref_hook(const void* p) { g_watch[0].push_back(p); }
void nifly_verif_str_hook(const void* p, int) { g_watch[1].push_back(p); }
}

// ---- streams over the global buffers
std::streamsize SymOutBuf::xsputn(const char* s, std::streamsize n) {
	if (n <= 0)
		return 0;
	if (g_outpos < 0 || (size_t) g_outpos >= g_out.size()) {
		g_out.append(s, (size_t) n);
		g_outpos = -1;
	}
	else {
		if ((size_t) g_outpos + n > g_out.size())
			g_out.resize(g_outpos + n);
		memcpy(&g_out[g_outpos], s, (size_t) n);
		g_outpos += n;
	}
	return n;
}
SymOutBuf::int_type SymOutBuf::overflow(int_type c) {
	if (c != traits_type::eof()) {
		char ch = (char) c;
		xsputn(&ch, 1);
	}
	return c;
}
SymOutBuf::pos_type SymOutBuf::seekoff(off_type off, std::ios_base::seekdir dir, std::ios_base::openmode) {
	long cur = g_outpos < 0 ? (long) g_out.size() : g_outpos;
	long np = dir == std::ios_base::beg ? off : dir == std::ios_base::cur ? cur + off : (long) g_out.size() + off;
	if (!(dir == std::ios_base::cur && off == 0))
		g_outpos = np;
	return pos_type(np);
}
SymOutBuf::pos_type SymOutBuf::seekpos(pos_type pos, std::ios_base::openmode) {
	g_outpos = (long) pos;
	return pos;
}
std::streamsize SymInBuf::xsgetn(char* s, std::streamsize n) {
	if (n <= 0)
		return 0;
	size_t avail = g_inpos < g_in.size() ? g_in.size() - g_inpos : 0;
	size_t m = (size_t) n < avail ? (size_t) n : avail;
	if (m < (size_t) n)
		g_in_eof = true;
	memcpy(s, g_in.data() + g_inpos, m);
	g_inpos += m;
	return (std::streamsize) m;
}
SymInBuf::int_type SymInBuf::underflow() {
	if (g_inpos >= g_in.size())
		g_in_eof = true;
	if (g_inpos >= g_in.size())
		return traits_type::eof();
	return traits_type::to_int_type(g_in[g_inpos]);
}
SymInBuf::int_type SymInBuf::uflow() {
	if (g_inpos >= g_in.size())
		g_in_eof = true;
	if (g_inpos >= g_in.size())
		return traits_type::eof();
	return traits_type::to_int_type(g_in[g_inpos++]);
}

static int hexv(char c) { return c <= '9' ? c - '0' : (c | 32) - 'a' + 10; }

int main(int argc, char** argv) {
	if (argc < 2) {
		fprintf(stderr, "usage: twin replay.txt\n");
		return 2;
	}
	FILE* f = fopen(argv[1], "r");
	if (!f)
		return 2;
	char entry[256];
	long args[8] = {0};
	int nargs = 0;
	static char line[1 << 22];
	if (!fgets(line, sizeof line, f))
		return 2;
	{
		char* tok = strtok(line, " \n");
		strncpy(entry, tok, sizeof entry - 1);
		while ((tok = strtok(nullptr, " \n")) && nargs < 8)
			args[nargs++] = atol(tok);
	}
	while (fgets(line, sizeof line, f)) {
		if (line[0] == 'v') {
			char nm[256];
			int w;
			unsigned long long v;
			if (sscanf(line + 2, "%255s %d %llu", nm, &w, &v) == 3)
				g_vals.push_back({nm, w, v});
		}
		else if (line[0] == 'i') {
			char* p = line + 2;
			while (p[0] && p[1] && p[0] != '\n') {
				g_ext.push_back((char) (hexv(p[0]) * 16 + hexv(p[1])));
				p += 2;
			}
		}
		else if (line[0] == 't')
			g_trunc = atol(line + 2);
	}
	fclose(f);
	g_in = g_ext;
	void* sym = dlsym(RTLD_DEFAULT, entry);
	if (!sym) {
		fprintf(stderr, "no entry %s\n", entry);
		return 2;
	}
	((void (*)(long, long, long, long, long, long)) sym)(args[0], args[1], args[2], args[3], args[4], args[5]);
	printf("OUT ");
	for (unsigned char c : g_out)
		printf("%02x", c);
	printf("\nEND fails=%d\n", g_fails);
	fflush(stdout);
	return g_fails ? 42 : 0;
}
