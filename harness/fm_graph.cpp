// F-model harnesses over block graphs with symbolic reference fields: C04 (sort/prune), C15 (corrupted refs).
#include "fmodel.h"
#include <typeinfo>

struct Rec {
	NiRef* ref;
	NiObject* target;
	NiObject* owner;
	bool isPtr;
	bool childSlot; // entry of a NiNode's child list (may legitimately be re-ordered / re-allocated)
};
struct Snap {
	std::vector<NiObject*> objs;
	std::vector<Rec> recs;
};
static void snapshot(NifFile& nif, Snap& s) {
	NiHeader& hdr = nif.GetHeader();
	s.objs.clear();
	s.recs.clear();
	for (uint32_t i = 0; i < hdr.GetNumBlocks(); i++)
		s.objs.push_back(hdr.GetBlock<NiObject>(i));
	for (auto& fr : fm_all_refs(nif))
	{
		bool cs = false;
		if (auto node = dynamic_cast<NiNode*>(fr.owner))
			for (auto& cr : node->childRefs)
				cs |= (&cr == fr.ref);
		s.recs.push_back({fr.ref, hdr.GetBlock<NiObject>(fr.ref->index), fr.owner, fr.isPtr, cs});
	}
}
static bool is_child_slot(const Rec& rc) { return rc.childSlot; }
static int index_of(NiHeader& hdr, NiObject* o) {
	int found = -1, cnt = 0;
	for (uint32_t j = 0; j < hdr.GetNumBlocks(); j++)
		if (hdr.GetBlock<NiObject>(j) == o) {
			found = (int) j;
			cnt++;
		}
	return cnt == 1 ? found : (cnt == 0 ? -1 : -2);
}
static std::vector<unsigned char> put_bytes(NiHeader& hdr, NiObject* o) {
	SymOStream scratch;
	NiOStream os(&scratch.s(), &hdr);
	sym_out_reset();
	unsigned long a = sym_out_len();
	o->Put(os);
	sym_out_reset();
	unsigned long b = sym_out_len();
	std::vector<unsigned char> bytes(b - a);
	if (b > a)
		sym_out_read(bytes.data(), a, b - a);
	sym_out_truncate(a);
	return bytes;
}

// ---- C04: default save only permutes blocks and prunes unreferenced ones
extern "C" void h_c04(int ver, int feat, int which) {
	NifFile built;
	fm_build(built, ver, feat);
	if (which >= 0) {
		// rewire one reference to another block of the same type (or empty it): still a well-formed graph
		NiHeader& bh = built.GetHeader();
		NiNode* broot = built.GetRootNode();
		auto all = fm_all_refs(built);
		if (which >= (int) all.size()) {
			sym_reach("nofield");
			return;
		}
		NiRef* r = all[which].ref;
		NiObject* tgt = bh.GetBlock<NiObject>(r->index);
		if (!tgt) {
			sym_reach("nofield");
			return;
		}
		uint32_t x = sym_u32("ref");
		bool ok = (x == NIF_NPOS);
		bool nodeChild = !all[which].isPtr && dynamic_cast<NiNode*>(tgt);
		for (uint32_t j = 0; j < bh.GetNumBlocks(); j++) {
			NiObject* cand = bh.GetBlock<NiObject>(j);
			// same dynamic type, not the owner itself, not the root; node-to-node child references are only
			// emptied or kept (the scene graph stays a tree)
			if (typeid(*cand) == typeid(*tgt) && cand != all[which].owner && cand != broot && (!nodeChild || cand == tgt))
				ok |= (x == j);
		}
		sym_assume(ok);
		r->index = x;
	}
	// the model under test is what the library loads from the written file (caches rebuilt by Load)
	FmRange f0 = fm_save(built, true);
	NifFile nif;
	int rc0 = fm_load(nif, f0);
	sym_assert(rc0 == 0, "C04-setup: model does not load");
	NiHeader& hdr = nif.GetHeader();
	NiNode* root = nif.GetRootNode();
	Snap s;
	snapshot(nif, s);
	// blocks without references: their serialised bytes must not change
	std::vector<std::vector<unsigned char>> before(s.objs.size());
	std::vector<bool> leaf(s.objs.size(), false);
	for (size_t i = 0; i < s.objs.size(); i++) {
		bool hasRef = false;
		for (auto& rc : s.recs)
			hasRef |= (rc.owner == s.objs[i]);
		if (!hasRef && !dynamic_cast<NiShape*>(s.objs[i])) {
			leaf[i] = true;
			before[i] = put_bytes(hdr, s.objs[i]);
		}
	}
	// reachability from the root through child references, before
	std::set<NiObject*> reach;
	std::vector<NiObject*> stack;
	if (root) {
		reach.insert(root);
		stack.push_back(root);
	}
	while (!stack.empty()) {
		NiObject* o = stack.back();
		stack.pop_back();
		for (auto& rc : s.recs)
			if (rc.owner == o && !rc.isPtr && rc.target && reach.insert(rc.target).second)
				stack.push_back(rc.target);
	}
	bool rootParentless = root && nif.GetParentNode(root) == nullptr;

	nif.Optimize();
	nif.PrettySortBlocks();

	uint32_t n2 = hdr.GetNumBlocks();
	std::vector<int> pos(s.objs.size());
	for (size_t i = 0; i < s.objs.size(); i++) {
		pos[i] = index_of(hdr, s.objs[i]);
		sym_assert(pos[i] != -2, "C04-duplicate: a block occupies two slots after sort/prune");
	}
	unsigned survivors = 0;
	for (size_t i = 0; i < s.objs.size(); i++)
		survivors += pos[i] >= 0 ? 1 : 0;
	sym_assert(survivors == n2, "C04-bijection: block list after sort/prune is not a sub-permutation of the blocks before");
	for (size_t i = 0; i < s.objs.size(); i++)
		if (reach.count(s.objs[i]))
			sym_assert(pos[i] >= 0, "C04-reachable-lost: a block reachable from the root disappeared");
	for (auto& rc : s.recs) {
		if (index_of(hdr, rc.owner) < 0)
			continue;
		if (rc.target)
			sym_assert(index_of(hdr, rc.target) >= 0, "C04-dangling: a block still referenced by a surviving block was deleted");
		if (is_child_slot(rc))
			continue; // a node's child list may be re-ordered: compared as a multiset below
		NiObject* now = hdr.GetBlock<NiObject>(rc.ref->index);
		sym_assert(now == rc.target, "C04-rewired: a reference designates a different block after sort/prune");
	}
	// each node keeps the same children (as a multiset of objects), none listed more often than before
	for (size_t i = 0; i < s.objs.size(); i++) {
		if (pos[i] < 0)
			continue;
		auto node = dynamic_cast<NiNode*>(s.objs[i]);
		if (!node)
			continue;
		std::vector<NiObject*> was, is;
		for (auto& rc : s.recs)
			if (rc.owner == s.objs[i] && is_child_slot(rc) && rc.target)
				was.push_back(rc.target);
		for (auto& cr : node->childRefs)
			if (auto o = hdr.GetBlock<NiObject>(cr.index))
				is.push_back(o);
		sym_assert(was.size() == is.size(), "C04-children: a node's child list lost or gained an entry");
		for (auto o : was) {
			size_t cw = 0, ci = 0;
			for (auto x : was)
				cw += (x == o);
			for (auto x : is)
				ci += (x == o);
			sym_assert(cw == ci, "C04-children: a node's children changed (as a multiset) during sort/prune");
		}
	}
	if (rootParentless && root)
		sym_assert(hdr.GetBlock<NiObject>(0u) == root, "C04-root-first: parentless root is not the first block");
	for (uint32_t j = 0; j < n2; j++)
		sym_assert(hdr.GetBlockTypeStringById(j) == hdr.GetBlock<NiObject>(j)->GetBlockName(), "C04-typenames: header type name of a slot differs from the block in it after sort/prune");
	for (size_t i = 0; i < s.objs.size(); i++)
		if (leaf[i] && pos[i] >= 0) {
			auto after = put_bytes(hdr, s.objs[i]);
			sym_assert(after == before[i], "C04-content: a reference-free block changed its serialised content during sort/prune");
		}
	// sorting a sorted model changes nothing
	std::vector<NiObject*> order1;
	for (uint32_t j = 0; j < n2; j++)
		order1.push_back(hdr.GetBlock<NiObject>(j));
	nif.PrettySortBlocks();
	sym_assert(hdr.GetNumBlocks() == n2, "C04-idempotent: second sort changed the block count");
	for (uint32_t j = 0; j < n2 && j < hdr.GetNumBlocks(); j++)
		sym_assert(hdr.GetBlock<NiObject>(j) == order1[j], "C04-idempotent: sorting a sorted model changed the order");
	// the saved file reloads with the same number of blocks
	FmRange f = fm_save(nif, false);
	sym_assert(f.rc == 0, "C04-save: save failed");
	NifFile re;
	int rc = fm_load(re, f);
	sym_assert(rc == 0 && re.GetHeader().GetNumBlocks() == hdr.GetNumBlocks(), "C04-reload: saved file does not reload to the same block count");
	sym_reach("end");
}

// ---- SetShapeOrder with explicit orders incl. duplicate and missing names
extern "C" void h_shapeorder(int ver, int nshapes, int len) {
	NifFile nif;
	nif.Create(fm_version(ver));
	static const char* NAMES[] = {"S0", "S1", "S2", "Missing"};
	for (int i = 0; i < nshapes; i++) {
		std::vector<Vector3> v = {Vector3(i, 0, 0), Vector3(i + 1, 0, 0), Vector3(i, 1, 0)};
		std::vector<Triangle> t = {Triangle(0, 1, 2)};
		std::vector<Vector2> u = {Vector2(0, 0), Vector2(1, 0), Vector2(0, 1)};
		nif.CreateShapeFromData(NAMES[i], &v, &t, &u, nullptr);
	}
	NiHeader& hdr = nif.GetHeader();
	std::vector<std::string> order;
	bool dup = false;
	std::vector<uint32_t> picks;
	for (int i = 0; i < len; i++) {
		uint32_t c = sym_u32("pick");
		sym_assume(c <= (uint32_t) nshapes); // index nshapes == missing name
		for (auto p : picks)
			dup |= (p == c);
		picks.push_back(c);
		order.push_back(c < (uint32_t) nshapes ? NAMES[c] : NAMES[3]);
	}
	sym_note("dup", dup);
	Snap s;
	snapshot(nif, s);
	NiNode* root = nif.GetRootNode();
	uint32_t childCount = root->childRefs.GetSize();
	nif.SetShapeOrder(order);
	sym_assert(hdr.GetNumBlocks() == s.objs.size(), "C04-order-count: SetShapeOrder changed the number of blocks");
	for (size_t i = 0; i < s.objs.size(); i++)
		sym_assert(index_of(hdr, s.objs[i]) >= 0, dup ? "C04-order-bijection-dup: SetShapeOrder with a duplicate name lost or duplicated a block" : "C04-order-bijection: SetShapeOrder lost or duplicated a block");
	for (auto& rc : s.recs) {
		if (rc.childSlot)
			continue; // SetShapeOrder re-orders the root's child list; compared as a multiset below
		NiObject* now = hdr.GetBlock<NiObject>(rc.ref->index);
		sym_assert(now == rc.target, dup ? "C04-order-rewired-dup: a reference designates another block after SetShapeOrder with a duplicate name" : "C04-order-rewired: a reference designates another block after SetShapeOrder");
	}
	sym_assert(root->childRefs.GetSize() == childCount, dup ? "C04-order-children-dup: root child list changed length (duplicate name)" : "C04-order-children: root child list changed length");
	{
		std::vector<NiObject*> was, is;
		for (auto& rc : s.recs)
			if (rc.owner == root && rc.childSlot && rc.target)
				was.push_back(rc.target);
		for (auto& cr : root->childRefs)
			if (auto o = hdr.GetBlock<NiObject>(cr.index))
				is.push_back(o);
		for (auto o : was) {
			size_t cw = 0, ci = 0;
			for (auto x : was)
				cw += (x == o);
			for (auto x : is)
				ci += (x == o);
			sym_assert(cw == ci, dup ? "C04-order-childset-dup: root children changed as a multiset (duplicate name)" : "C04-order-childset: root children changed as a multiset");
		}
	}
	// no child listed more often than before
	std::vector<uint32_t> idx;
	root->childRefs.GetIndices(idx);
	for (size_t a = 0; a < idx.size(); a++)
		for (size_t b = a + 1; b < idx.size(); b++)
			sym_assert(idx[a] != idx[b] || idx[a] == NIF_NPOS, dup ? "C04-order-dupchild-dup: a child is listed twice after SetShapeOrder with a duplicate name" : "C04-order-dupchild: a child is listed twice after SetShapeOrder");
	sym_reach("end");
}

// ---- C15: corrupted references never crash loading, querying or saving
static void battery(NifFile& nif) {
	fm_query_battery(nif);
}
extern "C" void h_c15(int ver, int feat, int which, int which2) {
	NifFile nif;
	fm_build(nif, ver, feat);
	NiHeader& hdr = nif.GetHeader();
	// the corruption is injected into the written file image by patching the loaded copy's field
	// (Load copies reference fields verbatim), then the model is prepared again as Load does
	FmRange f0 = fm_save(nif, true);
	NifFile m;
	int rc0 = fm_load(m, f0);
	sym_assert(rc0 == 0, "C15-setup: clean model does not load");
	auto all = fm_all_refs(m);
	if (which >= (int) all.size() || which2 >= (int) all.size()) {
		sym_reach("nofield");
		return;
	}
	all[which].ref->index = sym_u32("ref");
	if (which2 >= 0 && which2 != which)
		all[which2].ref->index = sym_u32("ref2");
	sym_reach("loaded");
	// write the corrupted model without any clean-up and load it: this is "the file with a corrupted field"
	FmRange f1 = fm_save(m, true);
	NifFile c;
	int rc = fm_load(c, f1);
	sym_assert(rc == 0, "C15-load: file with a corrupted reference field does not load");
	battery(c);
	NifFile copy(c);
	battery(copy);
	c.PrettySortBlocks();
	battery(c);
	FmRange f2 = fm_save(c, false);
	sym_assert(f2.rc == 0, "C15-save: saving the model with a corrupted reference failed");
	NifFile re;
	int rc2 = fm_load(re, f2);
	sym_assert(rc2 == 0, "C15-reload: file saved from a model with a corrupted reference does not load");
	battery(re);
	sym_reach("end");
}
