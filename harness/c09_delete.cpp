// C09: deleting vertices keeps a shape and its skin data consistent.
// One kernel harness per notifyVerticesDelete override + NifFile::DeleteVertsForShape at file level.
#include "symapi.h"
#include "NifFile.hpp"
#include "NifUtil.hpp"
using namespace nifly;

// sorted, in-range deletion list (k strictly increasing indices < n)
static std::vector<uint16_t> del_list(int k, int n) {
	std::vector<uint16_t> idx(k);
	for (int i = 0; i < k; i++) {
		idx[i] = sym_u16("del");
		sym_assume(idx[i] < n);
		if (i > 0)
			sym_assume(idx[i - 1] < idx[i]);
	}
	return idx;
}
static bool deleted(const std::vector<uint16_t>& idx, unsigned v) {
	bool d = false;
	for (auto x : idx)
		d |= (x == v);
	return d;
}
static unsigned newIndex(const std::vector<uint16_t>& idx, unsigned v) {
	unsigned c = 0;
	for (auto x : idx)
		c += (x < v) ? 1 : 0;
	return v - c;
}
static void sym_tris(std::vector<Triangle>& tris, int n) {
	for (auto& t : tris) {
		t.p1 = sym_u16("p");
		t.p2 = sym_u16("p");
		t.p3 = sym_u16("p");
		sym_assume(t.p1 < n && t.p2 < n && t.p3 < n);
	}
}
// triangle-list oracle: survivors re-indexed, in order
static void check_tris(const std::vector<Triangle>& before, const std::vector<Triangle>& after, const std::vector<uint16_t>& idx, unsigned newCount) {
	size_t o = 0;
	for (auto& b : before) {
		bool gone = deleted(idx, b.p1) | deleted(idx, b.p2) | deleted(idx, b.p3);
		if (gone)
			continue;
		sym_assert(o < after.size(), "C09-tri-missing: a triangle without deleted corner disappeared");
		if (o < after.size())
			sym_assert(after[o].p1 == newIndex(idx, b.p1) && after[o].p2 == newIndex(idx, b.p2) && after[o].p3 == newIndex(idx, b.p3),
					   "C09-tri-reindex: surviving triangle not re-indexed to the same corners in order");
		o++;
	}
	sym_assert(o == after.size(), "C09-tri-count: triangle list keeps a triangle that used a deleted vertex");
	for (auto& a : after)
		sym_assert(a.p1 < newCount && a.p2 < newCount && a.p3 < newCount, "C09-tri-range: triangle index beyond the new vertex count");
}
template<class E> static void check_survivors(const std::vector<E>& before, const std::vector<E>& after, const std::vector<uint16_t>& idx, const char* id, size_t cmp = sizeof(E)) {
	size_t o = 0;
	for (size_t i = 0; i < before.size(); i++) {
		if (deleted(idx, (unsigned) i))
			continue;
		sym_assert(o < after.size(), id);
		if (o < after.size())
			sym_assert(memcmp(&after[o], &before[i], cmp) == 0, id);
		o++;
	}
	sym_assert(o == after.size(), id);
}

// ---- NiGeometryData family: kind 0 NiTriShapeData, 1 NiLinesData, 2 NiScreenElementsData
template<class D> static void geomdata(int n, int t, int k, bool tri) {
	D d;
	d.numVertices = n;
	d.vertices.resize(n);
	d.normals.resize(n);
	d.tangents.resize(n);
	d.bitangents.resize(n);
	d.vertexColors.resize(n);
	d.uvSets.resize(1);
	d.uvSets[0].resize(n);
	if (n) {
		sym_bytes(d.vertices.data(), n * sizeof(Vector3), "pos");
		sym_bytes(d.normals.data(), n * sizeof(Vector3), "nrm");
		sym_bytes(d.tangents.data(), n * sizeof(Vector3), "tan");
		sym_bytes(d.bitangents.data(), n * sizeof(Vector3), "bit");
		sym_bytes(d.vertexColors.data(), n * sizeof(Color4), "col");
		sym_bytes(d.uvSets[0].data(), n * sizeof(Vector2), "uv");
	}
	auto v0 = d.vertices;
	auto n0 = d.normals;
	auto t0 = d.tangents;
	auto b0 = d.bitangents;
	auto c0 = d.vertexColors;
	auto u0 = d.uvSets[0];
	std::vector<Triangle> tris(t);
	sym_tris(tris, n);
	if constexpr (std::is_base_of<NiTriShapeData, D>::value) {
		d.triangles = tris;
		d.numTriangles = t;
		d.numTrianglePoints = 3 * t;
	}
	auto idx = del_list(k, n);
	d.notifyVerticesDelete(idx);
	unsigned nn = n - k;
	sym_assert(d.GetNumVertices() == nn && d.vertices.size() == nn, "C09-count: vertex counter and array disagree after deletion");
	check_survivors(v0, d.vertices, idx, "C09-pos: surviving positions not preserved in order");
	check_survivors(n0, d.normals, idx, "C09-attr: surviving normals not preserved in order");
	check_survivors(t0, d.tangents, idx, "C09-attr: surviving tangents not preserved in order");
	check_survivors(b0, d.bitangents, idx, "C09-attr: surviving bitangents not preserved in order");
	check_survivors(c0, d.vertexColors, idx, "C09-attr: surviving colours not preserved in order");
	check_survivors(u0, d.uvSets[0], idx, "C09-attr: surviving UVs not preserved in order");
	if constexpr (std::is_base_of<NiTriShapeData, D>::value) {
		check_tris(tris, d.triangles, idx, nn);
		sym_assert(d.numTriangles == d.triangles.size() && d.numTrianglePoints == 3 * d.triangles.size(), "C09-tricount: triangle counters disagree with the list");
	}
	sym_reach("end");
}
extern "C" void h_geomdata(int kind, int n, int t, int k) {
	if (kind == 0)
		geomdata<NiTriShapeData>(n, t, k, true);
	else if (kind == 1)
		geomdata<NiLinesData>(n, 0, k, false);
	else
		geomdata<NiScreenElementsData>(n, t, k, true);
}

// NiLinesData line flags
extern "C" void h_lines(int n, int k) {
	NiLinesData d;
	d.numVertices = n;
	d.vertices.resize(n);
	d.lineFlags.resize(n);
	for (int i = 0; i < n; i++)
		d.lineFlags[i] = (sym_u8("lf") & 1) != 0;
	auto l0 = d.lineFlags;
	auto idx = del_list(k, n);
	d.notifyVerticesDelete(idx);
	sym_assert(d.lineFlags.size() == d.vertices.size(), "C09-count: line flags and vertices disagree");
	size_t o = 0;
	for (int i = 0; i < n; i++) {
		if (deleted(idx, i))
			continue;
		sym_assert(o < d.lineFlags.size() && d.lineFlags[o] == l0[i], "C09-attr: surviving line flags not preserved in order");
		o++;
	}
	sym_reach("end");
}

// ---- NiTriStripsData: every remaining strip point refers to an existing vertex, strip lengths agree
extern "C" void h_tristrips(int n, int len, int k) {
	NiTriStripsData d;
	d.numVertices = n;
	d.vertices.resize(n);
	if (n)
		sym_bytes(d.vertices.data(), n * sizeof(Vector3), "pos");
	auto v0 = d.vertices;
	d.stripsInfo.hasPoints = true;
	d.stripsInfo.stripLengths.resize(1);
	d.stripsInfo.stripLengths[0] = (uint16_t) len;
	d.stripsInfo.points.resize(1);
	d.stripsInfo.points[0].resize(len);
	for (auto& p : d.stripsInfo.points[0]) {
		p = sym_u16("s");
		sym_assume(p < n);
	}
	auto pts0 = d.stripsInfo.points[0];
	auto idx = del_list(k, n);
	d.notifyVerticesDelete(idx);
	unsigned nn = n - k;
	sym_assert(d.GetNumVertices() == nn && d.vertices.size() == nn, "C09-count: vertex counter and array disagree after deletion");
	check_survivors(v0, d.vertices, idx, "C09-pos: surviving positions not preserved in order");
	auto& pts = d.stripsInfo.points[0];
	sym_assert(d.stripsInfo.stripLengths[0] == pts.size(), "C09-strip-len: strip length counter disagrees with points");
	size_t o = 0;
	for (auto p : pts0) {
		if (deleted(idx, p))
			continue;
		sym_assert(o < pts.size(), "C09-strip-missing: surviving strip point missing");
		if (o < pts.size())
			sym_assert(pts[o] == newIndex(idx, p), "C09-strip-reindex: strip point not re-indexed");
		o++;
	}
	sym_assert(o == pts.size(), "C09-strip-count: strip keeps a deleted point");
	for (auto p : pts)
		sym_assert(p < nn, "C09-strip-range: strip point beyond the new vertex count");
	sym_reach("end");
}

// ---- BSTriShape family
template<class S> static void fill_bstri(S& s, int n, int t, std::vector<Triangle>& tb) {
	s.vertData.resize(n);
	s.numVertices = n;
	for (int i = 0; i < n; i++)
		sym_bytes(&s.vertData[i], (offsetof(BSVertexData, eyeData) + sizeof(float)), "vd");
	s.triangles.resize(t);
	s.numTriangles = t;
	sym_tris(s.triangles, n);
	tb = s.triangles;
}
template<class S> static void check_bstri(S& s, int n, int k, const std::vector<BSVertexData>& before, const std::vector<Triangle>& tb, const std::vector<uint16_t>& idx) {
	unsigned nn = n - k;
	sym_assert(s.GetNumVertices() == nn && s.vertData.size() == nn, "C09-count: vertex counter and array disagree after deletion");
	check_survivors(before, s.vertData, idx, "C09-attr: surviving vertex records not preserved bit-for-bit in order", (offsetof(BSVertexData, eyeData) + sizeof(float)));
	check_tris(tb, s.triangles, idx, nn);
	sym_assert(s.GetNumTriangles() == s.triangles.size(), "C09-tricount: triangle counter disagrees with the list");
}
extern "C" void h_bstri(int kind, int n, int t, int k) {
	std::vector<Triangle> tb;
	if (kind == 0) {
		BSTriShape s;
		fill_bstri(s, n, t, tb);
		auto before = s.vertData;
		auto idx = del_list(k, n);
		s.notifyVerticesDelete(idx);
		check_bstri(s, n, k, before, tb, idx);
	}
	else if (kind == 1) {
		BSDynamicTriShape s;
		fill_bstri(s, n, t, tb);
		s.dynamicData.resize(n);
		if (n)
			sym_bytes(s.dynamicData.data(), n * sizeof(Vector4), "dyn");
		s.dynamicDataSize = n * 16;
		auto d0 = s.dynamicData;
		auto before = s.vertData;
		auto idx = del_list(k, n);
		s.notifyVerticesDelete(idx);
		check_bstri(s, n, k, before, tb, idx);
		check_survivors(d0, s.dynamicData, idx, "C09-attr: surviving dynamic vertices not preserved in order");
		sym_assert(s.dynamicData.size() == s.vertData.size(), "C09-count: dynamic data and vertex data disagree");
	}
	else {
		BSMeshLODTriShape s;
		fill_bstri(s, n, t, tb);
		s.lodSize0 = t;
		auto before = s.vertData;
		auto idx = del_list(k, n);
		s.notifyVerticesDelete(idx);
		check_bstri(s, n, k, before, tb, idx);
		sym_assert(s.lodSize0 + s.lodSize1 + s.lodSize2 == s.GetNumTriangles(), "C09-lod: LOD sizes do not sum to the triangle count");
	}
	sym_reach("end");
}

// BSSubIndexTriShape: FO4 segmentation (2 segments, first with 2 sub-segments) / SSE segments
extern "C" void h_bssits(int fo4, int n, int t, int k, int second) {
	BSSubIndexTriShape s;
	std::vector<Triangle> tb;
	fill_bstri(s, n, t, tb);
	// split points a <= b <= t chosen symbolically
	uint32_t a = sym_u32("splitA"), b = sym_u32("splitB");
	sym_assume(a <= b && b <= (uint32_t) t);
	if (fo4) {
		auto& sg = s.segmentation;
		sg.numPrimitives = t;
		sg.numSegments = 2;
		sg.segments.resize(2);
		sg.segments[0].startIndex = 0;
		sg.segments[0].numPrimitives = b;
		sg.segments[0].numSubSegments = 2;
		sg.segments[0].subSegments.resize(2);
		sg.segments[0].subSegments[0].startIndex = 0;
		sg.segments[0].subSegments[0].numPrimitives = a;
		sg.segments[0].subSegments[1].startIndex = a * 3;
		sg.segments[0].subSegments[1].numPrimitives = b - a;
		sg.segments[1].startIndex = b * 3;
		sg.segments[1].numPrimitives = t - b;
	}
	else {
		s.numSegments = 3;
		s.segments.resize(3);
		s.segments[0].index = 0;
		s.segments[0].numTris = a;
		s.segments[1].index = a * 3;
		s.segments[1].numTris = b - a;
		s.segments[2].index = b * 3;
		s.segments[2].numTris = t - b;
	}
	// region of every triangle: 0 = [0,a), 1 = [a,b), 2 = [b,t); a second round deletes one more vertex from the result
	std::vector<int> reg(t);
	for (int i = 0; i < t; i++)
		reg[i] = ((uint32_t) i < a) ? 0 : ((uint32_t) i < b) ? 1 : 2;
	int ncur = n;
	for (int round = 0; round < (second ? 2 : 1); round++) {
		int kk = round == 0 ? k : 1;
		if (ncur < kk)
			break;
		auto before = s.vertData;
		std::vector<Triangle> tcur = s.triangles;
		auto idx = del_list(kk, ncur);
		s.notifyVerticesDelete(idx);
		check_bstri(s, ncur, kk, before, tcur, idx);
		// expected remaining triangles per range
		unsigned ra = 0, rb = 0, rc = 0;
		std::vector<int> reg2;
		for (size_t i = 0; i < tcur.size(); i++) {
			bool gone = deleted(idx, tcur[i].p1) | deleted(idx, tcur[i].p2) | deleted(idx, tcur[i].p3);
			unsigned keep = gone ? 0 : 1;
			ra += (reg[i] == 0) ? keep : 0;
			rb += (reg[i] == 1) ? keep : 0;
			rc += (reg[i] == 2) ? keep : 0;
			if (!gone)
				reg2.push_back(reg[i]);
		}
		if (fo4) {
			auto& sg = s.segmentation;
			sym_assert(sg.numPrimitives == s.GetNumTriangles(), "C09-seg-total: segmentation total differs from triangle count");
			sym_assert(sg.segments[0].numPrimitives == ra + rb && sg.segments[1].numPrimitives == rc, "C09-seg-count: segment triangle counts wrong after deletion");
			sym_assert(sg.segments[0].startIndex == 0 && sg.segments[1].startIndex == 3 * (ra + rb), "C09-seg-start: segment ranges not contiguous after deletion");
			sym_assert(sg.segments[0].subSegments[0].numPrimitives == ra && sg.segments[0].subSegments[1].numPrimitives == rb, "C09-subseg-count: sub-segment triangle counts wrong after deletion");
			sym_assert(sg.segments[0].subSegments[0].startIndex == 0 && sg.segments[0].subSegments[1].startIndex == 3 * ra, "C09-subseg-start: sub-segment ranges not contiguous after deletion");
		}
		else {
			sym_assert(s.segments[0].numTris == ra && s.segments[1].numTris == rb && s.segments[2].numTris == rc, "C09-sseg-count: SSE segment triangle counts wrong after deletion");
		}
		reg = reg2;
		ncur -= kk;
	}
	sym_reach("end");
}

// ---- NiSkinData: weights refer to vertices
extern "C" void h_skindata(int n, int nb, int w, int k) {
	NiSkinData d;
	d.numBones = nb;
	d.bones.resize(nb);
	for (auto& b : d.bones) {
		b.numVertices = w;
		b.vertexWeights.resize(w);
		for (int i = 0; i < w; i++) {
			b.vertexWeights[i].index = sym_u16("wi");
			sym_assume(b.vertexWeights[i].index < n);
			sym_bytes(&b.vertexWeights[i].weight, 4, "ww");
		}
	}
	auto before = d.bones;
	auto idx = del_list(k, n);
	d.notifyVerticesDelete(idx);
	for (int b = 0; b < nb; b++) {
		size_t o = 0;
		for (int i = 0; i < w; i++) {
			if (deleted(idx, before[b].vertexWeights[i].index))
				continue;
			sym_assert(o < d.bones[b].vertexWeights.size(), "C09-skin-missing: weight of a surviving vertex disappeared");
			if (o < d.bones[b].vertexWeights.size()) {
				sym_assert(d.bones[b].vertexWeights[o].index == newIndex(idx, before[b].vertexWeights[i].index), "C09-skin-reindex: skin weight not re-indexed");
				sym_assert(memcmp(&d.bones[b].vertexWeights[o].weight, &before[b].vertexWeights[i].weight, 4) == 0, "C09-skin-value: skin weight value changed");
			}
			o++;
		}
		sym_assert(o == d.bones[b].vertexWeights.size() && d.bones[b].numVertices == o, "C09-skin-count: weight counter/list wrong after deletion");
		for (auto& vw : d.bones[b].vertexWeights)
			sym_assert(vw.index < n - k, "C09-skin-range: skin weight refers to a vertex beyond the new count");
	}
	sym_reach("end");
}

// ---- NiSkinPartition, one partition; mapped or true indices; triangles or one strip
extern "C" void h_skinpart(int n, int m, int t, int k, int mapped, int strips) {
	NiSkinPartition sp;
	sp.numPartitions = 1;
	sp.partitions.resize(1);
	sp.bMappedIndices = mapped;
	auto& p = sp.partitions[0];
	p.hasVertexMap = true;
	p.numVertices = m;
	p.vertexMap.resize(m);
	for (int i = 0; i < m; i++) {
		p.vertexMap[i] = sym_u16("vm");
		sym_assume(p.vertexMap[i] < n);
		if (i > 0)
			sym_assume(p.vertexMap[i - 1] < p.vertexMap[i]);
	}
	p.hasVertexWeights = true;
	p.vertexWeights.resize(m);
	if (m)
		sym_bytes(p.vertexWeights.data(), m * sizeof(VertexWeight), "vw");
	p.hasBoneIndices = true;
	p.boneIndices.resize(m);
	if (m)
		sym_bytes(p.boneIndices.data(), m * 4, "bi");
	p.hasFaces = true;
	int lim = mapped ? m : n;
	std::vector<Triangle> tr0;
	if (strips) {
		p.numStrips = 1;
		p.stripLengths = {(uint16_t) (t + 2)};
		p.strips.resize(1);
		p.strips[0].resize(t + 2);
		for (auto& q : p.strips[0]) {
			q = sym_u16("sp");
			sym_assume(q < lim);
		}
		p.numTriangles = t;
		tr0 = GenerateTrianglesFromStrips(p.strips);
	}
	else {
		p.numTriangles = t;
		p.triangles.resize(t);
		for (auto& tr : p.triangles) {
			tr.p1 = sym_u16("p");
			tr.p2 = sym_u16("p");
			tr.p3 = sym_u16("p");
			sym_assume(tr.p1 < lim && tr.p2 < lim && tr.p3 < lim);
		}
		tr0 = p.triangles;
	}
	auto vm0 = p.vertexMap;
	auto vw0 = p.vertexWeights;
	auto bi0 = p.boneIndices;
	auto idx = del_list(k, n);
	sp.notifyVerticesDelete(idx);
	auto& q = sp.partitions[0];
	sym_assert(q.numVertices == q.vertexMap.size(), "C09-part-count: partition vertex counter disagrees with its vertex map");
	sym_assert(q.vertexWeights.size() == q.vertexMap.size() && q.boneIndices.size() == q.vertexMap.size(), "C09-part-arrays: partition per-vertex arrays not aligned");
	size_t o = 0;
	for (int i = 0; i < m; i++) {
		if (deleted(idx, vm0[i]))
			continue;
		sym_assert(o < q.vertexMap.size(), "C09-part-missing: surviving vertex missing from partition vertex map");
		if (o < q.vertexMap.size()) {
			sym_assert(q.vertexMap[o] == newIndex(idx, vm0[i]), "C09-part-reindex: partition vertex map not re-indexed");
			sym_assert(memcmp(&q.vertexWeights[o], &vw0[i], sizeof(VertexWeight)) == 0, "C09-part-weights: partition weights do not follow their vertex");
			sym_assert(memcmp(&q.boneIndices[o], &bi0[i], 4) == 0, "C09-part-bones: partition bone indices do not follow their vertex");
		}
		o++;
	}
	sym_assert(o == q.vertexMap.size(), "C09-part-extra: partition vertex map keeps a deleted vertex");
	sym_assert(q.numTriangles == q.triangles.size(), "C09-part-tricount: partition triangle counter wrong");
	unsigned nn = n - k;
	size_t limAfter = mapped ? q.vertexMap.size() : (size_t) nn;
	for (auto& tr : q.triangles)
		sym_assert(tr.p1 < limAfter && tr.p2 < limAfter && tr.p3 < limAfter, "C09-part-range: partition triangle index out of range after deletion");
	// surviving triangles, in order, designate the same true vertices
	size_t ot = 0;
	for (auto& b : tr0) {
		unsigned t1 = mapped ? vm0[b.p1] : b.p1, t2 = mapped ? vm0[b.p2] : b.p2, t3 = mapped ? vm0[b.p3] : b.p3;
		bool gone = deleted(idx, t1) | deleted(idx, t2) | deleted(idx, t3);
		if (gone)
			continue;
		sym_assert(ot < q.triangles.size(), "C09-part-trimissing: partition lost a triangle without deleted corner");
		if (ot < q.triangles.size()) {
			auto& a = q.triangles[ot];
			unsigned a1 = mapped ? q.vertexMap[a.p1] : a.p1, a2 = mapped ? q.vertexMap[a.p2] : a.p2, a3 = mapped ? q.vertexMap[a.p3] : a.p3;
			sym_assert(a1 == newIndex(idx, t1) && a2 == newIndex(idx, t2) && a3 == newIndex(idx, t3), "C09-part-trireindex: partition triangle designates other vertices after deletion");
		}
		ot++;
	}
	sym_assert(ot == q.triangles.size(), "C09-part-triextra: partition keeps a triangle with a deleted corner");
	sym_reach("end");
}
