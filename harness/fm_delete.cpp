// C09 at file level: NifFile::DeleteVertsForShape on API-built shapes (skinned / unskinned, with a LOCKEDNORM list),
// a second deletion, then Save+Load.
#include "fmodel.h"

static bool del_has(const std::vector<uint16_t>& idx, unsigned v) {
	bool d = false;
	for (auto x : idx)
		d |= (x == v);
	return d;
}
static unsigned new_index(const std::vector<uint16_t>& idx, unsigned v) {
	unsigned c = 0;
	for (auto x : idx)
		c += (x < v) ? 1 : 0;
	return v - c;
}
static void check_shape(NifFile& nif, NiShape* s, const std::vector<Vector3>& v0, const std::vector<Vector2>& u0, const std::vector<Triangle>& t0, const std::vector<uint16_t>& idx) {
	std::vector<Vector3> v1;
	nif.GetVertsForShape(s, v1);
	auto up = nif.GetUvsForShape(s);
	std::vector<Triangle> t1;
	s->GetTriangles(t1);
	size_t nn = v0.size() - idx.size();
	sym_assert(v1.size() == nn && s->GetNumVertices() == nn, "C09-file-count: vertex count after DeleteVertsForShape");
	sym_assert(up && up->size() == nn, "C09-file-uvcount: UV count after DeleteVertsForShape");
	size_t o = 0;
	for (size_t i = 0; i < v0.size(); i++) {
		if (del_has(idx, (unsigned) i))
			continue;
		if (o < v1.size())
			sym_assert(memcmp(&v1[o], &v0[i], 12) == 0, "C09-file-pos: surviving vertex moved or changed");
		if (up && o < up->size())
			sym_assert(memcmp(&(*up)[o], &u0[i], 8) == 0, "C09-file-uv: surviving UV moved or changed");
		o++;
	}
	size_t ot = 0;
	for (auto& b : t0) {
		if (del_has(idx, b.p1) | del_has(idx, b.p2) | del_has(idx, b.p3))
			continue;
		sym_assert(ot < t1.size(), "C09-file-trimissing: a triangle without deleted corner disappeared");
		if (ot < t1.size())
			sym_assert(t1[ot].p1 == new_index(idx, b.p1) && t1[ot].p2 == new_index(idx, b.p2) && t1[ot].p3 == new_index(idx, b.p3), "C09-file-trireindex: surviving triangle not re-indexed in order");
		ot++;
	}
	sym_assert(ot == t1.size(), "C09-file-tricount: triangle list keeps a triangle with a deleted corner");
	// skin data / partitions refer to existing vertices only
	auto skinInst = nif.GetHeader().GetBlock<NiSkinInstance>(s->SkinInstanceRef());
	if (skinInst) {
		if (auto sd = nif.GetHeader().GetBlock(skinInst->dataRef))
			for (auto& b : sd->bones) {
				sym_assert(b.numVertices == b.vertexWeights.size(), "C09-file-skincount: skin weight counter wrong after deletion");
				for (auto& w : b.vertexWeights)
					sym_assert(w.index < nn, "C09-file-skinrange: skin weight refers to a vertex beyond the new count");
			}
		if (auto sp = nif.GetHeader().GetBlock(skinInst->skinPartitionRef)) {
			size_t total = 0;
			for (auto& p : sp->partitions) {
				sym_assert(p.numVertices == p.vertexMap.size() && p.numTriangles == p.triangles.size(), "C09-file-partcount: partition counters wrong after deletion");
				for (auto vm : p.vertexMap)
					sym_assert(vm < nn, "C09-file-partrange: partition vertex map refers to a vertex beyond the new count");
				size_t lim = sp->bMappedIndices ? p.vertexMap.size() : nn;
				for (auto& t : p.triangles)
					sym_assert(t.p1 < lim && t.p2 < lim && t.p3 < lim, "C09-file-parttri: partition triangle index out of range after deletion");
				total += p.triangles.size();
			}
			if (!sp->partitions.empty())
				sym_assert(total == t1.size(), "C09-file-partcover: partitions do not hold the remaining triangles");
		}
	}
}

extern "C" void h_delverts(int ver, int feat, int k, int second) {
	NifFile built;
	FmModel m = fm_build(built, ver, feat);
	if (feat & FM_EXTRA) {
		// locked-normals list on the shape
		auto ln = std::make_unique<NiIntegersExtraData>();
		ln->name.get() = "LOCKEDNORM";
		ln->integersData.resize(3);
		ln->integersData[0] = 0;
		ln->integersData[1] = 2;
		ln->integersData[2] = 3;
		built.AssignExtraData(m.shape, std::move(ln));
	}
	FmRange s0 = fm_save(built, true);
	NifFile nif;
	int rc = fm_load(nif, s0);
	sym_assert(rc == 0, "C09-file-setup: model does not load");
	sym_reach("loaded");
	NiShape* s = nif.FindBlockByName<NiShape>("Shape");
	std::vector<Vector3> v0;
	nif.GetVertsForShape(s, v0);
	std::vector<Vector2> u0 = *nif.GetUvsForShape(s);
	std::vector<Triangle> t0;
	s->GetTriangles(t0);
	const int n = (int) v0.size();
	std::vector<uint16_t> idx(k);
	for (int i = 0; i < k; i++) {
		idx[i] = sym_u16("del");
		sym_assume(idx[i] < n);
		if (i > 0)
			sym_assume(idx[i - 1] < idx[i]);
	}
	nif.DeleteVertsForShape(s, idx);
	check_shape(nif, s, v0, u0, t0, idx);
	// LOCKEDNORM: entries of deleted vertices are gone, the others are re-indexed in order
	for (auto& er : s->extraDataRefs) {
		auto ied = nif.GetHeader().GetBlock<NiIntegersExtraData>(er);
		if (ied && ied->name == "LOCKEDNORM") {
			const unsigned orig[3] = {0, 2, 3};
			size_t o = 0;
			for (unsigned e : orig) {
				if (del_has(idx, e))
					continue;
				sym_assert(o < ied->integersData.size(), "C09-file-lockednorm-missing: locked-normal entry of a surviving vertex disappeared");
				if (o < ied->integersData.size())
					sym_assert(ied->integersData[o] == new_index(idx, e), "C09-file-lockednorm-reindex: locked-normal entry of a surviving vertex not re-indexed");
				o++;
			}
			sym_assert(o == ied->integersData.size(), "C09-file-lockednorm-count: locked-normal list keeps an entry of a deleted vertex");
			for (uint32_t i = 0; i < ied->integersData.size(); i++)
				sym_assert(ied->integersData[i] < (uint32_t) (n - k), "C09-file-lockednorm: locked-normal list refers to a vertex beyond the new count");
		}
	}
	if (second && n - k >= 2) {
		std::vector<Vector3> v1;
		nif.GetVertsForShape(s, v1);
		std::vector<Vector2> u1 = *nif.GetUvsForShape(s);
		std::vector<Triangle> t1;
		s->GetTriangles(t1);
		std::vector<uint16_t> idx2 = {(uint16_t) sym_u16("del2")};
		sym_assume(idx2[0] < n - k);
		nif.DeleteVertsForShape(s, idx2);
		check_shape(nif, s, v1, u1, t1, idx2);
	}
	// the result saves and reloads to the same geometry
	std::vector<Vector3> va;
	nif.GetVertsForShape(s, va);
	std::vector<Triangle> ta;
	s->GetTriangles(ta);
	FmRange f = fm_save(nif, true);
	NifFile re;
	int rc2 = fm_load(re, f);
	sym_assert(rc2 == 0, "C09-file-reload: model does not reload after vertex deletion");
	NiShape* rs = re.FindBlockByName<NiShape>("Shape");
	sym_assert(rs != nullptr || va.empty(), "C09-file-reload-shape: shape missing after reload");
	if (rs) {
		std::vector<Vector3> vb;
		re.GetVertsForShape(rs, vb);
		std::vector<Triangle> tb;
		rs->GetTriangles(tb);
		sym_assert(vb.size() == va.size(), "C09-file-reload-count: vertex count differs after reload");
		bool halfPos = false;
		if (auto bs = dynamic_cast<BSTriShape*>(rs))
			halfPos = !bs->IsFullPrecision() && re.GetHeader().GetVersion().Stream() != 100;
		if (!halfPos)
			for (size_t i = 0; i < va.size() && i < vb.size(); i++)
				sym_assert(memcmp(&va[i], &vb[i], 12) == 0, "C09-file-reload-pos: vertex differs after reload");
		sym_assert(tb.size() == ta.size() && (ta.empty() || memcmp(ta.data(), tb.data(), ta.size() * 6) == 0), "C09-file-reload-tris: triangles differ after reload");
	}
	sym_reach("end");
}
