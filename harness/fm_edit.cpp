// F-model harnesses for block-graph edits (C06), unknown blocks (C03), copying (C11) and shape cloning (C14).
#include "fmodel.h"
// C06 assertions can be switched off so that a run goes on to the C07 table walker at the end of h_c06
static bool g_c06_asserts = true;
#define C06_ASSERT(c, msg) do { if (g_c06_asserts) sym_assert(c, msg); } while (0)
#include "fm_walk.h"

struct Rec {
	NiRef* ref;
	NiObject* target;
	NiObject* owner;
	bool isPtr;
};
struct Snap {
	std::vector<NiObject*> objs;
	std::vector<std::string> names;
	std::vector<Rec> recs;
};
static void snapshot(NifFile& nif, Snap& s) {
	NiHeader& hdr = nif.GetHeader();
	s.objs.clear();
	s.recs.clear();
	s.names.clear();
	for (uint32_t i = 0; i < hdr.GetNumBlocks(); i++) {
		s.objs.push_back(hdr.GetBlock<NiObject>(i));
		s.names.push_back(s.objs.back()->GetBlockName());
	}
	for (auto& fr : fm_all_refs(nif))
		s.recs.push_back({fr.ref, hdr.GetBlock<NiObject>(fr.ref->index), fr.owner, fr.isPtr});
}
static int index_of(NiHeader& hdr, NiObject* o) {
	int found = -1, cnt = 0;
	for (uint32_t j = 0; j < hdr.GetNumBlocks(); j++)
		if (hdr.GetBlock<NiObject>(j) == o) {
			found = (int) j;
			cnt++;
		}
	return cnt == 1 ? found : (cnt == 0 ? -1 : -2);
}

// generic post-condition of one edit: D = blocks that disappeared
static void check_edit(NifFile& nif, const Snap& s, NiObject* replacedOld, NiObject* replacedNew) {
	NiHeader& hdr = nif.GetHeader();
	uint32_t n = hdr.GetNumBlocks();
	C06_ASSERT(n == hdr.blocks->size() && hdr.blockTypeIndices.size() == n, "C06-count: header block count / type-index table disagree with the block list");
	if (hdr.GetVersion().File() >= V20_2_0_5)
		C06_ASSERT(hdr.blockSizes.size() == n, "C06-sizes: block size table length differs from the block count");
	for (uint32_t i = 0; i < n; i++) {
		NiObject* b = hdr.GetBlock<NiObject>(i);
		C06_ASSERT(b != nullptr, "C06-null: empty slot in the block list");
		for (uint32_t j = i + 1; j < n; j++)
			C06_ASSERT(hdr.GetBlock<NiObject>(j) != b, "C06-duplicate: two slots hold the same block");
		if (b)
			C06_ASSERT(hdr.GetBlockTypeStringById(i) == b->GetBlockName(), "C06-typename: header type name differs from the block in that slot");
	}
	C06_ASSERT(hdr.numBlockTypes == hdr.blockTypes.size(), "C06-typecount: type counter differs from the type table");
	for (size_t t = 0; t < hdr.blockTypes.size(); t++) {
		bool used = false;
		for (auto ti : hdr.blockTypeIndices)
			used |= (ti == t);
		C06_ASSERT(used, "C06-unused-type: type table keeps a name no block uses");
		for (size_t u = t + 1; u < hdr.blockTypes.size(); u++)
			C06_ASSERT(hdr.blockTypes[t].get() != hdr.blockTypes[u].get(), "C06-dup-type: type table lists a name twice");
	}
	for (auto& rc : s.recs) {
		if (rc.owner == replacedOld || index_of(hdr, rc.owner) < 0)
			continue; // owner gone: its fields no longer exist
		NiObject* now = hdr.GetBlock<NiObject>(rc.ref->index);
		NiObject* expect = rc.target == replacedOld && replacedOld ? replacedNew : rc.target;
		if (expect && index_of(hdr, expect) < 0)
			C06_ASSERT(rc.ref->IsEmpty(), "C06-stale: reference to a deleted block is not empty");
		else
			C06_ASSERT(now == expect, "C06-rewired: a reference designates a different block after the edit");
	}
}

static NiObject* fresh_block(int kind) {
	if (kind == 0)
		return new NiNode();
	auto sd = new NiStringExtraData();
	sd->name.get() = "Added";
	sd->stringData.get() = "x";
	return sd;
}

// K symbolic operations on a small graph (or on an empty model when feat < 0)
// firstOp >= 0 pins the first operation (used to split the exploration over parallel jobs)
// tablesOnly: C06's own assertions are off; only the C07 header-table walker at the end judges the result
extern "C" void h_c06(int ver, int feat, int nops, int firstOp, int tablesOnly) {
	g_c06_asserts = !tablesOnly;
	NifFile nif;
	if (feat >= 0)
		fm_build(nif, ver, feat);
	else
		nif.Create(fm_version(ver));
	NiHeader& hdr = nif.GetHeader();
	Snap s;
	static const char* TYPES[] = {"NiNode", "NiStringExtraData", "BSShaderTextureSet", "NiSkinData", "NoSuchType"};
	for (int k = 0; k < nops; k++) {
		snapshot(nif, s);
		uint32_t n = hdr.GetNumBlocks();
		uint32_t op = sym_u32("op");
		sym_assume(op < 6);
		if (k == 0 && firstOp >= 0)
			sym_assume(op == (uint32_t) firstOp);
		if (op == 0) {
			uint32_t kind = sym_u32("kind");
			sym_assume(kind < 2);
			NiObject* nb = fresh_block(kind);
			uint32_t id = hdr.AddBlock(std::unique_ptr<NiObject>(nb));
			C06_ASSERT(id == n && hdr.GetBlock<NiObject>(id) == nb, "C06-add: AddBlock does not append the new block");
			check_edit(nif, s, nullptr, nullptr);
		}
		else if (op == 1) {
			uint32_t i = sym_u32("idx");
			sym_assume(i < n || i == NIF_NPOS);
			NiObject* victim = i < n ? s.objs[i] : nullptr;
			hdr.DeleteBlock(i);
			C06_ASSERT(hdr.GetNumBlocks() == (victim ? n - 1 : n), "C06-delete-count: block count after DeleteBlock");
			if (victim)
				C06_ASSERT(index_of(hdr, victim) == -1, "C06-delete: deleted block still present");
			for (size_t j = 0; j < s.objs.size(); j++)
				if (s.objs[j] != victim)
					C06_ASSERT(index_of(hdr, s.objs[j]) >= 0, "C06-delete-other: DeleteBlock removed another block");
			check_edit(nif, s, nullptr, nullptr);
		}
		else if (op == 2) {
			uint32_t i = sym_u32("idx");
			sym_assume(i < n);
			uint32_t kind = sym_u32("kind");
			sym_assume(kind < 2);
			NiObject* nb = fresh_block(kind);
			NiObject* old = s.objs[i];
			uint32_t id = hdr.ReplaceBlock(i, std::unique_ptr<NiObject>(nb));
			C06_ASSERT(id == i && hdr.GetBlock<NiObject>(i) == nb && hdr.GetNumBlocks() == n, "C06-replace: ReplaceBlock does not put the new block into the old slot");
			check_edit(nif, s, old, nb);
		}
		else if (op == 3) {
			uint32_t a = sym_u32("a"), b = sym_u32("b");
			sym_assume(a < n && b < n);
			std::vector<uint32_t> order(n);
			for (uint32_t i = 0; i < n; i++)
				order[i] = i;
			order[a] = b;
			order[b] = a;
			hdr.SetBlockOrder(order);
			C06_ASSERT(hdr.GetNumBlocks() == n, "C06-order-count: SetBlockOrder changed the block count");
			for (uint32_t i = 0; i < n; i++)
				C06_ASSERT(hdr.GetBlock<NiObject>(order[i]) == s.objs[i], "C06-order: block i is not at position order[i] after SetBlockOrder");
			check_edit(nif, s, nullptr, nullptr);
		}
		else if (op == 4) {
			uint32_t t = sym_u32("type");
			sym_assume(t < 5);
			uint32_t orphaned = sym_u32("orphaned");
			sym_assume(orphaned < 2);
			std::string tn = TYPES[t];
			hdr.DeleteBlockByType(tn, orphaned != 0);
			for (size_t j = 0; j < s.objs.size(); j++) {
				bool gone = index_of(hdr, s.objs[j]) < 0;
				if (s.names[j] != tn)
					C06_ASSERT(!gone, "C06-bytype-other: DeleteBlockByType removed a block of another type");
				else if (!orphaned)
					C06_ASSERT(gone, "C06-bytype-all: DeleteBlockByType left a block of that type");
			}
			check_edit(nif, s, nullptr, nullptr);
		}
		else {
			NiNode* root = nif.GetRootNode();
			nif.DeleteUnreferencedBlocks();
			if (root)
				C06_ASSERT(index_of(hdr, root) >= 0, "C06-prune-root: pruning deleted the root");
			for (auto& rc : s.recs)
				if (rc.target && index_of(hdr, rc.target) < 0)
					C06_ASSERT(index_of(hdr, rc.owner) < 0, "C06-prune-referenced: pruning deleted a block that a surviving block references");
			check_edit(nif, s, nullptr, nullptr);
		}
	}
	// the edited model saves and reloads to an equivalent graph
	FmRange f = fm_save(nif, true);
	C06_ASSERT(f.rc == 0, "C06-save: saving the edited model failed");
	check_tables(nif, f, true); // C07: the header tables of the file written after the edits
	NifFile re;
	int rc = fm_load(re, f);
	C06_ASSERT(rc == 0, "C06-reload: the edited model does not reload");
	NiHeader& h2 = re.GetHeader();
	C06_ASSERT(h2.GetNumBlocks() == hdr.GetNumBlocks(), "C06-reload-count: reloaded block count differs");
	for (uint32_t i = 0; i < hdr.GetNumBlocks() && i < h2.GetNumBlocks(); i++)
		C06_ASSERT(std::string(h2.GetBlock<NiObject>(i)->GetBlockName()) == hdr.GetBlock<NiObject>(i)->GetBlockName(), "C06-reload-type: reloaded block has another type");
	auto r1 = fm_all_refs(nif);
	auto r2 = fm_all_refs(re);
	C06_ASSERT(r1.size() == r2.size(), "C06-reload-refs: reloaded graph has a different number of references");
	for (size_t i = 0; i < r1.size() && i < r2.size(); i++)
		C06_ASSERT(r1[i].ref->index == r2[i].ref->index, "C06-reload-ref: a reference designates another block after save+reload");
	sym_reach("end");
}

// ---------------- C03: unknown block types survive untouched ----------------
struct HdrInfo {
	bool ok = false;
	size_t typesAt = 0;
	std::vector<std::pair<size_t, uint32_t>> typePos; // offset of name chars, length
	std::vector<std::string> types;
	std::vector<uint16_t> typeIdx;
	std::vector<uint32_t> sizes;
	std::vector<std::string> strings;
	size_t hdrEnd = 0;
	uint32_t numBlocks = 0;
};
static uint32_t rd32(const std::vector<unsigned char>& b, size_t& p) {
	uint32_t v = b[p] | (b[p + 1] << 8) | (b[p + 2] << 16) | ((uint32_t) b[p + 3] << 24);
	p += 4;
	return v;
}
static HdrInfo parse_2027(const std::vector<unsigned char>& b) {
	HdrInfo h;
	size_t p = 0;
	while (p < b.size() && b[p] != 0x0A)
		p++;
	p++;
	uint32_t file = rd32(b, p);
	p++; // endian
	uint32_t user = rd32(b, p);
	h.numBlocks = rd32(b, p);
	if (file != 0x14020007 || user < 11)
		return h;
	uint32_t stream = rd32(b, p);
	p += 1 + b[p];
	if (stream > 130)
		p += 4;
	p += 1 + b[p];
	p += 1 + b[p];
	if (stream == 130)
		p += 1 + b[p];
	uint16_t nt = (uint16_t) (b[p] | (b[p + 1] << 8));
	p += 2;
	for (int i = 0; i < nt; i++) {
		uint32_t len = rd32(b, p);
		h.typePos.push_back({p, len});
		h.types.push_back(std::string((const char*) &b[p], len));
		p += len;
	}
	for (uint32_t i = 0; i < h.numBlocks; i++) {
		h.typeIdx.push_back((uint16_t) (b[p] | (b[p + 1] << 8)));
		p += 2;
	}
	for (uint32_t i = 0; i < h.numBlocks; i++)
		h.sizes.push_back(rd32(b, p));
	uint32_t ns = rd32(b, p);
	rd32(b, p);
	for (uint32_t i = 0; i < ns; i++) {
		uint32_t len = rd32(b, p);
		h.strings.push_back(std::string((const char*) &b[p], len));
		p += len;
	}
	uint32_t ng = rd32(b, p);
	p += 4 * ng;
	h.hdrEnd = p;
	h.ok = true;
	return h;
}
// mask: bit t set -> type t of the file's type table is re-labelled as unknown
// viaCopy: 1 = the loaded model is copied (copy constructor) and the COPY is saved;
//          2 = it is assigned to a NifFile object that already held another model, and that object is saved
extern "C" void h_c03(int ver, int feat, int mask, int rawSave, int viaCopy) {
	NifFile nif;
	fm_build(nif, ver, feat);
	FmRange f0 = fm_save(nif, true);
	std::vector<unsigned char> bytes(f0.b - f0.a);
	sym_out_read(bytes.data(), f0.a, bytes.size());
	HdrInfo h = parse_2027(bytes);
	if (!h.ok) {
		sym_reach("noheader");
		return;
	}
	if ((mask >> h.types.size()) != 0 || mask == 0) {
		sym_reach("nomask");
		return;
	}
	// re-label: change the first character of the chosen type names (same length, no factory matches)
	for (size_t t = 0; t < h.types.size(); t++)
		if (mask & (1 << t))
			bytes[h.typePos[t].first] = 'X';
	// give every opaque payload symbolic bytes of the recorded size
	size_t off = h.hdrEnd;
	std::vector<std::pair<size_t, size_t>> opaque;
	for (uint32_t i = 0; i < h.numBlocks; i++) {
		if (mask & (1 << h.typeIdx[i])) {
			if (h.sizes[i])
				sym_bytes(&bytes[off], h.sizes[i], "payload");
			opaque.push_back({off, h.sizes[i]});
		}
		off += h.sizes[i];
	}
	unsigned long a = sym_out_len();
	sym_out_write(bytes.data(), a, bytes.size());
	FmRange fin{a, a + bytes.size(), 0};
	NifFile m;
	int rc = fm_load(m, fin);
	sym_assert(rc == 0, "C03-load: file with unknown block types does not load");
	sym_assert(m.HasUnknown(), "C03-flag: unknown blocks not flagged");
	sym_reach("loaded");
	NifFile mcopy(m);
	NifFile reused;
	if (viaCopy == 2) {
		fm_build(reused, ver, 0);
		reused = m;
	}
	if (viaCopy)
		sym_assert((viaCopy == 2 ? reused : mcopy).HasUnknown(), "C03-flag-copy: copy of a model with unknown blocks does not know about them");
	FmRange fo = fm_save(viaCopy == 2 ? reused : viaCopy ? mcopy : m, rawSave != 0);
	std::vector<unsigned char> ob(fo.b - fo.a);
	sym_out_read(ob.data(), fo.a, ob.size());
	HdrInfo g = parse_2027(ob);
	sym_assert(g.ok, "C03-header: output header cannot be walked");
	sym_assert(g.numBlocks == h.numBlocks, "C03-count: a block was added or deleted although unknown blocks are present");
	size_t o2 = g.hdrEnd;
	off = h.hdrEnd;
	for (uint32_t i = 0; i < h.numBlocks && i < g.numBlocks; i++) {
		std::string tIn = h.types[h.typeIdx[i]];
		if (mask & (1 << h.typeIdx[i]))
			tIn[0] = 'X';
		sym_assert(g.typeIdx[i] < g.types.size() && g.types[g.typeIdx[i]] == tIn, "C03-order: block order / type name changed although unknown blocks are present");
		if (mask & (1 << h.typeIdx[i])) {
			sym_assert(g.sizes[i] == h.sizes[i], "C03-size: declared size of an unknown block changed");
			if (g.sizes[i] == h.sizes[i] && h.sizes[i])
				sym_assert(memcmp(&ob[o2], &bytes[off], h.sizes[i]) == 0, "C03-payload: payload of an unknown block changed");
		}
		o2 += g.sizes[i];
		off += h.sizes[i];
	}
	// every string-table index of the input still denotes the same string
	for (size_t i = 0; i < h.strings.size(); i++)
		sym_assert(i < g.strings.size() && g.strings[i] == h.strings[i], "C03-strings: a string-table index of the input denotes another string in the output");
	sym_reach("end");
}

// ---------------- C11: a copied model is equal to and independent of its source ----------------
static std::vector<uint32_t> small_digest(NifFile& nif) {
	std::vector<uint32_t> d;
	d.push_back(nif.GetHeader().GetNumBlocks());
	for (auto s : nif.GetShapes()) {
		std::vector<Vector3> v;
		nif.GetVertsForShape(s, v);
		d.push_back((uint32_t) v.size());
		for (auto& p : v) {
			uint32_t b[3];
			memcpy(b, &p, 12);
			d.push_back(b[0] ^ (b[1] * 3) ^ (b[2] * 7));
		}
		std::vector<Triangle> t;
		s->GetTriangles(t);
		d.push_back((uint32_t) t.size());
		for (char c : s->name.get())
			d.push_back((uint32_t) c);
	}
	return d;
}
// srcKind: 0 = the source is a loaded model (caches linked by Load), 1 = the source is the model as built through the API
extern "C" void h_c11(int ver, int feat, int edit, int order, int srcKind) {
	NifFile* a = new NifFile();
	fm_build(*a, ver, feat);
	FmRange s0 = fm_save(*a, true);
	NifFile* src = new NifFile();
	int rc = 0;
	if (srcKind == 0)
		rc = fm_load(*src, s0);
	else {
		delete src;
		src = new NifFile();
		fm_build(*src, ver, feat);
	}
	sym_assert(rc == 0, "C11-setup: model does not load");
	sym_reach("loaded");
	NifFile* b = new NifFile(*src);
	NifFile* c = new NifFile();
	*c = *src;
	sym_assert(sym_heap_disjoint(src, sizeof(NifFile), b, sizeof(NifFile)), "C11-shared: copy-constructed model shares heap state with its source");
	sym_assert(sym_heap_disjoint(src, sizeof(NifFile), c, sizeof(NifFile)), "C11-shared-assign: copy-assigned model shares heap state with its source");
	sym_assert(sym_heap_disjoint(b, sizeof(NifFile), c, sizeof(NifFile)), "C11-shared-copies: two copies share heap state");
	FmRange fa = fm_save(*src, true);
	FmRange fb = fm_save(*b, true);
	FmRange fc = fm_save(*c, true);
	sym_assert(sym_out_equal(fa.a, fa.b, fb.a, fb.b), "C11-equal: copy saves to different bytes than its source");
	sym_assert(sym_out_equal(fa.a, fa.b, fc.a, fc.b), "C11-equal-assign: assigned copy saves to different bytes than its source");
	auto d0 = small_digest(*src);
	unsigned long snap = sym_snapshot(src, sizeof(NifFile));
	// edit the copy
	auto shapes = b->GetShapes();
	if (!shapes.empty()) {
		NiShape* sh = b->FindBlockByName<NiShape>("Shape");
		if (!sh)
			sh = shapes[0];
		if (edit == 0) {
			std::vector<uint16_t> del = {0};
			b->DeleteVertsForShape(sh, del);
		}
		else if (edit == 1) {
			std::vector<Vector3> v;
			b->GetVertsForShape(sh, v);
			for (auto& p : v)
				p.x += 1.0f;
			b->SetVertsForShape(sh, v);
			sh->name.get() = "Renamed";
		}
		else if (edit == 2) {
			b->DeleteShape(sh);
		}
		else if (edit == 3) {
			b->GetHeader().DeleteBlock(b->GetHeader().GetNumBlocks() - 1);
			b->PrettySortBlocks();
		}
		else {
			// edits made through the shape object itself (uses the shape's cached geometry-data pointer)
			std::vector<Triangle> nt = {Triangle(2, 1, 0)};
			sh->SetTriangles(nt);
			sh->UpdateBounds();
		}
	}
	sym_assert(sym_unchanged(snap), "C11-independent: editing the copy changed memory reachable from the source");
	sym_assert(small_digest(*src) == d0, "C11-independent-queries: editing the copy changed what the source returns");
	// geometry reached through the *source's* shapes still belongs to the source
	FmRange fa2 = fm_save(*src, true);
	sym_assert(sym_out_equal(fa.a, fa.b, fa2.a, fa2.b), "C11-independent-save: editing the copy changed what the source writes");
	// destruction in either order
	if (order == 0) {
		delete src;
		auto d = small_digest(*b);
		(void) d;
		FmRange fb2 = fm_save(*b, true);
		(void) fb2;
		delete b;
		FmRange fc2 = fm_save(*c, true);
		sym_assert(sym_out_equal(fa.a, fa.b, fc2.a, fc2.b), "C11-survive: copy changed after its source was destroyed");
		delete c;
	}
	else {
		delete b;
		delete c;
		FmRange fa3 = fm_save(*src, true);
		sym_assert(sym_out_equal(fa.a, fa.b, fa3.a, fa3.b), "C11-survive-src: source changed after its copies were destroyed");
		delete src;
	}
	delete a;
	sym_reach("end");
}

// ---------------- C14: cloning a shape yields a self-contained copy ----------------
// bytes of one block with every reference index replaced by a type tag of its target (so that blocks of two
// models can be compared although indices differ)
static std::vector<unsigned char> canon_block(NifFile& nif, NiObject* o, std::vector<NiObject*>& targets) {
	NiHeader& hdr = nif.GetHeader();
	std::set<NiRef*> refs, ptrs;
	o->GetChildRefs(refs);
	o->GetPtrs(ptrs);
	std::vector<std::pair<NiRef*, uint32_t>> saved;
	sym_watch_reset();
	SymOStream scratch;
	NiOStream os(&scratch.s(), &hdr);
	sym_out_reset();
	unsigned long a = sym_out_len();
	// replace indices by 0xAAAAAAAA while writing; remember targets in serialisation order
	for (auto r : refs)
		saved.push_back({r, r->index});
	for (auto r : ptrs)
		saved.push_back({r, r->index});
	o->Put(os);
	unsigned long n = sym_watch_count(0);
	targets.clear();
	std::vector<NiRef*> orderRefs;
	for (unsigned long k = 0; k < n; k++) {
		NiRef* r = (NiRef*) sym_watch_get(0, k);
		orderRefs.push_back(r);
		targets.push_back(hdr.GetBlock<NiObject>(r->index));
	}
	sym_out_reset();
	sym_out_truncate(a);
	for (auto r : orderRefs)
		r->index = r->IsEmpty() ? NIF_NPOS : 0x0AAAAAAA;
	// string-table indices differ between models: write a content hash instead of the index
	std::vector<NiStringRef*> strs;
	o->GetStringRefs(strs);
	std::vector<uint32_t> savedIdx;
	for (auto sr : strs) {
		savedIdx.push_back(sr->GetIndex());
		uint32_t hsh = 2166136261u;
		for (unsigned char ch : sr->get())
			hsh = (hsh ^ ch) * 16777619u;
		sr->SetIndex(sr->get().empty() && sr->GetIndex() == NIF_NPOS ? NIF_NPOS : (hsh & 0x00FFFFFF));
	}
	sym_out_reset();
	unsigned long a2 = sym_out_len();
	SymOStream scratch2;
	NiOStream os2(&scratch2.s(), &hdr);
	o->Put(os2);
	sym_out_reset();
	unsigned long b2 = sym_out_len();
	std::vector<unsigned char> bytes(b2 - a2);
	if (b2 > a2)
		sym_out_read(bytes.data(), a2, b2 - a2);
	sym_out_truncate(a2);
	for (size_t i = 0; i < strs.size(); i++)
		strs[i]->SetIndex(savedIdx[i]);
	for (auto& sv : saved)
		sv.first->index = sv.second;
	sym_watch_reset();
	return bytes;
}
static void compare_rec(NifFile& srcNif, NiObject* so, NifFile& dstNif, NiObject* dobj, int depth, bool isShape) {
	if (depth > 6)
		return;
	sym_assert(std::string(so->GetBlockName()) == dobj->GetBlockName(), "C14-type: cloned block has another type than the source block");
	sym_assert(index_of(dstNif.GetHeader(), dobj) >= 0, "C14-foreign: clone references a block that is not in the destination model");
	std::vector<NiObject*> ts, td;
	auto bs = canon_block(srcNif, so, ts);
	auto bd = canon_block(dstNif, dobj, td);
	if (!isShape) // the shape itself differs by its name (string index) and parent pointers
		sym_assert(bs == bd || dynamic_cast<NiNode*>(so), "C14-content: cloned block's content differs from the source block's");
	if (dynamic_cast<NiNode*>(so))
		return; // bones are matched by name, not cloned recursively
	sym_assert(ts.size() == td.size(), "C14-refcount: cloned block serialises a different number of references");
	for (size_t i = 0; i < ts.size() && i < td.size(); i++) {
		if (!ts[i] || dynamic_cast<NiNode*>(ts[i])) {
			continue;
		}
		sym_assert(td[i] != nullptr, "C14-dangling: a reference of the clone is empty although the source's is set");
		if (td[i]) {
			if (&srcNif == &dstNif)
				sym_assert(td[i] != ts[i], "C14-shared: clone references the source's own block instead of a copy");
			compare_rec(srcNif, ts[i], dstNif, td[i], depth + 1, false);
		}
	}
}
extern "C" void h_c14(int ver, int feat, int dest, int twice) {
	NifFile built;
	fm_build(built, ver, feat);
	FmRange s0 = fm_save(built, true);
	NifFile src;
	int rc = fm_load(src, s0);
	sym_assert(rc == 0, "C14-setup: model does not load");
	sym_reach("loaded");
	NifFile other;
	if (dest == 1)
		other.Create(fm_version(ver));
	else if (dest == 2)
		fm_build(other, ver, FM_EXTRA | FM_SHAPE2);
	NifFile& dst = dest == 0 ? src : other;
	NiShape* sshape = src.FindBlockByName<NiShape>("Shape");
	sym_assert(sshape != nullptr, "C14-setup: source shape missing");
	FmRange before = fm_save(src, true);
	unsigned long snap = dest == 0 ? 0 : sym_snapshot(&src, sizeof(NifFile));
	NiShape* clone = dst.CloneShape(sshape, "Clone", dest == 0 ? nullptr : &src);
	sym_assert(clone != nullptr, "C14-null: CloneShape returned no shape");
	if (!clone) {
		return;
	}
	if (twice) {
		NiShape* c2 = dst.CloneShape(sshape, "Clone2", dest == 0 ? nullptr : &src);
		sym_assert(c2 != nullptr && c2 != clone, "C14-twice: second clone missing");
	}
	sshape = src.FindBlockByName<NiShape>("Shape");
	if (dest != 0) {
		sym_assert(sym_unchanged(snap), "C14-source-modified: cloning into another model modified the source model");
		FmRange after = fm_save(src, true);
		sym_assert(sym_out_equal(before.a, before.b, after.a, after.b), "C14-source-bytes: source model saves differently after one of its shapes was cloned");
	}
	// geometry identical
	std::vector<Vector3> v1, v2;
	src.GetVertsForShape(sshape, v1);
	dst.GetVertsForShape(clone, v2);
	sym_assert(v1.size() == v2.size() && (v1.empty() || memcmp(v1.data(), v2.data(), v1.size() * 12) == 0), "C14-geometry: clone has different vertices");
	std::vector<Triangle> t1, t2;
	sshape->GetTriangles(t1);
	clone->GetTriangles(t2);
	sym_assert(t1.size() == t2.size() && (t1.empty() || memcmp(t1.data(), t2.data(), t1.size() * 6) == 0), "C14-triangles: clone has different triangles");
	std::vector<std::string> b1, b2;
	src.GetShapeBoneList(sshape, b1);
	dst.GetShapeBoneList(clone, b2);
	sym_assert(b1 == b2, "C14-bones: clone's bone list names differ from the source's");
	for (auto& bn : b2) {
		NiNode* db = dst.FindBlockByName<NiNode>(bn);
		NiNode* sb = src.FindBlockByName<NiNode>(bn);
		sym_assert(db != nullptr, "C14-bone-missing: a bone of the clone does not exist in the destination");
		if (db && sb && dest == 1) {
			// the bone had to be created in the (empty) destination: same block type and type-specific fields
			sym_assert(std::string(db->GetBlockName()) == sb->GetBlockName(), "C14-bone-type: a bone created in the destination has another block type than in the source");
			auto dv = dynamic_cast<BSValueNode*>(db);
			auto sv = dynamic_cast<BSValueNode*>(sb);
			if (sv)
				sym_assert(dv && dv->value == sv->value, "C14-bone-fields: a bone created in the destination lost its type-specific fields");
			sym_assert(db->GetTransformToParent().translation == sb->GetTransformToParent().translation, "C14-bone-transform: a bone created in the destination has another transform");
		}
	}
	// the clone's cached geometry-data pointer designates the destination's own data block
	if (clone->HasType<NiTriBasedGeom>()) {
		auto dd = dst.GetHeader().GetBlock<NiGeometryData>(clone->DataRef());
		sym_assert(dd != nullptr && clone->GetGeomData() == dd, "C14-geomdata-link: the clone's geometry-data pointer does not designate the destination's copy of the data block");
		auto sd = src.GetHeader().GetBlock<NiGeometryData>(sshape->DataRef());
		sym_assert(sd != nullptr && sshape->GetGeomData() == sd && sd != dd, "C14-geomdata-source: the source shape's geometry-data pointer changed or is shared with the clone");
	}
	compare_rec(src, sshape, dst, clone, 0, true);
	// destination saves and reloads with the clone intact
	FmRange fd = fm_save(dst, true);
	NifFile re;
	int rc2 = fm_load(re, fd);
	sym_assert(rc2 == 0, "C14-reload: destination with the clone does not reload");
	NiShape* rclone = re.FindBlockByName<NiShape>("Clone");
	sym_assert(rclone != nullptr, "C14-reload-missing: clone missing after save+reload");
	if (rclone) {
		std::vector<Vector3> v3;
		re.GetVertsForShape(rclone, v3);
		sym_assert(v3.size() == v1.size(), "C14-reload-geometry: clone's geometry lost after save+reload");
	}
	sym_reach("end");
}
