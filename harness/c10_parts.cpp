// C10: skin partitions always cover the shape's triangles exactly once.
#include "fmodel.h"

static int bone_limit(int ver) { return (ver == FM_OB || ver == FM_FO3) ? 18 : (ver == FM_SSE ? 80 : 65535); }

// rotation-normalised triangle (smallest corner first, orientation kept)
static Triangle rot(Triangle t) {
	t.rot();
	return t;
}
static bool same_tri(const Triangle& a, const Triangle& b) { return a.p1 == b.p1 && a.p2 == b.p2 && a.p3 == b.p3; }

static void check_partitions(NifFile& nif, NiShape* shape, int ver, const std::vector<Triangle>& shapeTris, bool weightsDyadic) {
	NiHeader& hdr = nif.GetHeader();
	auto skinInst = hdr.GetBlock<NiSkinInstance>(shape->SkinInstanceRef());
	sym_assert(skinInst != nullptr, "C10-setup: no skin instance");
	if (!skinInst)
		return;
	auto sp = hdr.GetBlock(skinInst->skinPartitionRef);
	auto sd = hdr.GetBlock(skinInst->dataRef);
	sym_assert(sp != nullptr && sd != nullptr, "C10-setup: no skin partition / skin data");
	if (!sp || !sd)
		return;
	sym_assert(sp->numPartitions == sp->partitions.size(), "C10-partcount: partition counter disagrees with the partition list");
	size_t nv = shape->GetNumVertices();
	std::vector<int> seen(shapeTris.size(), 0);
	size_t total = 0;
	for (auto& p : sp->partitions) {
		sym_assert(p.numVertices == p.vertexMap.size(), "C10-numverts: partition vertex counter disagrees with its vertex map");
		sym_assert(p.numTriangles == p.triangles.size(), "C10-numtris: partition triangle counter disagrees with its triangle list");
		sym_assert(p.numBones == p.bones.size() && (int) p.numBones <= bone_limit(ver), "C10-bonelimit: partition exceeds the bone limit of the target game");
		for (size_t i = 0; i < p.vertexMap.size(); i++) {
			sym_assert(p.vertexMap[i] < nv, "C10-vmap-range: vertex map entry beyond the vertex count");
			if (i > 0)
				sym_assert(p.vertexMap[i - 1] < p.vertexMap[i], "C10-vmap-sorted: vertex map not strictly ascending (duplicate or unsorted vertex)");
		}
		std::vector<bool> used(nv, false);
		for (auto& t : p.triangles) {
			size_t lim = sp->bMappedIndices ? p.vertexMap.size() : nv;
			sym_assert(t.p1 < lim && t.p2 < lim && t.p3 < lim, "C10-tri-range: partition triangle index out of range");
			if (!(t.p1 < lim && t.p2 < lim && t.p3 < lim))
				continue;
			Triangle tt = sp->bMappedIndices ? Triangle(p.vertexMap[t.p1], p.vertexMap[t.p2], p.vertexMap[t.p3]) : t;
			used[tt.p1] = used[tt.p2] = used[tt.p3] = true;
			Triangle r = rot(tt);
			int found = 0;
			for (size_t s = 0; s < shapeTris.size(); s++)
				if (same_tri(rot(shapeTris[s]), r)) {
					seen[s]++;
					found++;
				}
			sym_assert(found == 1, "C10-foreign-tri: a partition triangle does not translate back to exactly one shape triangle");
			total++;
		}
		// vertex map lists exactly the vertices its triangles use
		for (auto vm : p.vertexMap)
			sym_assert(used[vm], "C10-vmap-extra: vertex map lists a vertex none of the partition's triangles uses");
		for (size_t v = 0; v < nv; v++)
			if (used[v]) {
				bool in = false;
				for (auto vm : p.vertexMap)
					in |= (vm == v);
				sym_assert(in, "C10-vmap-missing: a vertex used by a partition triangle is missing from its vertex map");
			}
		sym_assert(p.vertexWeights.size() == p.vertexMap.size() && p.boneIndices.size() == p.vertexMap.size(), "C10-arrays: per-vertex partition arrays not aligned with the vertex map");
		for (size_t i = 0; i < p.vertexWeights.size() && i < p.boneIndices.size(); i++) {
			const float* w = &p.vertexWeights[i].w1;
			const uint8_t* b = &p.boneIndices[i].i1;
			float sum = 0.0f;
			for (int k = 0; k < 4; k++) {
				sym_assert(w[k] >= 0.0f, "C10-weight-negative: negative vertex weight");
				if (w[k] > 0.0f)
					sym_assert(b[k] < p.numBones, "C10-boneslot: bone slot of a weighted vertex does not index an existing partition bone");
				sum += w[k];
			}
			if (weightsDyadic)
				sym_assert(sum == 1.0f || sum == 0.0f, "C10-weight-sum: vertex weights neither sum to one nor are all zero");
			// every weighted slot names a bone that really weights this vertex in the skin data, and every bone that
			// weights the vertex (at most four) has a slot
			uint16_t vtx = p.vertexMap[i];
			unsigned slots = 0;
			for (int k = 0; k < 4; k++) {
				if (!(w[k] > 0.0f) || !(b[k] < p.numBones) || !(p.bones[b[k]] < sd->bones.size()))
					continue;
				slots++;
				bool weighted = false;
				for (auto& sw : sd->bones[p.bones[b[k]]].vertexWeights)
					weighted |= (sw.index == vtx && sw.weight > 0.0f);
				sym_assert(weighted, "C10-bone-wrong: a partition bone slot names a bone that does not weight this vertex");
			}
			unsigned influences = 0;
			for (auto& bd : sd->bones)
				for (auto& sw : bd.vertexWeights)
					influences += (sw.index == vtx && sw.weight > 0.0f) ? 1 : 0;
			sym_assert(slots == (influences > 4 ? 4u : influences), "C10-bone-missing: a bone weighting this vertex has no slot in the partition");
		}
		for (auto bn : p.bones)
			sym_assert(bn < sd->bones.size(), "C10-bone-range: partition bone index beyond the skin's bone list");
	}
	sym_assert(total == shapeTris.size(), "C10-cover-count: partitions do not hold exactly the shape's triangles");
	for (size_t s = 0; s < shapeTris.size(); s++)
		sym_assert(seen[s] == 1, "C10-cover: a shape triangle lies in no partition or in more than one");
	if (auto bsd = dynamic_cast<BSDismemberSkinInstance*>(skinInst))
		sym_assert(bsd->partitions.size() == sp->partitions.size(), "C10-dismember: dismember partition list not aligned with the partitions");
}

static NiShape* build_skinned(NifFile& nif, int ver, int nv, std::vector<Triangle>& tris, int nb, int bonesPerVert, bool symWeights) {
	nif.Create(fm_version(ver));
	MatTransform t;
	std::vector<Vector3> verts;
	std::vector<Vector2> uvs;
	for (int i = 0; i < nv; i++) {
		verts.push_back(Vector3(0.5f * i, 0.25f * i * i, 1.0f + i));
		uvs.push_back(Vector2(0.125f * i, 0.5f));
	}
	NiShape* shape = nif.CreateShapeFromData("Shape", &verts, &tris, &uvs, nullptr);
	nif.CreateSkinning(shape);
	std::vector<int> bones;
	static const char* BN[] = {"B00", "B01", "B02", "B03", "B04", "B05", "B06", "B07", "B08", "B09", "B10", "B11", "B12", "B13", "B14", "B15", "B16", "B17", "B18", "B19", "B20", "B21", "B22", "B23"};
	for (int b = 0; b < nb; b++) {
		auto n = nif.AddNode(BN[b], t);
		bones.push_back(nif.GetBlockID(n));
	}
	nif.SetShapeBoneIDList(shape, bones);
	std::vector<std::unordered_map<uint16_t, float>> w(nb);
	for (int v = 0; v < nv; v++)
		for (int k = 0; k < bonesPerVert; k++) {
			int b = (v * bonesPerVert + k) % nb;
			float x = 1.0f / bonesPerVert;
			if (symWeights) {
				x = sym_f32("w");
				sym_assume(x >= 0.0f && x <= 1.0f);
			}
			w[b][(uint16_t) v] = x;
		}
	for (int b = 0; b < nb; b++)
		nif.SetShapeBoneWeights("Shape", b, w[b]);
	return shape;
}

// every triangle stays in a partition carrying the body part (dismember partID) of the label it was given
static void check_bodyparts(NifFile& nif, NiShape* shape, const std::vector<Triangle>& labelled, const std::vector<int>& labels,
							NiVector<BSDismemberSkinInstance::PartitionInfo>& pinfo) {
	auto bsd = nif.GetHeader().GetBlock<BSDismemberSkinInstance>(shape->SkinInstanceRef());
	if (!bsd)
		return;
	NiVector<BSDismemberSkinInstance::PartitionInfo> pinfo2;
	std::vector<int> tp2;
	nif.GetShapePartitions(shape, pinfo2, tp2);
	std::vector<Triangle> cur;
	shape->GetTriangles(cur);
	for (size_t i = 0; i < labelled.size() && i < labels.size(); i++) {
		if (labels[i] < 0 || labels[i] >= (int) pinfo.size())
			continue;
		for (size_t j = 0; j < cur.size() && j < tp2.size(); j++)
			if (same_tri(rot(labelled[i]), rot(cur[j])) && tp2[j] >= 0 && tp2[j] < (int) pinfo2.size())
				sym_assert(pinfo2[tp2[j]].partID == pinfo[labels[i]].partID, "C10-bodypart: a triangle ended up in a partition with another body part than the one it was assigned to");
	}
}

// (a) symbolic triangle corners + symbolic partition assignment, concrete dyadic weights
extern "C" void h_parts(int ver, int nv, int nt, int nb, int nparts) {
	NifFile nif;
	std::vector<Triangle> tris(nt);
	for (int i = 0; i < nt; i++) {
		tris[i].p1 = sym_u16("p");
		tris[i].p2 = sym_u16("p");
		tris[i].p3 = sym_u16("p");
		sym_assume(tris[i].p1 < nv && tris[i].p2 < nv && tris[i].p3 < nv);
		sym_assume(tris[i].p1 != tris[i].p2 && tris[i].p2 != tris[i].p3 && tris[i].p1 != tris[i].p3);
		for (int j = 0; j < i; j++)
			sym_assume(!same_tri(rot(tris[i]), rot(tris[j]))); // distinct triangles (up to rotation)
	}
	NiShape* shape = build_skinned(nif, ver, nv, tris, nb, 2, false);
	nif.UpdateSkinPartitions(shape);
	std::vector<Triangle> shapeTris;
	shape->GetTriangles(shapeTris);
	check_partitions(nif, shape, ver, shapeTris, true);
	sym_reach("built");
	NiVector<BSDismemberSkinInstance::PartitionInfo> pinfo;
	std::vector<int> triParts;
	nif.GetShapePartitions(shape, pinfo, triParts);
	sym_assert(triParts.size() == (size_t) nt, "C10-triparts-size: triangle-to-partition list has the wrong length");
	while ((int) pinfo.size() < nparts) {
		BSDismemberSkinInstance::PartitionInfo pi;
		pi.flags = PF_EDITOR_VISIBLE;
		pi.partID = (uint16_t) (30 + pinfo.size());
		pinfo.push_back(pi);
	}
	for (int i = 0; i < nt && i < (int) triParts.size(); i++) {
		int p = (int) sym_u32("part");
		sym_assume(p >= -1 && p <= nparts); // -1 = unassigned, nparts = out of range by one
		triParts[i] = p;
	}
	std::vector<Triangle> labelledTris = shapeTris;
	nif.SetShapePartitions(shape, pinfo, triParts);
	nif.UpdateSkinPartitions(shape);
	shape->GetTriangles(shapeTris);
	check_partitions(nif, shape, ver, shapeTris, true);
	check_bodyparts(nif, shape, labelledTris, triParts, pinfo);
	// the labelling read back partitions the triangles
	NiVector<BSDismemberSkinInstance::PartitionInfo> pinfo2;
	std::vector<int> tp2;
	nif.GetShapePartitions(shape, pinfo2, tp2);
	sym_assert(tp2.size() == shapeTris.size(), "C10-triparts-size: triangle-to-partition list has the wrong length");
	for (auto p : tp2)
		sym_assert(p >= 0 && p < (int) pinfo2.size(), "C10-triparts-range: a triangle is assigned to no existing partition after rebuilding");
	// a triangle added after the partitions were built must be covered after the next rebuild
	if (nv >= 4) {
		std::vector<Triangle> more = shapeTris;
		Triangle extra((uint16_t) sym_u16("p"), (uint16_t) sym_u16("p"), (uint16_t) sym_u16("p"));
		sym_assume(extra.p1 < nv && extra.p2 < nv && extra.p3 < nv && extra.p1 != extra.p2 && extra.p2 != extra.p3 && extra.p1 != extra.p3);
		for (auto& t : more)
			sym_assume(!same_tri(rot(extra), rot(t)));
		more.push_back(extra);
		shape->SetTriangles(more);
		nif.UpdateSkinPartitions(shape);
		shape->GetTriangles(shapeTris);
		sym_assert(shapeTris.size() == more.size(), "C10-addtri: triangle count after SetTriangles");
		check_partitions(nif, shape, ver, shapeTris, true);
	}
	// remove empty partitions, default partition
	nif.RemoveEmptyPartitions(shape);
	shape->GetTriangles(shapeTris);
	check_partitions(nif, shape, ver, shapeTris, true);
	nif.UpdateSkinPartitions(shape); // rebuild from the cached triangle-to-partition list
	shape->GetTriangles(shapeTris);
	check_partitions(nif, shape, ver, shapeTris, true);
	nif.SetDefaultPartition(shape);
	nif.UpdateSkinPartitions(shape);
	shape->GetTriangles(shapeTris);
	check_partitions(nif, shape, ver, shapeTris, true);
	sym_reach("end");
}

// (b) symbolic floating-point weights, concrete topology
extern "C" void h_weights(int ver, int nv, int nb) {
	NifFile nif;
	std::vector<Triangle> tris;
	for (int i = 0; i + 2 < nv; i++)
		tris.push_back(Triangle((uint16_t) i, (uint16_t) (i + 1), (uint16_t) (i + 2)));
	NiShape* shape = build_skinned(nif, ver, nv, tris, nb, nb < 2 ? 1 : 2, true);
	nif.UpdateSkinPartitions(shape);
	std::vector<Triangle> shapeTris;
	shape->GetTriangles(shapeTris);
	check_partitions(nif, shape, ver, shapeTris, false);
	sym_reach("end");
}

// (c) 24 bones, two triangles with disjoint bone sets: forces the 18-bone split for OB/FO3
extern "C" void h_split(int ver, int interleave) {
	NifFile nif;
	std::vector<Triangle> tris = {Triangle(0, 1, 2), Triangle(3, 4, 5), Triangle(0, 2, 1), Triangle(3, 5, 4)};
	NiShape* shape = build_skinned(nif, ver, 6, tris, 24, 4, false);
	nif.UpdateSkinPartitions(shape);
	std::vector<Triangle> shapeTris;
	shape->GetTriangles(shapeTris);
	check_partitions(nif, shape, ver, shapeTris, true);
	sym_reach("built");
	NiVector<BSDismemberSkinInstance::PartitionInfo> pinfo;
	std::vector<int> triParts;
	nif.GetShapePartitions(shape, pinfo, triParts);
	while (pinfo.size() < 2) {
		BSDismemberSkinInstance::PartitionInfo pi;
		pi.flags = PF_EDITOR_VISIBLE;
		pi.partID = (uint16_t) (30 + pinfo.size());
		pinfo.push_back(pi);
	}
	for (size_t i = 0; i < triParts.size(); i++) {
		int p = (int) sym_u32("part");
		sym_assume(p >= 0 && p <= 1);
		triParts[i] = p;
	}
	(void) interleave;
	pinfo[0].partID = 31;
	pinfo[1].partID = 37;
	std::vector<Triangle> labelledTris = shapeTris;
	nif.SetShapePartitions(shape, pinfo, triParts);
	nif.UpdateSkinPartitions(shape);
	shape->GetTriangles(shapeTris);
	check_partitions(nif, shape, ver, shapeTris, true);
	check_bodyparts(nif, shape, labelledTris, triParts, pinfo);
	sym_reach("end");
}

// ---- C17 (partition labels): labels set with SetShapePartitions are read back, also after a vertex deletion
extern "C" void h_partlabels(int ver, int nparts, int delVertex) {
	NifFile nif;
	// a strip-like mesh: 6 vertices, 4 triangles (concrete), so that labels are the only symbolic input
	std::vector<Triangle> tris = {Triangle(0, 1, 2), Triangle(1, 3, 2), Triangle(2, 3, 4), Triangle(3, 5, 4)};
	NiShape* shape = build_skinned(nif, ver, 6, tris, 2, 2, false);
	nif.UpdateSkinPartitions(shape);
	NiVector<BSDismemberSkinInstance::PartitionInfo> pinfo;
	std::vector<int> tp;
	nif.GetShapePartitions(shape, pinfo, tp);
	while ((int) pinfo.size() < nparts) {
		BSDismemberSkinInstance::PartitionInfo pi;
		pi.flags = PF_EDITOR_VISIBLE;
		pi.partID = (uint16_t) (30 + pinfo.size());
		pinfo.push_back(pi);
	}
	std::vector<int> labels(tris.size());
	for (size_t i = 0; i < labels.size(); i++) {
		labels[i] = (int) sym_u32("lab");
		sym_assume(labels[i] >= 0 && labels[i] < nparts);
	}
	nif.SetShapePartitions(shape, pinfo, labels);
	nif.UpdateSkinPartitions(shape);
	sym_reach("built");
	NiVector<BSDismemberSkinInstance::PartitionInfo> pinfo2;
	std::vector<int> out;
	nif.GetShapePartitions(shape, pinfo2, out);
	std::vector<Triangle> cur;
	shape->GetTriangles(cur);
	sym_assert(out.size() == cur.size() && cur.size() == tris.size(), "C17-part-count: label list / triangle count changed");
	// labels follow their triangle (triangles may have been re-ordered: match by corners up to rotation)
	for (size_t i = 0; i < tris.size(); i++)
		for (size_t j = 0; j < cur.size() && j < out.size(); j++)
			if (same_tri(rot(tris[i]), rot(cur[j])))
				sym_assert(out[j] == labels[i], "C17-part-roundtrip: partition label read back differs from the label set");
	if (delVertex >= 0) {
		std::vector<uint16_t> del = {(uint16_t) delVertex};
		nif.DeleteVertsForShape(shape, del);
		std::vector<Triangle> after;
		shape->GetTriangles(after);
		NiVector<BSDismemberSkinInstance::PartitionInfo> pinfo3;
		std::vector<int> out3;
		nif.GetShapePartitions(shape, pinfo3, out3);
		sym_assert(out3.size() == after.size(), "C17-part-count-del: label list length differs from the triangle count after deletion");
		// surviving triangles keep their labels up to the order-preserving renumbering caused by removed empty partitions
		std::vector<int> oldLab, newLab;
		for (size_t i = 0; i < tris.size(); i++) {
			if (tris[i].p1 == delVertex || tris[i].p2 == delVertex || tris[i].p3 == delVertex)
				continue;
			auto ni = [&](uint16_t v) { return (uint16_t) (v > delVertex ? v - 1 : v); };
			Triangle want(ni(tris[i].p1), ni(tris[i].p2), ni(tris[i].p3));
			int found = -1;
			for (size_t j = 0; j < after.size(); j++)
				if (same_tri(rot(want), rot(after[j])))
					found = (int) j;
			sym_assert(found >= 0, "C17-part-lost: a triangle without the deleted vertex disappeared");
			if (found >= 0 && found < (int) out3.size()) {
				sym_assert(out3[found] >= 0 && out3[found] < (int) pinfo3.size(), "C17-part-cover-del: a surviving triangle is in no partition after deletion");
				oldLab.push_back(labels[i]);
				newLab.push_back(out3[found]);
			}
		}
		for (size_t a = 0; a < oldLab.size(); a++)
			for (size_t b = a + 1; b < oldLab.size(); b++) {
				sym_assert((oldLab[a] == oldLab[b]) == (newLab[a] == newLab[b]), "C17-part-regroup: triangles changed partition grouping after vertex deletion");
				sym_assert((oldLab[a] < oldLab[b]) == (newLab[a] < newLab[b]), "C17-part-order: partition labels are not an order-preserving renumbering after vertex deletion");
			}
	}
	sym_reach("end");
}

// ---- (d) SetShapePartitions followed directly by RemoveEmptyPartitions / Save, without a rebuild in between
// mode 0: SetShapePartitions, save+reload; 1: SetShapePartitions, RemoveEmptyPartitions; 2: as 0 with the partitions
// stored as strips (OB/FO3/SK, one strip per triangle) and no partition query before SetShapePartitions
extern "C" void h_parts_direct(int ver, int nparts, int mode) {
	NifFile nif;
	std::vector<Triangle> tris = {Triangle(0, 1, 2), Triangle(1, 3, 2), Triangle(2, 3, 4), Triangle(3, 5, 4)};
	NiShape* shape = build_skinned(nif, ver, 6, tris, 2, 2, false);
	nif.UpdateSkinPartitions(shape);
	if (mode == 2) {
		auto si = nif.GetHeader().GetBlock<NiSkinInstance>(shape->SkinInstanceRef());
		auto sp = si ? nif.GetHeader().GetBlock(si->skinPartitionRef) : nullptr;
		sym_assert(sp != nullptr, "C10-setup: no skin partition");
		if (sp)
			for (auto& pb : sp->partitions) {
				pb.numStrips = (uint16_t) pb.triangles.size();
				pb.stripLengths.assign(pb.triangles.size(), 3);
				pb.strips.clear();
				for (auto& t : pb.triangles)
					pb.strips.push_back({t.p1, t.p2, t.p3});
				pb.hasFaces = true;
				pb.triangles.clear();
				pb.trueTriangles.clear();
			}
	}
	NiVector<BSDismemberSkinInstance::PartitionInfo> pinfo;
	for (int i = 0; i < nparts; i++) {
		BSDismemberSkinInstance::PartitionInfo pi;
		pi.flags = PF_EDITOR_VISIBLE;
		pi.partID = (uint16_t) (30 + i);
		pinfo.push_back(pi);
	}
	std::vector<int> labels(tris.size());
	for (size_t i = 0; i < labels.size(); i++) {
		labels[i] = (int) sym_u32("lab");
		sym_assume(labels[i] >= 0 && labels[i] < nparts);
	}
	nif.SetShapePartitions(shape, pinfo, labels);
	sym_reach("built");
	NifFile re;
	NifFile* q = &nif;
	NiShape* qs = shape;
	if (mode == 1)
		nif.RemoveEmptyPartitions(shape);
	else {
		FmRange f = fm_save(nif, false); // default options, as an application would save
		int rc = fm_load(re, f);
		sym_assert(rc == 0, "C10-direct-reload: model does not reload after SetShapePartitions");
		q = &re;
		qs = re.FindBlockByName<NiShape>("Shape");
		sym_assert(qs != nullptr, "C10-direct-reload: shape missing after reload");
		if (!qs)
			return;
	}
	NiVector<BSDismemberSkinInstance::PartitionInfo> pinfo2;
	std::vector<int> out;
	q->GetShapePartitions(qs, pinfo2, out);
	std::vector<Triangle> cur;
	qs->GetTriangles(cur);
	sym_assert(out.size() == cur.size() && cur.size() == tris.size(), "C10-direct-count: label list / triangle count changed");
	// the partitions themselves hold every triangle exactly once (a triangle missing from every partition would be reported
	// with the default label 0 by the query above)
	{
		auto si = q->GetHeader().GetBlock<NiSkinInstance>(qs->SkinInstanceRef());
		auto sp = si ? q->GetHeader().GetBlock(si->skinPartitionRef) : nullptr;
		sym_assert(sp != nullptr, "C10-direct-nopart: skin partition block missing");
		if (sp)
			for (auto& t : cur) {
				int holders = 0;
				for (auto& pb : sp->partitions)
					for (auto& pt : pb.trueTriangles)
						holders += same_tri(rot(pt), rot(t)) ? 1 : 0;
				sym_assert(holders == 1, "C10-direct-held: a triangle is not held by exactly one partition after SetShapePartitions (+ RemoveEmptyPartitions / save)");
			}
	}
	std::vector<int> got(tris.size(), -2);
	for (size_t i = 0; i < tris.size(); i++)
		for (size_t j = 0; j < cur.size() && j < out.size(); j++)
			if (same_tri(rot(tris[i]), rot(cur[j])))
				got[i] = out[j];
	for (size_t i = 0; i < tris.size(); i++)
		sym_assert(got[i] >= 0 && got[i] < (int) pinfo2.size(), "C10-direct-cover: a triangle lies in no partition after SetShapePartitions (+ RemoveEmptyPartitions / save)");
	for (size_t a = 0; a < tris.size(); a++)
		for (size_t b = a + 1; b < tris.size(); b++) {
			sym_assert((labels[a] == labels[b]) == (got[a] == got[b]), "C10-direct-group: triangles changed their partition grouping");
			sym_assert((labels[a] < labels[b]) == (got[a] < got[b]), "C10-direct-order: partition labels are not an order-preserving renumbering");
		}
	sym_reach("end");
}
