// C18: index-remapping and strip utilities vs. their naive definitions.
// Sizes are concrete harness parameters; contents and index lists are fully symbolic
// (sorted ascending assumed, as documented; values otherwise unconstrained, incl. >= size).
#include "symapi.h"
#include "NifUtil.hpp"
#include "Geometry.hpp"
#include <map>
#include <unordered_map>
using namespace nifly;

template<class I> static I sym_idx(const char* n);
template<> uint16_t sym_idx<uint16_t>(const char* n) { return sym_u16(n); }
template<> uint32_t sym_idx<uint32_t>(const char* n) { return sym_u32(n); }
template<> int sym_idx<int>(const char* n) { return (int) sym_u32(n); }

template<class I> static std::vector<I> sorted_list(int k) {
	std::vector<I> idx(k);
	for (int i = 0; i < k; i++) {
		idx[i] = sym_idx<I>("i");
		if (i > 0)
			sym_assume(idx[i - 1] < idx[i]);
	}
	return idx;
}

// ---- EraseVectorIndices
template<class E, class I> static void erase_check(int n, int k) {
	std::vector<E> v(n), orig(n);
	if (n)
		sym_bytes(v.data(), n * sizeof(E), "v");
	orig = v;
	std::vector<I> idx = sorted_list<I>(k);
	EraseVectorIndices(v, idx);
	// naive definition.  Documented behaviour: if the first index is out of range nothing happens;
	// indices >= size after a valid first index are ignored.
	size_t survivors = 0;
	for (int i = 0; i < n; i++) {
		bool del = false;
		for (int j = 0; j < k; j++)
			del |= ((unsigned long) idx[j] == (unsigned long) i);
		// survivor i must be found at position 'survivors' (its rank)
		if (!del) {
			sym_assert(survivors < v.size(), "C18-erase-size: EraseVectorIndices dropped a surviving element");
			if (survivors < v.size())
				sym_assert(memcmp(&v[survivors], &orig[i], sizeof(E)) == 0, "C18-erase-elem: EraseVectorIndices moved a wrong element");
			survivors++;
		}
	}
	sym_assert(v.size() == survivors, "C18-erase-size: EraseVectorIndices result size differs from definition");
	sym_reach("end");
}
extern "C" void h_erase_u32_u16(int n, int k) { erase_check<uint32_t, uint16_t>(n, k); }
extern "C" void h_erase_v3_u16(int n, int k) { erase_check<Vector3, uint16_t>(n, k); }
extern "C" void h_erase_u16_u16(int n, int k) { erase_check<uint16_t, uint16_t>(n, k); }
extern "C" void h_erase_u8_u16(int n, int k) { erase_check<uint8_t, uint16_t>(n, k); }
extern "C" void h_erase_u32_u32(int n, int k) { erase_check<uint32_t, uint32_t>(n, k); }

// ---- InsertVectorIndices: erase(insert(v)) == v, survivors land on the complement positions
template<class E, class I> static void insert_check(int n, int k) {
	std::vector<E> v(n), orig;
	if (n)
		sym_bytes(v.data(), n * sizeof(E), "v");
	orig = v;
	std::vector<I> idx = sorted_list<I>(k);
	InsertVectorIndices(v, idx);
	bool valid = k > 0 && (unsigned long) idx[k - 1] < (unsigned long) (n + k);
	if (!valid) {
		sym_assert(v.size() == (size_t) n, "C18-insert-invalid: invalid insert list must leave the vector alone");
		for (int i = 0; i < n && i < (int) v.size(); i++)
			sym_assert(memcmp(&v[i], &orig[i], sizeof(E)) == 0, "C18-insert-invalid-elem: invalid insert changed an element");
		sym_reach("end");
		return;
	}
	sym_assert(v.size() == (size_t) (n + k), "C18-insert-size: size after insert");
	// survivors are at the positions not in idx, in order
	size_t o = 0;
	for (size_t p = 0; p < v.size(); p++) {
		bool ins = false;
		for (int j = 0; j < k; j++)
			if ((size_t) idx[j] == p)
				ins = true;
		if (ins)
			continue;
		sym_assert(o < orig.size(), "C18-insert-pos: too many survivor slots");
		if (o < orig.size())
			sym_assert(memcmp(&v[p], &orig[o], sizeof(E)) == 0, "C18-insert-pos: survivor not at the complement position");
		o++;
	}
	EraseVectorIndices(v, idx);
	sym_assert(v.size() == (size_t) n, "C18-insert-erase: erase after insert does not restore the size");
	for (int i = 0; i < n && i < (int) v.size(); i++)
		sym_assert(memcmp(&v[i], &orig[i], sizeof(E)) == 0, "C18-insert-erase: erase(insert(v)) != v");
	sym_reach("end");
}
extern "C" void h_insert_u32_u16(int n, int k) { insert_check<uint32_t, uint16_t>(n, k); }
extern "C" void h_insert_v3_u16(int n, int k) { insert_check<Vector3, uint16_t>(n, k); }

// ---- collapse / expand maps
template<class I, class S> static void maps_check(int n, int k) {
	std::vector<I> idx = sorted_list<I>(k);
	std::vector<int> cm = GenerateIndexCollapseMap(idx, (S) n);
	sym_assert(cm.size() == (size_t) n, "C18-collapse-size: collapse map size");
	// oracle written branch-free so that the solver, not path forking, covers the cases
	int rank = 0;
	for (int s = 0; s < n && s < (int) cm.size(); s++) {
		bool del = false;
		for (int j = 0; j < k; j++)
			del |= ((unsigned long) idx[j] == (unsigned long) s);
		sym_assert(del ? cm[s] == -1 : cm[s] == rank, "C18-collapse: deleted index must map to -1, survivor to its rank");
		rank += del ? 0 : 1;
	}
	std::vector<int> em = GenerateIndexExpandMap(idx, (S) n);
	sym_assert(em.size() == (size_t) n, "C18-expand-size: expand map size");
	// definition: em[s] is the unique position p that is not an inserted slot and has exactly s
	// non-inserted positions before it:  p - #{j : idx[j] < p} == s
	for (int s = 0; s < n && s < (int) em.size(); s++) {
		long p = em[s];
		long before = 0;
		bool isSlot = false;
		for (int j = 0; j < k; j++) {
			before += ((long) idx[j] < p) ? 1 : 0;
			isSlot |= ((long) idx[j] == p);
		}
		sym_assert(!isSlot && p - before == s && p >= 0, "C18-expand-pos: expand map position differs from definition");
	}
	sym_reach("end");
}
extern "C" void h_maps_u16_u16(int n, int k) { maps_check<uint16_t, uint16_t>(n, k); }
extern "C" void h_maps_u16_sz(int n, int k) { maps_check<uint16_t, size_t>(n, k); }
extern "C" void h_maps_u32_u32(int n, int k) { maps_check<uint32_t, uint32_t>(n, k); }

// ---- ApplyMapToTriangles
template<class M> static void applymap_check(int t, int msz, int withDeleted) {
	std::vector<Triangle> tris(t);
	for (auto& tr : tris) {
		tr.p1 = sym_u16("p");
		tr.p2 = sym_u16("p");
		tr.p3 = sym_u16("p");
	}
	std::vector<Triangle> orig = tris;
	std::vector<M> map(msz);
	for (auto& m : map)
		m = (M) sym_idx<uint32_t>("m");
	std::vector<int> deleted;
	ApplyMapToTriangles(tris, map, withDeleted ? &deleted : nullptr);
	size_t o = 0, d = 0;
	for (int i = 0; i < t; i++) {
		const Triangle& s = orig[i];
		bool ok = s.p1 < msz && s.p2 < msz && s.p3 < msz;
		if (ok)
			ok = !(map[s.p1] < 0) && !(map[s.p2] < 0) && !(map[s.p3] < 0);
		if (!ok) {
			if (withDeleted) {
				sym_assert(d < deleted.size() && deleted[d] == i, "C18-applymap-deleted: deleted triangle list wrong");
				d++;
			}
			continue;
		}
		sym_assert(o < tris.size(), "C18-applymap-missing: surviving triangle missing");
		if (o < tris.size())
			sym_assert(tris[o].p1 == (uint16_t) map[s.p1] && tris[o].p2 == (uint16_t) map[s.p2] && tris[o].p3 == (uint16_t) map[s.p3],
					   "C18-applymap-value: triangle remapped to wrong corners");
		o++;
	}
	sym_assert(o == tris.size(), "C18-applymap-count: triangle count after remap");
	if (withDeleted)
		sym_assert(d == deleted.size(), "C18-applymap-deleted-count: deleted list length");
	sym_reach("end");
}
extern "C" void h_applymap_int(int t, int msz, int wd) { applymap_check<int>(t, msz, wd); }
extern "C" void h_applymap_u16(int t, int msz, int wd) { applymap_check<uint16_t>(t, msz, wd); }

// ---- ApplyIndexMapToMapKeys
extern "C" void h_mapkeys(int n, int msz, int ordered) {
	std::vector<int> im(msz);
	for (auto& m : im) {
		m = (int) sym_u32("m");
		sym_assume(m >= -1 && m < 8);
	}
	// injective on non-negative values (collapse maps are)
	for (int i = 0; i < msz; i++)
		for (int j = i + 1; j < msz; j++)
			sym_assume(im[i] < 0 || im[i] != im[j]);
	int off = (int) sym_u32("off");
	sym_assume(off >= -4 && off <= 4);
	std::vector<uint16_t> keys(n);
	std::vector<uint32_t> vals(n);
	for (int i = 0; i < n; i++) {
		keys[i] = sym_u16("k");
		sym_assume(keys[i] < 12);
		for (int j = 0; j < i; j++)
			sym_assume(keys[j] != keys[i]);
		vals[i] = sym_u32("val");
	}
	// result keys must be distinct for the comparison to be well defined
	auto newkey = [&](uint16_t k, bool& keep) -> uint16_t {
		keep = true;
		if (k >= (unsigned) msz)
			return (uint16_t) (k + off);
		if (im[k] >= 0)
			return (uint16_t) im[k];
		keep = false;
		return 0;
	};
	for (int i = 0; i < n; i++)
		for (int j = i + 1; j < n; j++) {
			bool ki, kj;
			uint16_t a = newkey(keys[i], ki), b = newkey(keys[j], kj);
			sym_assume(!ki || !kj || a != b);
		}
	size_t expect = 0;
	if (ordered) {
		std::map<uint16_t, uint32_t> m;
		for (int i = 0; i < n; i++)
			m[keys[i]] = vals[i];
		ApplyIndexMapToMapKeys(m, im, off);
		for (int i = 0; i < n; i++) {
			bool keep;
			uint16_t nk = newkey(keys[i], keep);
			if (!keep)
				continue;
			expect++;
			auto it = m.find(nk);
			sym_assert(it != m.end() && it->second == vals[i], "C18-mapkeys: remapped key missing or carries wrong value");
		}
		sym_assert(m.size() == expect, "C18-mapkeys-size: map size after remap");
	}
	else {
		std::unordered_map<uint16_t, uint32_t> m;
		for (int i = 0; i < n; i++)
			m[keys[i]] = vals[i];
		ApplyIndexMapToMapKeys(m, im, off);
		for (int i = 0; i < n; i++) {
			bool keep;
			uint16_t nk = newkey(keys[i], keep);
			if (!keep)
				continue;
			expect++;
			auto it = m.find(nk);
			sym_assert(it != m.end() && it->second == vals[i], "C18-mapkeys: remapped key missing or carries wrong value");
		}
		sym_assert(m.size() == expect, "C18-mapkeys-size: map size after remap");
	}
	sym_reach("end");
}

// ---- ApplyIndexMapToMapKeys with signed keys: a negative key is "not in the index map" (documented: the offset is added)
extern "C" void h_mapkeys_int(int n, int msz) {
	std::vector<int> im(msz);
	for (auto& m : im) {
		m = (int) sym_u32("m");
		sym_assume(m >= -1 && m < 8);
	}
	for (int i = 0; i < msz; i++)
		for (int j = i + 1; j < msz; j++)
			sym_assume(im[i] < 0 || im[i] != im[j]);
	int off = (int) sym_u32("off");
	sym_assume(off >= -4 && off <= 4);
	std::vector<int> keys(n);
	std::vector<uint32_t> vals(n);
	for (int i = 0; i < n; i++) {
		keys[i] = (int) sym_u32("k");
		sym_assume(keys[i] >= -3 && keys[i] < 12);
		for (int j = 0; j < i; j++)
			sym_assume(keys[j] != keys[i]);
		vals[i] = sym_u32("val");
	}
	auto newkey = [&](int k, bool& keep) -> int {
		keep = true;
		if (k < 0 || k >= msz)
			return k + off;
		if (im[k] >= 0)
			return im[k];
		keep = false;
		return 0;
	};
	for (int i = 0; i < n; i++)
		for (int j = i + 1; j < n; j++) {
			bool ki, kj;
			int a = newkey(keys[i], ki), b = newkey(keys[j], kj);
			sym_assume(!ki || !kj || a != b);
		}
	size_t expect = 0;
	std::map<int, uint32_t> m;
	for (int i = 0; i < n; i++)
		m[keys[i]] = vals[i];
	ApplyIndexMapToMapKeys(m, im, off);
	for (int i = 0; i < n; i++) {
		bool keep;
		int nk = newkey(keys[i], keep);
		if (!keep)
			continue;
		expect++;
		auto it = m.find(nk);
		sym_assert(it != m.end() && it->second == vals[i], "C18-mapkeys-signed: remapped signed key missing or carries wrong value");
	}
	sym_assert(m.size() == expect, "C18-mapkeys-size: map size after remap");
	sym_reach("end");
}

// ---- strips
extern "C" void h_strips(int ns, int len, int alpha) {
	std::vector<std::vector<uint16_t>> strips(ns);
	for (auto& s : strips) {
		s.resize(len);
		for (auto& p : s) {
			p = sym_u16("s");
			if (alpha)
				sym_assume(p < alpha);
		}
	}
	auto tris = GenerateTrianglesFromStrips(strips);
	size_t o = 0;
	for (auto& s : strips)
		for (int i = 2; i < len; i++) {
			uint16_t a = s[i - 2], b = s[i - 1], c = s[i];
			if (a == b || b == c || c == a)
				continue;
			sym_assert(o < tris.size(), "C18-strips-missing: triangle missing");
			if (o < tris.size()) {
				if ((i & 1) == 0)
					sym_assert(tris[o].p1 == a && tris[o].p2 == b && tris[o].p3 == c, "C18-strips-even: even winding");
				else
					sym_assert(tris[o].p1 == a && tris[o].p2 == c && tris[o].p3 == b, "C18-strips-odd: odd winding");
			}
			o++;
		}
	sym_assert(o == tris.size(), "C18-strips-count: triangle count");
	sym_reach("end");
}

// ---- CalcMaxTriangleIndex
extern "C" void h_maxidx(int t) {
	std::vector<Triangle> tris(t);
	for (auto& tr : tris) {
		tr.p1 = sym_u16("p");
		tr.p2 = sym_u16("p");
		tr.p3 = sym_u16("p");
	}
	uint16_t m = CalcMaxTriangleIndex(tris);
	bool attained = t == 0 && m == 0;
	for (auto& tr : tris) {
		sym_assert(tr.p1 <= m && tr.p2 <= m && tr.p3 <= m, "C18-maxidx-bound: max index is not an upper bound");
		if (tr.p1 == m || tr.p2 == m || tr.p3 == m)
			attained = true;
	}
	sym_assert(attained, "C18-maxidx-attained: max index not attained");
	sym_reach("end");
}
