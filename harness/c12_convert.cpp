// C12: LE<->SE conversion preserves geometry and skinning and yields a valid file.
#include "fmodel.h"
#include <cmath>

enum { CF_SKIN = 1, CF_COLORS = 2, CF_DUPNAME = 4, CF_SYMGEOM = 8, CF_FOURBONES = 16, CF_TWOPARTS = 32, CF_WHITEALPHA = 64, CF_SEGMENTED = 128, CF_TRIPLENAME = 256 };

struct ShapeInfo {
	std::vector<Vector3> verts;
	std::vector<Triangle> tris;
	std::vector<Vector2> uvs;
	std::vector<Color4> colors;
	bool hasColors = false;
	std::vector<std::string> bones;
	std::vector<std::unordered_map<uint16_t, float>> weights; // per bone: vertex -> weight
	std::string name;
	bool hasShader = false;
};
static Triangle rotn(Triangle t) {
	t.rot();
	return t;
}
static ShapeInfo describe(NifFile& nif, NiShape* s) {
	ShapeInfo i;
	nif.GetVertsForShape(s, i.verts);
	s->GetTriangles(i.tris);
	auto uv = nif.GetUvsForShape(s);
	if (uv)
		i.uvs = *uv;
	i.hasColors = nif.GetColorsForShape(s, i.colors) && !i.colors.empty();
	nif.GetShapeBoneList(s, i.bones);
	for (size_t b = 0; b < i.bones.size(); b++) {
		std::unordered_map<uint16_t, float> w;
		nif.GetShapeBoneWeights(s, (uint32_t) b, w);
		i.weights.push_back(w);
	}
	i.name = s->name.get();
	i.hasShader = nif.GetShader(s) != nullptr;
	return i;
}
static void compare(const ShapeInfo& a, const ShapeInfo& b, bool colorsExpected, const char* tag) {
	(void) tag;
	sym_assert(a.verts.size() == b.verts.size(), "C12-vertcount: vertex count changed by the conversion");
	for (size_t i = 0; i < a.verts.size() && i < b.verts.size(); i++)
		sym_assert(memcmp(&a.verts[i], &b.verts[i], 12) == 0, "C12-position: vertex position is not bit-identical after the conversion");
	sym_assert(a.tris.size() == b.tris.size(), "C12-tricount: triangle count changed by the conversion");
	for (auto& t : a.tris) {
		int ca = 0, cb = 0;
		Triangle r = rotn(t);
		for (auto& x : a.tris) {
			Triangle y = rotn(x);
			ca += (y.p1 == r.p1 && y.p2 == r.p2 && y.p3 == r.p3);
		}
		for (auto& x : b.tris) {
			Triangle y = rotn(x);
			cb += (y.p1 == r.p1 && y.p2 == r.p2 && y.p3 == r.p3);
		}
		sym_assert(ca == cb, "C12-triangles: the set of triangles changed by the conversion");
	}
	sym_assert(a.uvs.size() == b.uvs.size(), "C12-uvcount: UV count changed by the conversion");
	for (size_t i = 0; i < a.uvs.size() && i < b.uvs.size(); i++)
		sym_assert(memcmp(&a.uvs[i], &b.uvs[i], 8) == 0, "C12-uv: texture coordinate changed by the conversion");
	if (colorsExpected) {
		sym_assert(b.hasColors && b.colors.size() == a.colors.size(), "C12-colors-lost: vertex colours that are not all opaque white were dropped");
		for (size_t i = 0; i < a.colors.size() && i < b.colors.size(); i++) {
			const float* x = &a.colors[i].r;
			const float* y = &b.colors[i].r;
			for (int k = 0; k < 4; k++)
				sym_assert(std::fabs(x[k] - y[k]) <= 1.0f / 255.0f + 1e-6f, "C12-colors: vertex colour differs by more than the storage precision");
		}
	}
	sym_assert(a.bones == b.bones, "C12-bones: bone list changed by the conversion");
	for (size_t bi = 0; bi < a.weights.size() && bi < b.weights.size(); bi++) {
		for (auto& kv : a.weights[bi]) {
			if (kv.second == 0.0f)
				continue;
			auto it = b.weights[bi].find(kv.first);
			sym_assert(it != b.weights[bi].end() && std::fabs(it->second - kv.second) <= 2e-3f, "C12-weights: a vertex lost or changed a bone weight");
		}
		for (auto& kv : b.weights[bi]) {
			if (kv.second == 0.0f)
				continue;
			auto it = a.weights[bi].find(kv.first);
			sym_assert(it != a.weights[bi].end() && it->second != 0.0f, "C12-weights-extra: a vertex gained a bone weight it did not have");
		}
	}
	sym_assert(a.hasShader == b.hasShader, "C12-shader: shader lost in the conversion");
}
static void check_partition_cover(NifFile& nif, NiShape* s) {
	auto skinInst = nif.GetHeader().GetBlock<NiSkinInstance>(s->SkinInstanceRef());
	if (!skinInst)
		return;
	auto sp = nif.GetHeader().GetBlock(skinInst->skinPartitionRef);
	if (!sp)
		return;
	size_t total = 0;
	for (auto& p : sp->partitions) {
		sym_assert(p.numTriangles == p.triangles.size() && p.numVertices == p.vertexMap.size(), "C12-partition-counters: partition counters disagree with their lists after the conversion");
		total += p.triangles.size();
	}
	sym_assert(total == s->GetNumTriangles(), "C12-partition-cover: partitions do not hold exactly the shape's triangles after the conversion");
}

static void build(NifFile& nif, int dir, int feat) {
	nif.Create(dir == 0 ? NiVersion::getSK() : NiVersion::getSSE());
	MatTransform t;
	std::vector<Vector3> verts, norms;
	std::vector<Triangle> tris;
	std::vector<Vector2> uvs;
	fm_geometry(verts, tris, uvs, norms, feat & CF_SYMGEOM);
	NiShape* shape = nif.CreateShapeFromData("Shape", &verts, &tris, &uvs, &norms);
	if (feat & CF_SKIN) {
		nif.CreateSkinning(shape);
		int nb = (feat & CF_FOURBONES) ? 4 : 2;
		static const char* BN[] = {"B0", "B1", "B2", "B3"};
		std::vector<int> bones;
		for (int b = 0; b < nb; b++)
			bones.push_back(nif.GetBlockID(nif.AddNode(BN[b], t)));
		nif.SetShapeBoneIDList(shape, bones);
		for (int b = 0; b < nb; b++) {
			std::unordered_map<uint16_t, float> w;
			for (int i = 0; i < 4; i++)
				w[(uint16_t) i] = nb == 2 ? (b == 0 ? 0.25f * (i + 1) : 1.0f - 0.25f * (i + 1)) : (b == (i % 4) ? 0.5f : (b == ((i + 1) % 4) ? 0.25f : 0.125f));
			nif.SetShapeBoneWeights("Shape", b, w);
		}
		if (dynamic_cast<BSTriShape*>(shape))
			for (int i = 0; i < 4; i++) {
				std::vector<uint8_t> ids;
				std::vector<float> ws;
				for (int b = 0; b < nb; b++) {
					ids.push_back((uint8_t) b);
					ws.push_back(nb == 2 ? (b == 0 ? 0.25f * (i + 1) : 1.0f - 0.25f * (i + 1)) : (b == (i % 4) ? 0.5f : (b == ((i + 1) % 4) ? 0.25f : 0.125f)));
				}
				nif.SetShapeVertWeights("Shape", (uint16_t) i, ids, ws);
			}
		nif.UpdateSkinPartitions(shape);
		if (feat & CF_TWOPARTS) {
			NiVector<BSDismemberSkinInstance::PartitionInfo> pinfo;
			std::vector<int> tp;
			nif.GetShapePartitions(shape, pinfo, tp);
			BSDismemberSkinInstance::PartitionInfo pi;
			pi.flags = PF_EDITOR_VISIBLE;
			pi.partID = 38;
			pinfo.push_back(pi);
			if (tp.size() >= 2)
				tp[1] = 1;
			nif.SetShapePartitions(shape, pinfo, tp);
			nif.UpdateSkinPartitions(shape);
		}
	}
	if (feat & CF_COLORS) {
		std::vector<Color4> cols;
		for (int i = 0; i < 4; i++) {
			if (feat & CF_WHITEALPHA)
				cols.push_back(Color4(1.0f, 1.0f, 1.0f, i == 2 ? 0.5f : 1.0f));
			else
				cols.push_back(Color4(0.25f * i, 1.0f - 0.25f * i, 0.5f, 1.0f));
		}
		nif.SetColorsForShape(shape, cols);
		if (auto sh = nif.GetShader(shape)) {
			sh->SetVertexColors(true);
			sh->SetVertexAlpha(true);
		}
	}
	if ((feat & CF_SEGMENTED) && dir == 0) {
		// LE: turn the NiTriShape into a BSSegmentedTriShape with two segments (same geometry data)
		if (auto tri = dynamic_cast<NiTriShape*>(shape)) {
			auto seg = std::make_unique<BSSegmentedTriShape>();
			*static_cast<NiTriShape*>(seg.get()) = *tri;
			std::vector<BSGeometrySegmentData> sd(2);
			sd[0].index = 0;
			sd[0].numTris = 1;
			sd[1].index = 3;
			sd[1].numTris = 1;
			seg->SetSegments(sd);
			nif.GetHeader().ReplaceBlock(nif.GetBlockID(shape), std::move(seg));
		}
	}
	if (feat & CF_TRIPLENAME) {
		for (int k = 0; k < 2; k++) {
			std::vector<Vector3> v2 = {Vector3(2.1f + k, 0, 0), Vector3(3, 0.3f, k), Vector3(2, 1.1f, 0)};
			std::vector<Triangle> t2 = {Triangle(0, 1, 2)};
			std::vector<Vector2> u2 = {Vector2(0.2f, 0), Vector2(1, 0.1f), Vector2(0, 0.9f)};
			nif.CreateShapeFromData("Shape", &v2, &t2, &u2, nullptr);
		}
	}
	if (feat & CF_DUPNAME) {
		std::vector<Vector3> v2 = {Vector3(2.1f, 0, 0), Vector3(3, 0.3f, 0), Vector3(2, 1.1f, 0)};
		std::vector<Triangle> t2 = {Triangle(0, 1, 2)};
		std::vector<Vector2> u2 = {Vector2(0.2f, 0), Vector2(1, 0.1f), Vector2(0, 0.9f)};
		nif.CreateShapeFromData("Shape", &v2, &t2, &u2, nullptr);
	}
}

extern "C" void h_conv(int dir, int feat, int optmask) {
	NifFile built;
	build(built, dir, feat);
	// the model under conversion is what the library loads from a file
	FmRange s0 = fm_save(built, true);
	NifFile nif;
	int rc = fm_load(nif, s0);
	sym_assert(rc == 0, "C12-setup: source model does not load");
	sym_reach("loaded");
	std::vector<ShapeInfo> before;
	for (auto s : nif.GetShapes())
		before.push_back(describe(nif, s));
	OptOptions opt;
	opt.targetVersion = dir == 0 ? NiVersion::getSSE() : NiVersion::getSK();
	opt.removeParallax = (optmask & 1) != 0;
	opt.calcBounds = (optmask & 2) != 0;
	opt.fixBSXFlags = (optmask & 4) != 0;
	opt.fixShaderFlags = (optmask & 8) != 0;
	OptResult res = nif.OptimizeFor(opt);
	sym_assert(!res.versionMismatch, "C12-mismatch: conversion refused");
	auto shapes = nif.GetShapes();
	sym_assert(shapes.size() == before.size(), "C12-shapecount: number of shapes changed by the conversion");
	bool colorsExpected = (feat & CF_COLORS) != 0; // colours are never all opaque white in these models
	for (size_t i = 0; i < shapes.size() && i < before.size(); i++) {
		ShapeInfo after = describe(nif, shapes[i]);
		compare(before[i], after, colorsExpected && i == 0, "there");
		check_partition_cover(nif, shapes[i]);
		for (size_t j = i + 1; j < shapes.size(); j++)
			sym_assert(shapes[i]->name.get() != shapes[j]->name.get(), "C12-names: sibling shapes have equal names after the conversion");
	}
	// saves and reloads in the target version
	FmRange f = fm_save(nif, false);
	sym_assert(f.rc == 0, "C12-save: converted model does not save");
	NifFile re;
	int rc2 = fm_load(re, f);
	sym_assert(rc2 == 0, "C12-reload: converted file does not load");
	auto rshapes = re.GetShapes();
	sym_assert(rshapes.size() == before.size(), "C12-reload-shapes: shapes missing after saving and reloading the converted model");
	bool targetIsSSE = dir == 0;
	for (size_t i = 0; i < rshapes.size() && i < before.size(); i++) {
		ShapeInfo r = describe(re, rshapes[i]);
		sym_assert(r.verts.size() == before[i].verts.size(), "C12-reload-vertcount: vertex count differs after reloading the converted model");
		for (size_t k = 0; k < r.verts.size() && k < before[i].verts.size(); k++)
			sym_assert(memcmp(&r.verts[k], &before[i].verts[k], 12) == 0, "C12-reload-position: vertex position not bit-identical after saving and reloading the converted model");
		sym_assert(r.tris.size() == before[i].tris.size(), "C12-reload-tricount: triangle count differs after reloading the converted model");
		sym_assert(r.bones.size() == before[i].bones.size(), "C12-reload-bones: bone list differs after reloading the converted model");
		(void) targetIsSSE;
		check_partition_cover(re, rshapes[i]);
	}
	// there and back
	OptOptions back = opt;
	back.targetVersion = dir == 0 ? NiVersion::getSK() : NiVersion::getSSE();
	OptResult res2 = nif.OptimizeFor(back);
	sym_assert(!res2.versionMismatch, "C12-back-mismatch: conversion back refused");
	auto bshapes = nif.GetShapes();
	sym_assert(bshapes.size() == before.size(), "C12-back-shapecount: number of shapes changed by converting there and back");
	for (size_t i = 0; i < bshapes.size() && i < before.size(); i++) {
		ShapeInfo b = describe(nif, bshapes[i]);
		sym_assert(b.verts.size() == before[i].verts.size(), "C12-back-vertcount: vertex count changed by converting there and back");
		for (size_t k = 0; k < b.verts.size() && k < before[i].verts.size(); k++)
			sym_assert(memcmp(&b.verts[k], &before[i].verts[k], 12) == 0, "C12-back-position: converting there and back changed a vertex position");
		sym_assert(b.tris.size() == before[i].tris.size(), "C12-back-tricount: converting there and back changed the triangle count");
		sym_assert(b.bones == before[i].bones, "C12-back-bones: converting there and back changed the bone list");
	}
	sym_reach("end");
}
