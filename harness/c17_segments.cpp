// C17: segment labels round-trip and always partition the triangles (BSSubIndexTriShape).
#include "symapi.h"
#include "NifFile.hpp"
using namespace nifly;

// segmentation-info shapes: layout[shape] describes segments/sub-segments and their (permuted) part ids
struct Layout {
	int nsegs;
	int nsubs[3];
	int ids[8]; // part ids in declaration order: seg0, its subs, seg1, its subs, ...
};
static const Layout LAYOUTS[] = {
	{1, {0, 0, 0}, {0}},
	{2, {0, 0, 0}, {0, 1}},
	{2, {0, 0, 0}, {1, 0}},                 // permuted ids
	{2, {2, 0, 0}, {2, 0, 3, 1}},           // first segment with two sub-segments, permuted ids
	{3, {0, 1, 0}, {0, 1, 2, 3}},           // empty segments possible, middle one has a sub-segment
	{2, {1, 2, 0}, {4, 2, 0, 3, 1}},        // both with sub-segments, permuted
	{3, {0, 0, 0}, {2, 0, 1}},
};

static void build_info(const Layout& L, NifSegmentationInfo& inf, int& nparts, std::vector<int>& ren, std::vector<int>& parent) {
	int p = 0;
	nparts = 0;
	for (int s = 0; s < L.nsegs; s++)
		nparts += 1 + L.nsubs[s];
	ren.assign(nparts, -1);
	parent.assign(nparts, -1);
	inf.segs.resize(L.nsegs);
	int nid = 0;
	for (int s = 0; s < L.nsegs; s++) {
		inf.segs[s].partID = L.ids[p++];
		int segNew = nid;
		ren[inf.segs[s].partID] = nid++;
		inf.segs[s].subs.resize(L.nsubs[s]);
		for (int j = 0; j < L.nsubs[s]; j++) {
			inf.segs[s].subs[j].partID = L.ids[p++];
			inf.segs[s].subs[j].userSlotID = 30 + j;
			inf.segs[s].subs[j].material = 7 + j;
			ren[inf.segs[s].subs[j].partID] = nid;
			parent[nid] = segNew;
			nid++;
		}
	}
}

static void check_ranges(BSSubIndexTriShape& s, uint32_t t) {
	auto& sg = s.segmentation;
	sym_assert(sg.numPrimitives == t, "C17-total: segmentation total differs from the triangle count");
	sym_assert(sg.numSegments == sg.segments.size(), "C17-segcount: segment counter disagrees with the list");
	uint32_t next = 0, sum = 0;
	for (auto& seg : sg.segments) {
		sym_assert(seg.startIndex == next * 3, "C17-contiguous: segment ranges are not contiguous and ordered");
		sym_assert(seg.numSubSegments == seg.subSegments.size(), "C17-subcount: sub-segment counter disagrees with the list");
		uint32_t subSum = 0;
		uint32_t subNext = 0;
		bool first = true;
		for (auto& sub : seg.subSegments) {
			if (first)
				subNext = sub.startIndex / 3;
			first = false;
			sym_assert(sub.startIndex == subNext * 3, "C17-sub-contiguous: sub-segment ranges are not contiguous and ordered");
			sym_assert(sub.startIndex >= seg.startIndex && sub.startIndex / 3 + sub.numPrimitives <= seg.startIndex / 3 + seg.numPrimitives,
					   "C17-sub-inside: sub-segment range leaves its segment");
			subNext += sub.numPrimitives;
			subSum += sub.numPrimitives;
		}
		sym_assert(subSum <= seg.numPrimitives, "C17-sub-sum: sub-segments cover more triangles than their segment");
		next += seg.numPrimitives;
		sum += seg.numPrimitives;
	}
	sym_assert(sum == t, "C17-sum: segment sizes do not sum to the triangle count");
}

extern "C" void h_seg(int t, int layout, int allowUnassigned) {
	BSSubIndexTriShape s;
	s.triangles.resize(t);
	s.numTriangles = t;
	for (int i = 0; i < t; i++)
		s.triangles[i] = Triangle((uint16_t) (3 * i), (uint16_t) (3 * i + 1), (uint16_t) (3 * i + 2)); // unique tags
	std::vector<Triangle> before = s.triangles;
	NifSegmentationInfo inf;
	int nparts;
	std::vector<int> ren, parent;
	build_info(LAYOUTS[layout], inf, nparts, ren, parent);
	std::vector<int> labels(t);
	for (int i = 0; i < t; i++) {
		labels[i] = (int) sym_u32("lab");
		sym_assume(labels[i] >= (allowUnassigned ? -1 : 0) && labels[i] < nparts);
	}
	s.SetSegmentation(inf, labels);
	NifSegmentationInfo inf2;
	std::vector<int> out;
	s.GetSegmentation(inf2, out);
	sym_assert(out.size() == (size_t) t && s.triangles.size() == (size_t) t, "C17-count: label list / triangle list length changed");
	sym_assert(inf2.segs.size() == inf.segs.size(), "C17-shape: segment count not read back");
	for (size_t i = 0; i < inf.segs.size() && i < inf2.segs.size(); i++) {
		sym_assert(inf2.segs[i].subs.size() == inf.segs[i].subs.size(), "C17-shape: sub-segment count not read back");
		sym_assert(inf2.segs[i].partID == ren[inf.segs[i].partID], "C17-renumber: segment id is not the documented renumbering");
		for (size_t j = 0; j < inf.segs[i].subs.size() && j < inf2.segs[i].subs.size(); j++) {
			sym_assert(inf2.segs[i].subs[j].partID == ren[inf.segs[i].subs[j].partID], "C17-renumber: sub-segment id is not the documented renumbering");
			sym_assert(inf2.segs[i].subs[j].material == inf.segs[i].subs[j].material && inf2.segs[i].subs[j].userSlotID == inf.segs[i].subs[j].userSlotID,
					   "C17-data: sub-segment data not read back");
		}
	}
	// stored triangles are a permutation of the previous ones; labels follow their triangle
	for (int i = 0; i < t; i++) {
		int cnt = 0;
		int pos = -1;
		for (int j = 0; j < t && j < (int) s.triangles.size(); j++)
			if (s.triangles[j].p1 == before[i].p1 && s.triangles[j].p2 == before[i].p2 && s.triangles[j].p3 == before[i].p3) {
				cnt++;
				pos = j;
			}
		sym_assert(cnt == 1, "C17-permutation: stored triangles are not a permutation of the previous ones");
		if (cnt == 1 && pos < (int) out.size()) {
			if (labels[i] >= 0)
				sym_assert(out[pos] == ren[labels[i]], "C17-roundtrip: label read back differs from the label set (up to renumbering)");
			else
				sym_assert(out[pos] >= 0 && out[pos] < nparts, "C17-cover: an unassigned triangle ended up in no range");
		}
	}
	for (int j = 1; j < t && j < (int) out.size(); j++)
		sym_assert(out[j - 1] <= out[j], "C17-ordered: ranges are not ordered by part id");
	check_ranges(s, t);
	sym_reach("end");
}

// after SetSegmentation: delete vertices, ranges must still partition the remaining triangles
// parentLabels=0: triangles are only labelled with leaf parts (segments without sub-segments, or sub-segments);
// parentLabels=1: a triangle may also carry the id of a segment that has sub-segments (assertion ids get the
// suffix -parentlabel so that the known defect of that case is identified separately).
extern "C" void h_seg_delete(int t, int layout, int n, int k, int parentLabels, int second) {
	BSSubIndexTriShape s;
	s.vertData.resize(n);
	s.numVertices = n;
	s.triangles.resize(t);
	s.numTriangles = t;
	for (auto& tr : s.triangles) {
		tr.p1 = sym_u16("p");
		tr.p2 = sym_u16("p");
		tr.p3 = sym_u16("p");
		sym_assume(tr.p1 < n && tr.p2 < n && tr.p3 < n);
	}
	NifSegmentationInfo inf;
	int nparts;
	std::vector<int> ren, parent;
	build_info(LAYOUTS[layout], inf, nparts, ren, parent);
	std::vector<int> labels(t);
	for (int i = 0; i < t; i++) {
		labels[i] = (int) sym_u32("lab");
		sym_assume(labels[i] >= 0 && labels[i] < nparts);
	}
	bool usesParent = false;
	for (int i = 0; i < t; i++)
		for (auto& sg : inf.segs)
			usesParent |= (!sg.subs.empty() && labels[i] == sg.partID);
	sym_assume(usesParent == (parentLabels != 0));
	s.SetSegmentation(inf, labels);
	int ncur = n;
	for (int round = 0; round < (second ? 2 : 1); round++) {
		int kk = round == 0 ? k : 1;
		if (ncur < kk)
			break;
		NifSegmentationInfo inf0;
		std::vector<int> out0;
		s.GetSegmentation(inf0, out0);
		std::vector<Triangle> tri0 = s.triangles;
		std::vector<uint16_t> idx(kk);
		for (int i = 0; i < kk; i++) {
			idx[i] = sym_u16(round ? "del2" : "del");
			sym_assume(idx[i] < ncur);
			if (i > 0)
				sym_assume(idx[i - 1] < idx[i]);
		}
		s.notifyVerticesDelete(idx);
		ncur -= kk;
		if (!parentLabels)
			check_ranges(s, s.GetNumTriangles());
		NifSegmentationInfo inf2;
		std::vector<int> out;
		s.GetSegmentation(inf2, out);
		sym_assert(out.size() == s.GetNumTriangles(), "C17-count: label list length differs from triangle count after deletion");
		for (size_t j = 0; j < out.size(); j++)
			sym_assert(out[j] >= 0 && out[j] < nparts, parentLabels ? "C17-cover-parentlabel: a triangle is in no range after deletion" : "C17-cover: a triangle is in no range after deletion");
		for (size_t j = 1; j < out.size(); j++)
			sym_assert(out[j - 1] <= out[j], parentLabels ? "C17-ordered-parentlabel: ranges are not ordered after deletion" : "C17-ordered: ranges are not ordered after deletion");
		if (!parentLabels && out0.size() == tri0.size()) {
			// every surviving triangle keeps the label it had before the deletion
			size_t o = 0;
			for (size_t i = 0; i < tri0.size(); i++) {
				bool gone = false;
				for (auto d : idx)
					gone |= (tri0[i].p1 == d) | (tri0[i].p2 == d) | (tri0[i].p3 == d);
				if (gone)
					continue;
				sym_assert(o < out.size(), "C17-delete-survivor: a triangle without deleted corner is missing from the labels after deletion");
				if (o < out.size())
					sym_assert(out[o] == out0[i], "C17-delete-label: a surviving triangle changed its segment after a vertex deletion");
				o++;
			}
			sym_assert(o == out.size(), "C17-delete-extra: more labelled triangles than survivors after deletion");
		}
	}
	sym_reach("end");
}

// ReorderTriangles: result[j] == old[order[j]] for in-range orders; out-of-range ids are rejected unchanged
extern "C" void h_reorder(int t) {
	BSTriShape s;
	s.triangles.resize(t);
	s.numTriangles = t;
	for (auto& tr : s.triangles) {
		tr.p1 = sym_u16("p");
		tr.p2 = sym_u16("p");
		tr.p3 = sym_u16("p");
	}
	auto before = s.triangles;
	std::vector<uint32_t> order(t);
	bool inRange = true;
	for (auto& o : order) {
		o = sym_u32("ord");
		inRange &= (o < (uint32_t) t);
	}
	bool ok = s.ReorderTriangles(order);
	sym_assert(s.triangles.size() == (size_t) t && s.GetNumTriangles() == (uint32_t) t, "C17-reorder-count: reordering changed the triangle count");
	if (t > 0)
		sym_assert(ok == inRange, "C17-reorder-reject: out-of-range order must be rejected, valid order accepted");
	for (int j = 0; j < t && j < (int) s.triangles.size(); j++) {
		if (ok)
			sym_assert(memcmp(&s.triangles[j], &before[order[j]], sizeof(Triangle)) == 0, "C17-reorder-value: triangle j is not old[order[j]]");
		else
			sym_assert(memcmp(&s.triangles[j], &before[j], sizeof(Triangle)) == 0, "C17-reorder-unchanged: rejected reorder modified the triangles");
	}
	sym_reach("end");
}
