// Independent header/footer walker and the C07 table oracle, shared by the F-model harnesses.
#pragma once
#include "fmodel.h"
#include "Factory.hpp"

// ---------------- independent header walker (shares no code with NiHeader::Get) ----------------
struct Walk {
	bool ok = false;
	uint32_t file = 0, user = 0, stream = 0, numBlocks = 0;
	std::vector<std::string> types;
	std::vector<uint16_t> typeIdx;
	std::vector<uint32_t> sizes;
	bool hasSizes = false, hasStrings = false;
	std::vector<std::string> strings;
	uint32_t maxLen = 0;
	size_t hdrEnd = 0;
};
struct Rd {
	const std::vector<unsigned char>& b;
	size_t p = 0;
	bool bad = false;
	Rd(const std::vector<unsigned char>& bb) : b(bb) {}
	uint32_t u32() {
		if (p + 4 > b.size()) {
			bad = true;
			return 0;
		}
		uint32_t v = b[p] | (b[p + 1] << 8) | (b[p + 2] << 16) | ((uint32_t) b[p + 3] << 24);
		p += 4;
		return v;
	}
	uint16_t u16() {
		if (p + 2 > b.size()) {
			bad = true;
			return 0;
		}
		uint16_t v = (uint16_t) (b[p] | (b[p + 1] << 8));
		p += 2;
		return v;
	}
	uint8_t u8() {
		if (p + 1 > b.size()) {
			bad = true;
			return 0;
		}
		return b[p++];
	}
	std::string str(size_t n) {
		if (p + n > b.size()) {
			bad = true;
			return "";
		}
		std::string s((const char*) &b[p], n);
		p += n;
		return s;
	}
};
static Walk walk_header(const std::vector<unsigned char>& bytes) {
	Walk w;
	Rd r(bytes);
	while (r.p < bytes.size() && bytes[r.p] != 0x0A)
		r.p++;
	r.p++;
	w.file = r.u32();
	if (w.file >= 0x14000003)
		r.u8(); // endian
	if (w.file >= 0x0A000108)
		w.user = r.u32();
	w.numBlocks = r.u32();
	bool bethesda = (w.file == 0x14020007 && w.user >= 11) || ((w.file == 0x0A01006A || w.file == 0x0A020000) && w.user >= 3 && w.user < 11)
					|| (w.file == 0x14000004 && (w.user == 10 || w.user == 11)) || (w.file == 0x14000005 && w.user == 11);
	if (bethesda) {
		w.stream = r.u32();
		r.str(r.u8()); // creator
		if (w.stream > 130)
			r.u32();
		r.str(r.u8());
		r.str(r.u8());
		if (w.stream == 130)
			r.str(r.u8());
	}
	uint16_t nTypes = r.u16();
	for (int i = 0; i < nTypes && !r.bad; i++)
		w.types.push_back(r.str(r.u32()));
	for (uint32_t i = 0; i < w.numBlocks && !r.bad; i++)
		w.typeIdx.push_back(r.u16());
	if (w.file >= 0x14020005) {
		w.hasSizes = true;
		for (uint32_t i = 0; i < w.numBlocks && !r.bad; i++)
			w.sizes.push_back(r.u32());
	}
	if (w.file >= 0x14010001) {
		w.hasStrings = true;
		uint32_t ns = r.u32();
		w.maxLen = r.u32();
		for (uint32_t i = 0; i < ns && !r.bad; i++)
			w.strings.push_back(r.str(r.u32()));
	}
	uint32_t ngroups = r.u32();
	for (uint32_t i = 0; i < ngroups && !r.bad; i++)
		r.u32();
	w.hdrEnd = r.p;
	w.ok = !r.bad;
	return w;
}
static std::vector<unsigned char> out_bytes(const FmRange& f) {
	std::vector<unsigned char> b(f.b - f.a);
	if (f.b > f.a)
		sym_out_read(b.data(), f.a, f.b - f.a);
	return b;
}

// C07 oracle on one Save output; `model` is the NifFile that was saved (hasUnknown == false)
static void check_tables(NifFile& model, const FmRange& f, bool checkReparse) {
	auto bytes = out_bytes(f);
	Walk w = walk_header(bytes);
	sym_assert(w.ok, "C07-header: written header cannot be walked");
	NiHeader& hdr = model.GetHeader();
	sym_assert(w.numBlocks == hdr.GetNumBlocks() && w.typeIdx.size() == w.numBlocks, "C07-count: header block count differs from the blocks written");
	for (uint32_t i = 0; i < w.numBlocks && i < w.typeIdx.size(); i++) {
		sym_assert(w.typeIdx[i] < w.types.size(), "C07-typeidx: per-block type index outside the type table");
		if (w.typeIdx[i] < w.types.size())
			sym_assert(w.types[w.typeIdx[i]] == hdr.GetBlock<NiObject>(i)->GetBlockName(), "C07-typename: header type name differs from the block written at that position");
	}
	for (size_t t = 0; t < w.types.size(); t++) {
		bool used = false;
		for (auto ti : w.typeIdx)
			used |= (ti == t);
		sym_assert(used, "C07-unused-type: type table lists a type no block uses");
		for (size_t u = t + 1; u < w.types.size(); u++)
			sym_assert(w.types[t] != w.types[u], "C07-dup-type: type table lists a type twice");
	}
	if (w.hasSizes) {
		size_t pos = w.hdrEnd;
		for (auto s : w.sizes)
			pos += s;
		sym_assert(pos + 8 == bytes.size(), "C07-walk: header end + block sizes + footer does not land on the end of the file");
		if (pos + 8 == bytes.size()) {
			static const unsigned char FOOT[8] = {1, 0, 0, 0, 0, 0, 0, 0};
			sym_assert(memcmp(&bytes[pos], FOOT, 8) == 0, "C07-footer: footer bytes wrong");
		}
		if (checkReparse) {
			// each block, re-parsed on its own from its offset, consumes exactly its declared size
			NiHeader h2;
			std::vector<std::unique_ptr<NiObject>> nob;
			h2.SetBlockReference(&nob);
			h2.SetVersion(hdr.GetVersion());
			size_t off = w.hdrEnd;
			auto& fac = NiFactoryRegister::Get();
			for (uint32_t i = 0; i < w.numBlocks && i < w.sizes.size(); i++) {
				if (w.typeIdx[i] < w.types.size()) {
					auto nf = fac.GetFactoryByName(w.types[w.typeIdx[i]]);
					if (nf) {
						SymIStream in;
						NiIStream is(&in.s(), &h2);
						sym_in_from_out(f.a + off, f.b);
						auto blk = nf->Load(is);
						sym_assert(sym_in_pos() == w.sizes[i], "C07-blocksize: a block re-parsed from its offset consumes a different number of bytes than the size table says");
					}
				}
				off += w.sizes[i];
			}
		}
	}
	if (w.hasStrings) {
		uint32_t mx = 0;
		for (size_t i = 0; i < w.strings.size(); i++) {
			if (w.strings[i].size() > mx)
				mx = (uint32_t) w.strings[i].size();
			for (size_t j = i + 1; j < w.strings.size(); j++)
				sym_assert(w.strings[i] != w.strings[j], "C07-dup-string: string table holds a string twice");
		}
		sym_assert(mx == w.maxLen, "C07-maxlen: recorded maximum string length is not the true maximum");
		for (uint32_t i = 0; i < hdr.GetNumBlocks(); i++) {
			std::vector<NiStringRef*> refs;
			hdr.GetBlock<NiObject>(i)->GetStringRefs(refs);
			for (auto r : refs) {
				uint32_t ix = r->GetIndex();
				sym_assert(ix == NIF_NPOS || ix < w.strings.size(), "C07-stringidx: a block stores a string index outside the table");
				if (ix != NIF_NPOS && ix < w.strings.size())
					sym_assert(w.strings[ix] == r->get(), "C07-stringval: a stored string index denotes a different string than the block holds");
			}
		}
	}
}

