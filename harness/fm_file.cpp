// F-model harnesses at whole-file level: C01 (fixed point), C02 (repeatable save), C07 (header tables), C16 (truncation).
#include "fmodel.h"
#include "fm_walk.h"

// read-only query battery -> digest vector, compared before/after a save (C02)
// geometryOnly: leave out block counts / reference indices (which a sorting, pruning save legitimately changes)
static std::vector<uint32_t> digest(NifFile& nif, bool geometryOnly = false) {
	std::vector<uint32_t> d;
	NiHeader& hdr = nif.GetHeader();
	if (!geometryOnly)
		d.push_back(hdr.GetNumBlocks());
	auto shapes = nif.GetShapes();
	d.push_back((uint32_t) shapes.size());
	for (auto s : shapes) {
		for (char c : s->name.get())
			d.push_back((uint32_t) c);
		std::vector<Vector3> v;
		nif.GetVertsForShape(s, v);
		d.push_back((uint32_t) v.size());
		for (auto& p : v) {
			uint32_t b[3];
			memcpy(b, &p, 12);
			d.push_back(b[0]);
			d.push_back(b[1]);
			d.push_back(b[2]);
		}
		std::vector<Triangle> t;
		s->GetTriangles(t);
		for (auto& tr : t)
			d.push_back(tr.p1 | (tr.p2 << 10) | (tr.p3 << 20));
		d.push_back(s->HasTangents() ? 1 : 0);
		d.push_back(s->HasNormals() ? 1 : 0);
		std::vector<std::string> bones;
		nif.GetShapeBoneList(s, bones);
		d.push_back((uint32_t) bones.size());
		std::string tex;
		nif.GetTextureSlot(s, tex, 0);
		d.push_back((uint32_t) tex.size());
		auto sh = nif.GetShader(s);
		d.push_back(sh ? sh->GetShaderType() : 0xFFFF);
		auto uvp = nif.GetUvsForShape(s);
		if (uvp)
			for (auto& u : *uvp) {
				uint32_t b[2];
				memcpy(b, &u, 8);
				d.push_back(b[0]);
				d.push_back(b[1]);
			}
		if (geometryOnly)
			continue;
		{
			// segment query (read-only by contract); the partition query has its own step in h_file_repeat
			NifSegmentationInfo sinf;
			std::vector<int> segParts;
			NifFile::GetShapeSegments(s, sinf, segParts);
			for (auto sp : segParts)
				d.push_back((uint32_t) sp);
		}
		d.push_back(s->DataRef() ? s->DataRef()->index : 0xFFFFFFFE);
		d.push_back(s->SkinInstanceRef() ? s->SkinInstanceRef()->index : 0xFFFFFFFE);
		d.push_back((uint32_t) s->extraDataRefs.GetSize());
	}
	for (uint32_t i = 0; i < hdr.GetNumBlocks() && !geometryOnly; i++) {
		auto b = hdr.GetBlock<NiObject>(i);
		const char* n = b->GetBlockName();
		d.push_back((uint32_t) strlen(n) * 131 + (uint32_t) n[0]);
		std::vector<uint32_t> idx;
		b->GetChildIndices(idx);
		for (auto x : idx)
			d.push_back(x);
	}
	return d;
}

// ---- C01 + C07: save/load/save fixed point, raw and default
extern "C" void h_file_fixedpoint(int ver, int feat) {
	NifFile nif;
	fm_build(nif, ver, feat);
	FmRange s1 = fm_save(nif, true);
	sym_assert(s1.rc == 0, "C01-save: save failed");
	check_tables(nif, s1, true);
	NifFile b;
	int rc = fm_load(b, s1);
	sym_assert(rc == 0, "C01-reload: the file written without reordering does not load");
	sym_reach("loaded");
	FmRange s2 = fm_save(b, true);
	// s2 is the normal form of a loaded file (texture paths cleaned on load): it must be a fixed point.  The
	// API-built model's own first save (s1) is already in normal form unless it carries an uncleaned texture path.
	if (!(feat & (FM_TEXPATH | FM_SRCTEX)))
		sym_assert(sym_out_equal(s1.a, s1.b, s2.a, s2.b), "C01-file-fixedpoint: load+save of the written file is not byte-identical");
	check_tables(b, s2, false);
	{
		NifFile b2;
		int rcb = fm_load(b2, s2);
		sym_assert(rcb == 0, "C01-reload2: the normal-form file does not load");
		FmRange s3 = fm_save(b2, true);
		sym_assert(sym_out_equal(s2.a, s2.b, s3.a, s3.b), "C01-file-fixedpoint2: the file written from a loaded model is not a fixed point of load+save");
	}
	// default (sorting/pruning) save converges within two rounds
	NifFile c;
	fm_load(c, s1);
	FmRange d1 = fm_save(c, false);
	check_tables(c, d1, true);
	NifFile d;
	int rc2 = fm_load(d, d1);
	sym_assert(rc2 == 0, "C01-reload-default: the file written by a default save does not load");
	FmRange d2 = fm_save(d, false);
	NifFile e;
	int rc3 = fm_load(e, d2);
	sym_assert(rc3 == 0, "C01-reload-default2: second-round file does not load");
	FmRange d3 = fm_save(e, false);
	sym_assert(sym_out_equal(d2.a, d2.b, d3.a, d3.b), "C01-converge: default load/save did not converge to a fixed point within two rounds");
	check_tables(e, d3, false);
	sym_reach("end");
}

// ---- C02: saving the same model repeatedly, queries interleaved
extern "C" void h_file_repeat(int ver, int feat, int raw) {
	NifFile built;
	fm_build(built, ver, feat);
	// the very first save of an API-built model (values not yet rounded by any earlier save) must not change
	// what the queries return
	// (geometry digest: an Oblivion model legitimately gains its tangent-space extra data block on the first save)
	auto b0 = digest(built, true);
	FmRange s0 = fm_save(built, true);
	sym_assert(digest(built, true) == b0, "C02-built-first: the first save of an API-built model changed what its queries return");
	NifFile nif;
	int rc = fm_load(nif, s0);
	sym_assert(rc == 0, "C02-setup: model does not load");
	sym_reach("loaded");
	FmRange a = fm_save(nif, raw != 0); // first (normalising) save
	auto q1 = digest(nif);
	FmRange b = fm_save(nif, raw != 0);
	auto q2 = digest(nif);
	FmRange c = fm_save(nif, raw != 0);
	auto q3 = digest(nif);
	// A default save sorts blocks after the string table was rebuilt, so the *first* default save may order the
	// string table differently from later ones and still list strings of blocks it pruned (same logical content): byte identity is required
	// from the second save on, and for raw saves from the first.
	if (raw)
		sym_assert(sym_out_equal(a.a, a.b, b.a, b.b), "C02-file-repeat: second save of the same model differs from the first");
	sym_assert(sym_out_equal(b.a, b.b, c.a, c.b), "C02-file-repeat3: third save of the same model differs from the second");
	sym_assert(q1 == q2 && q2 == q3, "C02-queries: read-only queries answer differently after another save");
	check_tables(nif, c, false);
	// the partition query (const, read-only by contract) between two saves must not change what is written
	{
		std::vector<uint32_t> pq;
		for (auto s : nif.GetShapes()) {
			NiVector<BSDismemberSkinInstance::PartitionInfo> pinfo;
			std::vector<int> triParts;
			bool ok = nif.GetShapePartitions(s, pinfo, triParts);
			pq.push_back(ok ? 1 : 0);
			pq.push_back((uint32_t) pinfo.size());
			for (auto tp : triParts)
				pq.push_back((uint32_t) tp);
		}
		FmRange c2 = fm_save(nif, raw != 0);
		sym_assert(sym_out_equal(c.a, c.b, c2.a, c2.b),
				   (feat & FM_STRIPPART) ? "C02-query-partitions-strips: a save after the read-only GetShapePartitions query differs from the save before it (strip partitions)"
										 : "C02-query-partitions: a save after the read-only GetShapePartitions query differs from the save before it");
		std::vector<uint32_t> pq2;
		for (auto s : nif.GetShapes()) {
			NiVector<BSDismemberSkinInstance::PartitionInfo> pinfo;
			std::vector<int> triParts;
			bool ok = nif.GetShapePartitions(s, pinfo, triParts);
			pq2.push_back(ok ? 1 : 0);
			pq2.push_back((uint32_t) pinfo.size());
			for (auto tp : triParts)
				pq2.push_back((uint32_t) tp);
		}
		sym_assert(pq == pq2, "C02-query-partitions-answer: GetShapePartitions answers differently after a save");
	}
	// an edited model: caches filled by a query, vertices moved (same count) and vertex colours switched on (a vertex
	// format change), then saves interleaved with queries - every save writes the same bytes
	{
		NifFile ed(nif);
		if (NiShape* s = ed.FindBlockByName<NiShape>("Shape")) {
			std::vector<Vector3> v;
			ed.GetVertsForShape(s, v);
			for (auto& p : v) {
				p.x += 16.0f;
				p.y += 3.0f;
			}
			ed.SetVertsForShape(s, v);
			std::vector<Color4> cols(v.size(), Color4(0.5f, 0.25f, 1.0f, 1.0f));
			ed.SetColorsForShape("Shape", cols);
		}
		FmRange e1 = fm_save(ed, raw != 0);
		auto eq1 = digest(ed);
		FmRange e2 = fm_save(ed, raw != 0);
		auto eq2 = digest(ed);
		FmRange e3 = fm_save(ed, raw != 0);
		if (raw)
			sym_assert(sym_out_equal(e1.a, e1.b, e2.a, e2.b), "C02-edited-repeat: second save of an edited model differs from the first");
		sym_assert(sym_out_equal(e2.a, e2.b, e3.a, e3.b), "C02-edited-repeat3: third save of an edited model differs from the second");
		sym_assert(eq1 == eq2, "C02-edited-queries: queries answer differently between two saves of an edited model");
		if (!raw) {
			// default saves: the first one may still normalise; what it writes must already be what the second writes, block for block
			Walk w1 = walk_header(out_bytes(e1)), w2 = walk_header(out_bytes(e2));
			sym_assert(w1.ok && w2.ok && w1.numBlocks == w2.numBlocks && (e1.b - e1.a) - w1.hdrEnd == (e2.b - e2.a) - w2.hdrEnd,
					   "C02-edited-repeat-size: second save of an edited model has other blocks than the first");
			if (w1.ok && w2.ok && (e1.b - e1.a) - w1.hdrEnd == (e2.b - e2.a) - w2.hdrEnd)
				sym_assert(sym_out_equal(e1.a + w1.hdrEnd, e1.b, e2.a + w2.hdrEnd, e2.b), "C02-edited-repeat-blocks: the blocks written by the second save of an edited model differ from the first");
		}
	}
	// a model with several emptied child references (deleted shapes): saves must be repeatable from the first on
	{
		NifFile del(nif);
		for (auto s : del.GetShapes())
			del.DeleteShape(s);
		NiNode* droot = del.GetRootNode();
		if (droot) {
			// two more children, then emptied: adjacent empty entries in the child list
			MatTransform t;
			NiNode* n1 = del.AddNode("Tmp1", t);
			NiNode* n2 = del.AddNode("Tmp2", t);
			del.GetHeader().DeleteBlock(del.GetBlockID(n2));
			del.GetHeader().DeleteBlock(del.GetBlockID(n1));
		}
		FmRange d1 = fm_save(del, raw != 0);
		auto dq1 = digest(del);
		FmRange d2 = fm_save(del, raw != 0);
		auto dq2 = digest(del);
		FmRange d3 = fm_save(del, raw != 0);
		sym_assert(sym_out_equal(d2.a, d2.b, d3.a, d3.b), "C02-deleted-repeat3: third save of a model with deleted shapes differs from the second");
		{
			// the blocks (count and total size) are the same in the first and the second save: the clean-up is completed by
			// one save.  The header is left out: a first default save may still list strings of blocks it pruned.
			Walk w1 = walk_header(out_bytes(d1)), w2 = walk_header(out_bytes(d2));
			sym_assert(w1.ok && w2.ok && w1.numBlocks == w2.numBlocks && (d1.b - d1.a) - w1.hdrEnd == (d2.b - d2.a) - w2.hdrEnd,
					   "C02-deleted-repeat-size: second save of a model with deleted children has other blocks than the first (clean-up not completed by one save)");
		}
		sym_assert(dq1 == dq2, "C02-deleted-queries: queries change between the first and the second save of a model with deleted children");
	}
	// saving the freshly built (never loaded) model as well: queries before the first save == after it
	auto p0 = digest(built, raw == 0);
	FmRange x = fm_save(built, raw != 0);
	sym_assert(digest(built, raw == 0) == p0, "C02-built-second: a further save of an API-built model changed what its queries return");
	auto p1 = digest(built);
	FmRange y = fm_save(built, raw != 0);
	auto p2 = digest(built);
	FmRange z = fm_save(built, raw != 0);
	if (raw)
		sym_assert(sym_out_equal(x.a, x.b, y.a, y.b), "C02-built-repeat: saving an API-built model twice gives different bytes");
	sym_assert(sym_out_equal(y.a, y.b, z.a, z.b), "C02-built-repeat3: third save of an API-built model differs from the second");
	sym_assert(p1 == p2, "C02-built-queries: queries on an API-built model change after a save");
	sym_reach("end");
}

// ---- C16: whole file with a symbolic truncation point
extern "C" void h_file_trunc(int ver, int feat, int thenSave, int seg, int nseg) {
	NifFile built;
	fm_build(built, ver, feat);
	FmRange s0 = fm_save(built, true);
	sym_reach("loaded");
	NifFile nif;
	int rc = fm_load(nif, s0, true, seg, nseg);
	sym_note("rc", rc);
	fm_query_battery(nif);
	if (thenSave) {
		if (rc == 0) {
			FmRange o = fm_save(nif, false);
			(void) o;
		}
		else {
			// a failed load leaves an empty/partial model: saving it must not crash either
			FmRange o = fm_save(nif, false);
			(void) o;
		}
	}
	NifFile copy(nif);
	sym_reach("end");
}
