/*
nifly
C++ NIF library for the Gamebryo/NetImmerse File Format
See the included GPLv3 LICENSE file
*/

#pragma once

#include "BasicTypes.hpp"
#include "Objects.hpp"

namespace nifly {
enum BSShaderType : uint32_t {
	SHADER_TALL_GRASS,
	SHADER_DEFAULT,
	SHADER_SKY = 10,
	SHADER_SKIN = 14,
	SHADER_WATER = 17,
	SHADER_LIGHTING30 = 29,
	SHADER_TILE = 32,
	SHADER_NOLIGHTING
};

enum BSLightingShaderPropertyShaderType : uint32_t {
	BSLSP_DEFAULT,
	BSLSP_ENVMAP,
	BSLSP_GLOWMAP,
	BSLSP_PARALLAX,
	BSLSP_FACE,
	BSLSP_SKINTINT,
	BSLSP_HAIRTINT,
	BSLSP_PARALLAXOCC,
	BSLSP_MULTITEXTURELANDSCAPE,
	BSLSP_LODLANDSCAPE,
	BSLSP_SNOW,
	BSLSP_MULTILAYERPARALLAX,
	BSLSP_TREEANIM,
	BSLSP_LODOBJECTS,
	BSLSP_MULTIINDEXSNOW,
	BSLSP_LODOBJECTSHD,
	BSLSP_EYE,
	BSLSP_CLOUD,
	BSLSP_LODLANDSCAPENOISE,
	BSLSP_MULTITEXTURELANDSCAPELODBLEND,
	BSLSP_DISMEMBERMENT,
	BSLSP_LAST = BSLSP_DISMEMBERMENT
};

enum SkyrimShaderPropertyFlags1 : uint32_t {
	SLSF1_SPECULAR = 1 << 0,					// Enables specularity
	SLSF1_SKINNED = 1 << 1,						// Required for skinned meshes
	SLSF1_TEMP_REFRACTION = 1 << 2,
	SLSF1_VERTEX_ALPHA = 1 << 3,				// Enables using alpha component of vertex colors
	SLSF1_GREYSCALETOPALETTE_COLOR = 1 << 4,	// For effect shader property
	SLSF1_GREYSCALETOPALETTE_ALPHA = 1 << 5,	// For effect shader property
	SLSF1_USE_FALLOFF = 1 << 6,					// Use falloff value in effect shader property
	SLSF1_ENVIRONMENT_MAPPING = 1 << 7,			// Enables environment mapping (uses environment map scale)
	SLSF1_RECEIVE_SHADOWS = 1 << 8,				// Can receive shadows
	SLSF1_CAST_SHADOWS = 1 << 9,				// Can cast shadows
	SLSF1_FACEGEN_DETAIL_MAP = 1 << 10,			// Use a face detail map in the fourth texture slot
	SLSF1_PARALLAX = 1 << 11,
	SLSF1_MODEL_SPACE_NORMALS = 1 << 12,		// Use model space normals and an external specular map
	SLSF1_NON_PROJECTIVE_SHADOWS = 1 << 13,
	SLSF1_LANDSCAPE = 1 << 14,
	SLSF1_REFRACTION = 1 << 15,					// Use normal map for refraction effect
	SLSF1_FIRE_REFRACTION = 1 << 16,
	SLSF1_EYE_ENVIRONMENT_MAPPING = 1 << 17,	// Enables eye environment mapping (must use the eye shader and the model must be skinned)
	SLSF1_HAIR_SOFT_LIGHTING = 1 << 18,			// Keeps from going too bright under lights (hair shader only)
	SLSF1_SCREENDOOR_ALPHA_FADE = 1 << 19,
	SLSF1_LOCALMAP_HIDE_SECRET = 1 << 20,		// Object and anything it is positioned above will not render on local map view
	SLSF1_FACEGEN_RGB_TINT = 1 << 21,			// Use tint mask for face
	SLSF1_OWN_EMIT = 1 << 22,					// Provides its own emittance color (will not absorb light/ambient color?)
	SLSF1_PROJECTED_UV = 1 << 23,				// Used for decalling?
	SLSF1_MULTIPLE_TEXTURES = 1 << 24,
	SLSF1_REMAPPABLE_TEXTURES = 1 << 25,
	SLSF1_DECAL = 1 << 26,
	SLSF1_DYNAMIC_DECAL = 1 << 27,
	SLSF1_PARALLAX_OCCLUSION = 1 << 28,
	SLSF1_EXTERNAL_EMITTANCE = 1 << 29,
	SLSF1_SOFT_EFFECT = 1 << 30,
	SLSF1_ZBUFFER_TEST = static_cast<uint32_t>(1) << 31				// Enables Z-Buffer testing
};

enum SkyrimShaderPropertyFlags2 : uint32_t {
	SLSF2_ZBUFFER_WRITE = 1 << 0,				// Enables writing to the Z-Buffer
	SLSF2_LOD_LANDSCAPE = 1 << 1,
	SLSF2_LOD_OBJECTS = 1 << 2,
	SLSF2_NO_FADE = 1 << 3,
	SLSF2_DOUBLE_SIDED = 1 << 4,				// Enables double-sided rendering
	SLSF2_VERTEX_COLORS = 1 << 5,				// Enables vertex color rendering
	SLSF2_GLOW_MAP = 1 << 6,					// Use glow map in the third texture slot
	SLSF2_ASSUME_SHADOWMASK = 1 << 7,
	SLSF2_PACKED_TANGENT = 1 << 8,
	SLSF2_MULTI_INDEX_SNOW = 1 << 9,
	SLSF2_VERTEX_LIGHTING = 1 << 10,
	SLSF2_UNIFORM_SCALE = 1 << 11,
	SLSF2_FIT_SLOPE = 1 << 12,
	SLSF2_BILLBOARD = 1 << 13,
	SLSF2_NO_LOD_LAND_BLEND = 1 << 14,
	SLSF2_ENVMAP_LIGHT_FADE = 1 << 15,
	SLSF2_WIREFRAME = 1 << 16,
	SLSF2_WEAPON_BLODD = 1 << 17,				// Used for blood decals on weapons
	SLSF2_HIDE_ON_LOCAL_MAP = 1 << 18,			// Similar to hide secret, but only for self?
	SLSF2_PREMULT_ALPHA = 1 << 19,				// Has premultiplied alpha
	SLSF2_CLOUD_LOD = 1 << 20,
	SLSF2_ANISOTROPIC_LIGHTING = 1 << 21,		// Hair only?
	SLSF2_NO_TRANSPARENCY_MULTISAMPLING = 1 << 22,
	SLSF2_UNUSED01 = 1 << 23,
	SLSF2_MULTI_LAYER_PARALLAX = 1 << 24,		// Use multilayer (inner-layer) map
	SLSF2_SOFT_LIGHTING = 1 << 25,				// Use soft lighting map
	SLSF2_RIM_LIGHTING = 1 << 26,				// Use rim lighting map
	SLSF2_BACK_LIGHTING = 1 << 27,				// Use back lighting map
	SLSF2_UNUSED02 = 1 << 28,
	SLSF2_TREE_ANIM = 1 << 29,					// Enables vertex animation, flutter animation
	SLSF2_EFFECT_LIGHTING = 1 << 30,
	SLSF2_HD_LOD_OBJECTS = static_cast<uint32_t>(1) << 31
};

enum Fallout4ShaderPropertyFlags1 : uint32_t {
	F4SF1_SPECULAR = 1 << 0,					// Enables specularity
	F4SF1_SKINNED = 1 << 1,						// Required for skinned meshes
	F4SF1_TEMP_REFRACTION = 1 << 2,
	F4SF1_VERTEX_ALPHA = 1 << 3,				// Enables using alpha component of vertex colors
	F4SF1_GREYSCALETOPALETTE_COLOR = 1 << 4,	// For effect shader property
	F4SF1_GREYSCALETOPALETTE_ALPHA = 1 << 5,	// For effect shader property
	F4SF1_USE_FALLOFF = 1 << 6,					// Use falloff value in effect shader property
	F4SF1_ENVIRONMENT_MAPPING = 1 << 7,			// Enables environment mapping (uses environment map scale)
	F4SF1_RGB_FALLOFF = 1 << 8,
	F4SF1_CAST_SHADOWS = 1 << 9,				// Can cast shadows
	F4SF1_FACE = 1 << 10,
	F4SF1_UI_MASK_RECTS = 1 << 11,
	F4SF1_MODEL_SPACE_NORMALS = 1 << 12,
	F4SF1_NON_PROJECTIVE_SHADOWS = 1 << 13,
	F4SF1_LANDSCAPE = 1 << 14,
	F4SF1_REFRACTION = 1 << 15,
	F4SF1_FIRE_REFRACTION = 1 << 16,
	F4SF1_EYE_ENVIRONMENT_MAPPING = 1 << 17,
	F4SF1_HAIR = 1 << 18,
	F4SF1_SCREENDOOR_ALPHA_FADE = 1 << 19,
	F4SF1_LOCALMAP_HIDE_SECRET = 1 << 20,
	F4SF1_SKIN_TINT = 1 << 21,
	F4SF1_OWN_EMIT = 1 << 22,
	F4SF1_PROJECTED_UV = 1 << 23,				// Used for decalling?
	F4SF1_MULTIPLE_TEXTURES = 1 << 24,
	F4SF1_TESSELLATE = 1 << 25,
	F4SF1_DECAL = 1 << 26,
	F4SF1_DYNAMIC_DECAL = 1 << 27,
	F4SF1_CHARACTER_LIGHTING = 1 << 28,
	F4SF1_EXTERNAL_EMITTANCE = 1 << 29,
	F4SF1_SOFT_EFFECT = 1 << 30,
	F4SF1_ZBUFFER_TEST = static_cast<uint32_t>(1) << 31				// Enables Z-Buffer testing
};

enum Fallout4ShaderPropertyFlags2 : uint32_t {
	F4SF2_ZBUFFER_WRITE = 1 << 0,				// Enables writing to the Z-Buffer
	F4SF2_LOD_LANDSCAPE = 1 << 1,
	F4SF2_LOD_OBJECTS = 1 << 2,
	F4SF2_NO_FADE = 1 << 3,
	F4SF2_DOUBLE_SIDED = 1 << 4,				// Enables double-sided rendering
	F4SF2_VERTEX_COLORS = 1 << 5,				// Enables vertex color rendering
	F4SF2_GLOW_MAP = 1 << 6,
	F4SF2_TRANSFORM_CHANGED = 1 << 7,
	F4SF2_DISMEMBERMENT_MEATCUFF = 1 << 8,
	F4SF2_TINT = 1 << 9,
	F4SF2_GRASS_VERTEX_LIGHTING = 1 << 10,
	F4SF2_GRASS_UNIFORM_SCALE = 1 << 11,
	F4SF2_GRASS_FIT_SLOPE = 1 << 12,
	F4SF2_GRASS_BILLBOARD = 1 << 13,
	F4SF2_NO_LOD_LAND_BLEND = 1 << 14,
	F4SF2_DISMEMBERMENT = 1 << 15,
	F4SF2_WIREFRAME = 1 << 16,
	F4SF2_WEAPON_BLODD = 1 << 17,
	F4SF2_HIDE_ON_LOCAL_MAP = 1 << 18,
	F4SF2_PREMULT_ALPHA = 1 << 19,
	F4SF2_VATS_TARGET = 1 << 20,
	F4SF2_ANISOTROPIC_LIGHTING = 1 << 21,
	F4SF2_SKEW_SPECULAR_ALPHA = 1 << 22,
	F4SF2_MENU_SCREEN = 1 << 23,
	F4SF2_MULTI_LAYER_PARALLAX = 1 << 24,
	F4SF2_ALPHA_TEST = 1 << 25,
	F4SF2_GRADIENT_REMAP = 1 << 26,
	F4SF2_VATS_TARGET_DRAW_ALL = 1 << 27,
	F4SF2_PIPBOY_SCREEN = 1 << 28,
	F4SF2_TREE_ANIM = 1 << 29,
	F4SF2_EFFECT_LIGHTING = 1 << 30,
	F4SF2_REFRACTION_WRITES_DEPTH = static_cast<uint32_t>(1) << 31
};

class NiProperty : public NiCloneable<NiProperty, NiObjectNET> {};

class NiShadeProperty : public NiCloneableStreamable<NiShadeProperty, NiProperty> {
public:
	uint16_t flags = 0;

	static constexpr const char* BlockName = "NiShadeProperty";
	const char* GetBlockName() override { return BlockName; }

	void Sync(NiStreamReversible& stream);
};

class NiSpecularProperty : public NiCloneableStreamable<NiSpecularProperty, NiProperty> {
public:
	uint16_t flags = 0;

	static constexpr const char* BlockName = "NiSpecularProperty";
	const char* GetBlockName() override { return BlockName; }

	void Sync(NiStreamReversible& stream);
};

struct TexTransform {
	Vector2 translation;
	Vector2 scale;
	float wRotation = 0.0f;
	uint32_t transformType = 0;
	Vector2 center;
};

class TexDesc {
public:
	NiBlockRef<NiSourceTexture> sourceRef;
	TexClampMode clampMode = TexClampMode::WRAP_S_WRAP_T;
	TexFilterMode filterMode = TexFilterMode::FILTER_TRILERP;
	uint16_t flags = 0; // TexturingMapFlags
	uint16_t maxAnisotropy = 0;
	uint32_t uvSet = 0;
	int16_t ps2_l = 0;
	int16_t ps2_k = -75;
	bool hasTexTransform = false;
	TexTransform transform;

	void Sync(NiStreamReversible& stream) {
		const NiFileVersion fileVersion = stream.GetVersion().File();

		if (fileVersion >= NiFileVersion::V3_3_0_13)
			sourceRef.Sync(stream);

		if (fileVersion <= NiFileVersion::V20_0_0_5) {
			stream.Sync(clampMode);
			stream.Sync(filterMode);
			stream.Sync(uvSet);

			if (fileVersion < NiFileVersion::V10_4_0_1) {
				stream.Sync(ps2_l);
				stream.Sync(ps2_k);
			}
		}

		if (fileVersion >= NiFileVersion::V20_1_0_3)
			stream.Sync(flags);

		if (fileVersion >= NiVersion::ToFile(20, 5, 0, 4))
			stream.Sync(maxAnisotropy);

		if (fileVersion >= NiFileVersion::V10_1_0_0) {
			stream.Sync(hasTexTransform);

			if (hasTexTransform)
				stream.Sync(transform);
		}
	}

	void GetChildRefs(std::set<NiRef*>& refs) { refs.insert(&sourceRef); }
	void GetChildIndices(std::vector<uint32_t>& indices) { indices.push_back(sourceRef.index); }
};

class ShaderTexDesc {
public:
	bool isUsed = false;
	TexDesc data;
	uint32_t mapIndex = 0;

	void Sync(NiStreamReversible& stream) {
		stream.Sync(isUsed);

		if (isUsed) {
			data.Sync(stream);
			stream.Sync(mapIndex);
		}
	}

	void GetChildRefs(std::set<NiRef*>& refs) { data.GetChildRefs(refs); }
	void GetChildIndices(std::vector<uint32_t>& indices) { data.GetChildIndices(indices); }
};

class NiTexturingProperty : public NiCloneableStreamable<NiTexturingProperty, NiProperty> {
public:
	uint16_t flags = 0;
	uint32_t applyMode = 2;
	uint32_t textureCount = 7;

	bool hasBaseTex = false;
	TexDesc baseTex;

	bool hasDarkTex = false;
	TexDesc darkTex;

	bool hasDetailTex = false;
	TexDesc detailTex;

	bool hasGlossTex = false;
	TexDesc glossTex;

	bool hasGlowTex = false;
	TexDesc glowTex;

	bool hasBumpTex = false;
	TexDesc bumpTex;
	float lumaScale = 1.0f;
	float lumaOffset = 0.0f;
	Vector4 bumpMatrix;

	bool hasNormalTex = false;
	TexDesc normalTex;

	bool hasParallaxTex = false;
	TexDesc parallaxTex;
	float parallaxOffset = 0.0f;

	bool hasDecalTex0 = false;
	TexDesc decalTex0;

	bool hasDecalTex1 = false;
	TexDesc decalTex1;

	bool hasDecalTex2 = false;
	TexDesc decalTex2;

	bool hasDecalTex3 = false;
	TexDesc decalTex3;

	NiSyncVector<ShaderTexDesc> shaderTex;

	static constexpr const char* BlockName = "NiTexturingProperty";
	const char* GetBlockName() override { return BlockName; }

	void Sync(NiStreamReversible& stream);
	void GetChildRefs(std::set<NiRef*>& refs) override;
	void GetChildIndices(std::vector<uint32_t>& indices) override;
};

class NiVertexColorProperty : public NiCloneableStreamable<NiVertexColorProperty, NiProperty> {
public:
	uint16_t flags = 0;
	uint32_t vertexMode = 0;
	uint32_t lightingMode = 0;

	static constexpr const char* BlockName = "NiVertexColorProperty";
	const char* GetBlockName() override { return BlockName; }

	void Sync(NiStreamReversible& stream);
};

class NiDitherProperty : public NiCloneableStreamable<NiDitherProperty, NiProperty> {
public:
	uint16_t flags = 0;

	static constexpr const char* BlockName = "NiDitherProperty";
	const char* GetBlockName() override { return BlockName; }

	void Sync(NiStreamReversible& stream);
};

class NiFogProperty : public NiCloneableStreamable<NiFogProperty, NiProperty> {
public:
	uint16_t flags = 0;
	float fogDepth = 1.0f;
	Color3 fogColor;

	static constexpr const char* BlockName = "NiFogProperty";
	const char* GetBlockName() override { return BlockName; }

	void Sync(NiStreamReversible& stream);
};

class NiWireframeProperty : public NiCloneableStreamable<NiWireframeProperty, NiProperty> {
public:
	uint16_t flags = 0;

	static constexpr const char* BlockName = "NiWireframeProperty";
	const char* GetBlockName() override { return BlockName; }

	void Sync(NiStreamReversible& stream);
};

enum TestFunction : uint32_t {
	TEST_ALWAYS,
	TEST_LESS,
	TEST_EQUAL,
	TEST_LESS_EQUAL,
	TEST_GREATER,
	TEST_NOT_EQUAL,
	TEST_GREATER_EQUAL,
	TEST_NEVER
};

class NiZBufferProperty : public NiCloneableStreamable<NiZBufferProperty, NiProperty> {
public:
	uint16_t flags = 3;
	TestFunction testFunction = TEST_LESS_EQUAL;

	static constexpr const char* BlockName = "NiZBufferProperty";
	const char* GetBlockName() override { return BlockName; }

	void Sync(NiStreamReversible& stream);
};

class BSShaderTextureSet : public NiCloneableStreamable<BSShaderTextureSet, NiObject> {
public:
	NiStringVector<> textures = NiStringVector<>(13);

	BSShaderTextureSet() {}
	BSShaderTextureSet(NiVersion& version);

	static constexpr const char* BlockName = "BSShaderTextureSet";
	const char* GetBlockName() override { return BlockName; }

	void Sync(NiStreamReversible& stream);
};

class NiShader : public NiCloneable<NiShader, NiProperty> {
public:
	virtual bool HasTextureSet() const { return false; }
	virtual NiBlockRef<BSShaderTextureSet>* TextureSetRef() { return nullptr; }
	virtual const NiBlockRef<BSShaderTextureSet>* TextureSetRef() const { return nullptr; }

	virtual bool IsSkinTinted() const { return false; }
	virtual bool IsFaceTinted() const { return false; }
	virtual bool IsSkinned() const { return false; }
	virtual void SetSkinned(const bool) {}
	virtual bool IsDoubleSided() const { return false; }
	virtual void SetDoubleSided(const bool) {}
	virtual bool IsModelSpace() const { return false; }
	virtual bool IsEmissive() const { return false; }
	virtual bool HasSpecular() const { return true; }
	virtual bool HasVertexColors() const { return false; }
	virtual void SetVertexColors(const bool) {}
	virtual bool HasVertexAlpha() const { return false; }
	virtual void SetVertexAlpha(const bool) {}
	virtual bool HasBacklight() const { return false; }
	virtual bool HasRimlight() const { return false; }
	virtual bool HasSoftlight() const { return false; }
	virtual bool HasGlowmap() const { return false; }
	virtual bool HasGreyscaleColor() const { return false; }
	virtual bool HasEnvironmentMapping() const { return false; }
	virtual void SetEnvironmentMapping(const bool) {}
	virtual uint32_t GetShaderType() const { return 0; }
	virtual void SetShaderType(const uint32_t) {}
	virtual Vector2 GetUVOffset() const { return Vector2(); }
	virtual Vector2 GetUVScale() const { return Vector2(1.0f, 1.0f); }
	virtual Vector3 GetSpecularColor() const { return Vector3(); }
	virtual void SetSpecularColor(const Vector3&) {}
	virtual float GetSpecularStrength() const { return 0.0f; }
	virtual void SetSpecularStrength(const float) {}
	virtual float GetGlossiness() const { return 0.0f; }
	virtual void SetGlossiness(const float) {}
	virtual float GetEnvironmentMapScale() const { return 0.0f; }
	virtual Color4 GetEmissiveColor() const { return Color4(); }
	virtual void SetEmissiveColor(const Color4&) {}
	virtual float GetEmissiveMultiple() const { return 0.0f; }
	virtual void SetEmissiveMultiple(const float) {}
	virtual float GetAlpha() const { return 1.0f; }
	virtual void SetAlpha(const float) {}
	virtual float GetBacklightPower() const { return 0.0f; }
	virtual float GetRimlightPower() const { return 2.0f; }
	virtual float GetSoftlight() const { return 0.3f; }
	virtual float GetSubsurfaceRolloff() const { return 0.3f; }
	virtual float GetGrayscaleToPaletteScale() const { return 1.0; }
	virtual float GetFresnelPower() const { return 5.0f; }
	virtual std::string GetWetMaterialName() const { return std::string(); }
	virtual void SetWetMaterialName(const std::string&) {}
};

class BSShaderProperty : public NiCloneableStreamable<BSShaderProperty, NiShader> {
public:
	uint16_t shaderFlags = 1;
	BSShaderType shaderType = SHADER_DEFAULT;
	uint32_t shaderFlags1 = 0x82000000;
	uint32_t shaderFlags2 = 1;
	float environmentMapScale = 1.0f;

	uint32_t numSF1 = 0;
	uint32_t numSF2 = 0;
	std::vector<uint32_t> SF1;
	std::vector<uint32_t> SF2;

	Vector2 uvOffset;
	Vector2 uvScale = Vector2(1.0f, 1.0f);

	void Sync(NiStreamReversible& stream);

	uint32_t GetShaderType() const override;
	void SetShaderType(const uint32_t type) override;
	bool IsSkinTinted() const override;
	bool IsFaceTinted() const override;
	bool IsSkinned() const override;
	void SetSkinned(const bool enable) override;
	bool IsDoubleSided() const override;
	void SetDoubleSided(const bool enable) override;
	bool IsModelSpace() const override;
	bool IsEmissive() const override;
	bool HasSpecular() const override;
	bool HasVertexColors() const override;
	void SetVertexColors(const bool enable) override;
	bool HasVertexAlpha() const override;
	void SetVertexAlpha(const bool enable) override;
	bool HasBacklight() const override;
	bool HasRimlight() const override;
	bool HasSoftlight() const override;
	bool HasGlowmap() const override;
	bool HasGreyscaleColor() const override;
	bool HasEnvironmentMapping() const override;
	void SetEnvironmentMapping(const bool enable) override;
	float GetEnvironmentMapScale() const override;
	Vector2 GetUVOffset() const override;
	Vector2 GetUVScale() const override;
};

class WaterShaderProperty : public NiCloneable<WaterShaderProperty, BSShaderProperty> {
public:
	static constexpr const char* BlockName = "WaterShaderProperty";
	const char* GetBlockName() override { return BlockName; }
};

class HairShaderProperty : public NiCloneable<HairShaderProperty, BSShaderProperty> {
public:
	static constexpr const char* BlockName = "HairShaderProperty";
	const char* GetBlockName() override { return BlockName; }
};

class DistantLODShaderProperty : public NiCloneable<DistantLODShaderProperty, BSShaderProperty> {
public:
	static constexpr const char* BlockName = "DistantLODShaderProperty";
	const char* GetBlockName() override { return BlockName; }
};

class BSDistantTreeShaderProperty : public NiCloneable<BSDistantTreeShaderProperty, BSShaderProperty> {
public:
	static constexpr const char* BlockName = "BSDistantTreeShaderProperty";
	const char* GetBlockName() override { return BlockName; }
};

class TallGrassShaderProperty : public NiCloneableStreamable<TallGrassShaderProperty, BSShaderProperty> {
public:
	NiString fileName;

	static constexpr const char* BlockName = "TallGrassShaderProperty";
	const char* GetBlockName() override { return BlockName; }

	void Sync(NiStreamReversible& stream);
};

class VolumetricFogShaderProperty : public NiCloneable<VolumetricFogShaderProperty, BSShaderProperty> {
public:
	static constexpr const char* BlockName = "VolumetricFogShaderProperty";
	const char* GetBlockName() override { return BlockName; }
};

class BSLightingShaderProperty : public NiCloneableStreamable<BSLightingShaderProperty, BSShaderProperty> {
public:
	NiBlockRef<BSShaderTextureSet> textureSetRef;

	Vector3 emissiveColor;
	float emissiveMultiple = 1.0f;
	NiStringRef rootMaterialName;
	float unkFloat = 0.0f;
	uint32_t textureClampMode = 3;
	float alpha = 1.0f;
	float refractionStrength = 0.0f;
	float glossiness = 1.0f;
	Vector3 specularColor = Vector3(1.0f, 1.0f, 1.0f);
	float specularStrength = 1.0f;
	float softlighting = 0.3f;
	float rimlightPower = 2.0f;

	float subsurfaceRolloff = 0.3f;
	float rimlightPower2 = NiFloatMax;
	float backlightPower = 0.0f;
	float grayscaleToPaletteScale = 1.0f;
	float fresnelPower = 5.0f;
	float wetnessSpecScale = 0.6f;
	float wetnessSpecPower = 1.4f;
	float wetnessMinVar = 0.2f;
	float wetnessEnvmapScale = 1.0f;
	float wetnessFresnelPower = 1.6f;
	float wetnessMetalness = 0.0f;
	float wetnessUnknown1 = 0.0f;
	float wetnessUnknown2 = 0.0f;

	float lumEmittance = 100.0f;
	float exposureOffset = 13.5f;
	float finalExposureMin = 2.0f;
	float finalExposureMax = 3.0f;

	bool doTranslucency = false;
	Color3 subsurfaceColor;
	float transmissiveScale = 1.0f;
	float turbulence = 0.0f;
	bool thickObject = false;
	bool mixAlbedo = false;

	bool hasTextureArrays = false;
	uint32_t numTextureArrays = 0;
	std::vector<BSTextureArray> textureArrays;

	float unkFloat1 = 0.0f;
	float unkFloat2 = 0.0f;
	uint16_t unkShort1 = 0;

	bool useSSR = false;
	bool wetnessUseSSR = false;
	Vector3 skinTintColor = Vector3(1.0f,
									1.0f,
									1.0f);
	float skinTintAlpha = 0.0f;
	Vector3 hairTintColor = Vector3(1.0f,
									1.0f,
									1.0f);
	float maxPasses = 1.0f;
	float scale = 1.0f;
	float parallaxInnerLayerThickness = 0.0f;
	float parallaxRefractionScale = 1.0f;
	Vector2 parallaxInnerLayerTextureScale = Vector2(1.0f, 1.0f);
	float parallaxEnvmapStrength = 1.0f;
	Color4 sparkleParameters;
	float eyeCubemapScale = 1.0f;
	Vector3 eyeLeftReflectionCenter;
	Vector3 eyeRightReflectionCenter;

	BSLightingShaderProperty();
	BSLightingShaderProperty(NiVersion& version);

	static constexpr const char* BlockName = "BSLightingShaderProperty";
	const char* GetBlockName() override { return BlockName; }

	void Sync(NiStreamReversible& stream);
	void GetStringRefs(std::vector<NiStringRef*>& refs) override;
	void GetChildRefs(std::set<NiRef*>& refs) override;
	void GetChildIndices(std::vector<uint32_t>& indices) override;

	bool HasTextureSet() const override { return !textureSetRef.IsEmpty(); }
	NiBlockRef<BSShaderTextureSet>* TextureSetRef() override { return &textureSetRef; }
	const NiBlockRef<BSShaderTextureSet>* TextureSetRef() const override { return &textureSetRef; }

	bool IsSkinTinted() const override;
	bool IsFaceTinted() const override;
	bool HasGlowmap() const override;
	bool HasEnvironmentMapping() const override;
	uint32_t GetShaderType() const override;
	void SetShaderType(const uint32_t type) override;
	Vector3 GetSpecularColor() const override;
	void SetSpecularColor(const Vector3& color) override;
	float GetSpecularStrength() const override;
	void SetSpecularStrength(const float strength) override;
	float GetGlossiness() const override;
	void SetGlossiness(const float gloss) override;
	Color4 GetEmissiveColor() const override;
	void SetEmissiveColor(const Color4& color) override;
	float GetEmissiveMultiple() const override;
	void SetEmissiveMultiple(const float emissive) override;
	float GetAlpha() const override;
	void SetAlpha(const float alphaValue) override;
	float GetBacklightPower() const override;
	float GetRimlightPower() const override;
	float GetSoftlight() const override;
	float GetSubsurfaceRolloff() const override;
	float GetGrayscaleToPaletteScale() const override;
	float GetFresnelPower() const override;
	std::string GetWetMaterialName() const override;
	void SetWetMaterialName(const std::string& matName) override;
};

class BSEffectShaderProperty : public NiCloneableStreamable<BSEffectShaderProperty, BSShaderProperty> {
public:
	NiString sourceTexture;
	float unkFloat = 0.0f;
	uint32_t textureClampMode = 0;
	float falloffStartAngle = 1.0f;
	float falloffStopAngle = 1.0f;
	float falloffStartOpacity = 0.0f;
	float falloffStopOpacity = 0.0f;
	float refractionPower = 0.0f;
	Color4 baseColor;
	float baseColorScale = 1.0f;
	float softFalloffDepth = 0.0f;
	NiString greyscaleTexture;

	NiString envMapTexture;
	NiString normalTexture;
	NiString envMaskTexture;
	float envMapScale = 1.0f;

	NiString reflectanceTexture;
	NiString lightingTexture;
	Color3 emittanceColor;
	NiString emitGradientTexture;

	float lumEmittance = 100.0f;
	float exposureOffset = 13.5f;
	float finalExposureMin = 2.0f;
	float finalExposureMax = 3.0f;

	uint8_t unkBytes[7]{};
	float unkFloats[6]{};
	uint8_t unkByte1 = 0;

	static constexpr const char* BlockName = "BSEffectShaderProperty";
	const char* GetBlockName() override { return BlockName; }

	void Sync(NiStreamReversible& stream);

	float GetEnvironmentMapScale() const override;
	Color4 GetEmissiveColor() const override;
	void SetEmissiveColor(const Color4& color) override;
	float GetEmissiveMultiple() const override;
	void SetEmissiveMultiple(const float emissive) override;
};

class BSWaterShaderProperty : public NiCloneableStreamable<BSWaterShaderProperty, BSShaderProperty> {
public:
	uint32_t waterFlags = 0;

	static constexpr const char* BlockName = "BSWaterShaderProperty";
	const char* GetBlockName() override { return BlockName; }

	void Sync(NiStreamReversible& stream);
};

class BSSkyShaderProperty : public NiCloneableStreamable<BSSkyShaderProperty, BSShaderProperty> {
public:
	NiString baseTexture;
	uint32_t skyFlags = 0;

	static constexpr const char* BlockName = "BSSkyShaderProperty";
	const char* GetBlockName() override { return BlockName; }

	void Sync(NiStreamReversible& stream);
};

class BSShaderLightingProperty : public NiCloneableStreamable<BSShaderLightingProperty, BSShaderProperty> {
public:
	uint32_t textureClampMode = 3; // User Version <= 11

	void Sync(NiStreamReversible& stream);
};

enum SkyObjectType : uint32_t {
	BSSM_SKY_TEXTURE,
	BSSM_SKY_SUNGLARE,
	BSSM_SKY,
	BSSM_SKY_CLOUDS,
	BSSM_SKY_STARS = 5,
	BSSM_SKY_MOON_STARS_MASK = 7
};

class SkyShaderProperty : public NiCloneableStreamable<SkyShaderProperty, BSShaderLightingProperty> {
public:
	NiString fileName;
	SkyObjectType skyObjectType = BSSM_SKY_TEXTURE;

	static constexpr const char* BlockName = "SkyShaderProperty";
	const char* GetBlockName() override { return BlockName; }

	void Sync(NiStreamReversible& stream);
};

class TileShaderProperty : public NiCloneableStreamable<TileShaderProperty, BSShaderLightingProperty> {
public:
	NiString fileName;

	static constexpr const char* BlockName = "TileShaderProperty";
	const char* GetBlockName() override { return BlockName; }

	void Sync(NiStreamReversible& stream);
};

class BSShaderNoLightingProperty
	: public NiCloneableStreamable<BSShaderNoLightingProperty, BSShaderLightingProperty> {
public:
	NiString baseTexture;
	float falloffStartAngle = 1.0f;	  // User Version 2 > 26
	float falloffStopAngle = 0.0f;	  // User Version 2 > 26
	float falloffStartOpacity = 1.0f; // User Version 2 > 26
	float falloffStopOpacity = 1.0f;  // User Version 2 > 26

	static constexpr const char* BlockName = "BSShaderNoLightingProperty";
	const char* GetBlockName() override { return BlockName; }

	void Sync(NiStreamReversible& stream);

	bool IsSkinned() const override;
	void SetSkinned(const bool enable) override;
};

class BSShaderPPLightingProperty
	: public NiCloneableStreamable<BSShaderPPLightingProperty, BSShaderLightingProperty> {
public:
	NiBlockRef<BSShaderTextureSet> textureSetRef;

	float refractionStrength = 0.0f; // User Version == 11 && User Version 2 > 14
	int refractionFirePeriod = 0;	 // User Version == 11 && User Version 2 > 14
	float parallaxMaxPasses = 4.0f;	 // User Version == 11 && User Version 2 > 24
	float parallaxScale = 1.0f;		 // User Version == 11 && User Version 2 > 24
	Color4 emissiveColor;			 // User Version >= 12

	static constexpr const char* BlockName = "BSShaderPPLightingProperty";
	const char* GetBlockName() override { return BlockName; }

	void Sync(NiStreamReversible& stream);
	void GetChildRefs(std::set<NiRef*>& refs) override;
	void GetChildIndices(std::vector<uint32_t>& indices) override;

	bool HasTextureSet() const override { return !textureSetRef.IsEmpty(); }
	NiBlockRef<BSShaderTextureSet>* TextureSetRef() override { return &textureSetRef; }
	const NiBlockRef<BSShaderTextureSet>* TextureSetRef() const override { return &textureSetRef; }

	bool IsSkinned() const override;
	void SetSkinned(const bool enable) override;
};

class Lighting30ShaderProperty : public NiCloneable<Lighting30ShaderProperty, BSShaderPPLightingProperty> {
public:
	static constexpr const char* BlockName = "Lighting30ShaderProperty";
	const char* GetBlockName() override { return BlockName; }
};

class NiAlphaProperty : public NiCloneableStreamable<NiAlphaProperty, NiProperty> {
public:
	uint16_t flags = 4844;
	uint8_t threshold = 128;

	static constexpr const char* BlockName = "NiAlphaProperty";
	const char* GetBlockName() override { return BlockName; }

	void Sync(NiStreamReversible& stream);
};


class NiMaterialProperty : public NiCloneableStreamable<NiMaterialProperty, NiShader> {
protected:
	uint16_t legacyFlags = 0;
	Vector3 colorSpecular = Vector3(1.0f, 1.0f, 1.0f);
	Vector3 colorEmissive;
	float glossiness = 10.0f;
	float alpha = 1.0f;
	float emitMulti = 1.0f;

public:
	Vector3 colorAmbient = Vector3(1.0f, 1.0f, 1.0f);
	Vector3 colorDiffuse = Vector3(1.0f, 1.0f, 1.0f);

	static constexpr const char* BlockName = "NiMaterialProperty";
	const char* GetBlockName() override { return BlockName; }

	void Sync(NiStreamReversible& stream);

	bool IsEmissive() const override;
	bool HasSpecular() const override;
	void SetSpecularColor(const Vector3& color) override;
	Vector3 GetSpecularColor() const override;
	float GetGlossiness() const override;
	void SetGlossiness(const float gloss) override;
	Color4 GetEmissiveColor() const override;
	void SetEmissiveColor(const Color4& color) override;
	float GetEmissiveMultiple() const override;
	void SetEmissiveMultiple(const float emissive) override;
	float GetAlpha() const override;
	void SetAlpha(const float alpha) override;
};

enum StencilMasks {
	ENABLE_MASK = 0x0001,
	FAIL_MASK = 0x000E,
	FAIL_POS = 1,
	ZFAIL_MASK = 0x0070,
	ZFAIL_POS = 4,
	ZPASS_MASK = 0x0380,
	ZPASS_POS = 7,
	DRAW_MASK = 0x0C00,
	DRAW_POS = 10,
	TEST_MASK = 0x7000,
	TEST_POS = 12
};

enum DrawMode { DRAW_CCW_OR_BOTH, DRAW_CCW, DRAW_CW, DRAW_BOTH, DRAW_MAX };

class NiStencilProperty : public NiCloneableStreamable<NiStencilProperty, NiProperty> {
public:
	uint16_t legacyFlags = 0;
	uint16_t flags = 19840;
	bool stencilEnabled = false;
	uint32_t stencilFunction = 0;
	uint32_t stencilRef = 0;
	uint32_t stencilMask = 0xFFFFFFFF;
	uint32_t failAction = 0;
	uint32_t zFailAction = 0;
	uint32_t passAction = 0;
	uint32_t drawMode = 3;

	static constexpr const char* BlockName = "NiStencilProperty";
	const char* GetBlockName() override { return BlockName; }

	void Sync(NiStreamReversible& stream);
};
} // namespace nifly
