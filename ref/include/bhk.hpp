/*
nifly
C++ NIF library for the Gamebryo/NetImmerse File Format
See the included GPLv3 LICENSE file
*/

#pragma once

#include "Animation.hpp"
#include "BasicTypes.hpp"
#include "ExtraData.hpp"

namespace nifly {
using HavokMaterial = uint32_t;

struct HavokFilter {
	uint8_t layer = 1;
	uint8_t flagsAndParts = 0;
	uint16_t group = 0;
};

struct hkWorldObjCInfoProperty {
	uint32_t data = 0;
	uint32_t size = 0;
	uint32_t capacityAndFlags = 0x80000000;
};

enum MotorType : uint8_t { MOTOR_NONE = 0, MOTOR_POSITION = 1, MOTOR_VELOCITY = 2, MOTOR_SPRING = 3 };

struct bhkLimitedForceConstraintMotor {
	float minForce = -1000000.0f;
	float maxForce = 1000000.0f;
	bool motorEnabled = false;
};

struct bhkPositionConstraintMotor : bhkLimitedForceConstraintMotor {
	float tau = 0.8f;
	float damping = 1.0f;
	float proportionalRecoveryVelocity = 2.0f;
	float constantRecoveryVelocity = 1.0f;

	void Sync(NiStreamReversible& stream) {
		stream.Sync(minForce);
		stream.Sync(maxForce);
		stream.Sync(tau);
		stream.Sync(damping);
		stream.Sync(proportionalRecoveryVelocity);
		stream.Sync(constantRecoveryVelocity);
		stream.Sync(motorEnabled);
	}
};

struct bhkVelocityConstraintMotor : bhkLimitedForceConstraintMotor {
	float tau = 0.0f;
	float velocityTarget = 0.0f;
	bool useVelocityTargetFromConstraintTargets = 0.0f;

	void Sync(NiStreamReversible& stream) {
		stream.Sync(minForce);
		stream.Sync(maxForce);
		stream.Sync(tau);
		stream.Sync(velocityTarget);
		stream.Sync(useVelocityTargetFromConstraintTargets);
		stream.Sync(motorEnabled);
	}
};

struct bhkSpringDamperConstraintMotor : bhkLimitedForceConstraintMotor {
	float springConstant = 0.0f;
	float springDamping = 0.0f;

	void Sync(NiStreamReversible& stream) {
		stream.Sync(minForce);
		stream.Sync(maxForce);
		stream.Sync(springConstant);
		stream.Sync(springDamping);
		stream.Sync(motorEnabled);
	}
};

struct MotorDesc {
	MotorType motorType = MOTOR_NONE;
	bhkPositionConstraintMotor motorPosition;
	bhkVelocityConstraintMotor motorVelocity;
	bhkSpringDamperConstraintMotor motorSpringDamper;

	void Sync(NiStreamReversible& stream) {
		stream.Sync(motorType);

		switch (motorType) {
			case MOTOR_POSITION: motorPosition.Sync(stream); break;
			case MOTOR_VELOCITY: motorVelocity.Sync(stream); break;
			case MOTOR_SPRING: motorSpringDamper.Sync(stream); break;
			case MOTOR_NONE: break;
		}
	}
};

struct HingeDesc {
	Vector4 axleA;
	Vector4 axleInA1;
	Vector4 axleInA2;
	Vector4 pivotA;
	Vector4 axleB;
	Vector4 axleInB1;
	Vector4 axleInB2;
	Vector4 pivotB;

	void Sync(NiStreamReversible& stream) {
		if (stream.GetVersion().File() <= NiFileVersion::V20_0_0_5) {
			stream.Sync(pivotA);
			stream.Sync(axleInA1);
			stream.Sync(axleInA2);
			stream.Sync(pivotB);
			stream.Sync(axleB);
		}
		else if (stream.GetVersion().File() >= NiFileVersion::V20_2_0_7) {
			stream.Sync(axleA);
			stream.Sync(axleInA1);
			stream.Sync(axleInA2);
			stream.Sync(pivotA);
			stream.Sync(axleB);
			stream.Sync(axleInB1);
			stream.Sync(axleInB2);
			stream.Sync(pivotB);
		}
	}
};

struct LimitedHingeDesc {
	Vector4 axleA;
	Vector4 axleInA1;
	Vector4 axleInA2;
	Vector4 pivotA;
	Vector4 axleB;
	Vector4 axleInB1;
	Vector4 axleInB2;
	Vector4 pivotB;
	float minAngle = 0.0f;
	float maxAngle = 0.0f;
	float maxFriction = 0.0f;
	MotorDesc motorDesc;

	void Sync(NiStreamReversible& stream) {
		if (stream.GetVersion().Stream() <= 16) {
			stream.Sync(pivotA);
			stream.Sync(axleA);
			stream.Sync(axleInA1);
			stream.Sync(axleInA2);
			stream.Sync(pivotB);
			stream.Sync(axleB);
			stream.Sync(axleInB2);
		}
		else {
			stream.Sync(axleA);
			stream.Sync(axleInA1);
			stream.Sync(axleInA2);
			stream.Sync(pivotA);
			stream.Sync(axleB);
			stream.Sync(axleInB1);
			stream.Sync(axleInB2);
			stream.Sync(pivotB);
		}

		stream.Sync(minAngle);
		stream.Sync(maxAngle);
		stream.Sync(maxFriction);

		if (stream.GetVersion().File() >= NiFileVersion::V20_2_0_7 && stream.GetVersion().Stream() > 16)
			motorDesc.Sync(stream);
	}
};

struct RagdollDesc {
	Vector4 twistA;
	Vector4 planeA;
	Vector4 motorA;
	Vector4 pivotA;
	Vector4 twistB;
	Vector4 planeB;
	Vector4 motorB;
	Vector4 pivotB;
	float coneMaxAngle = 0.0f;
	float planeMinAngle = 0.0f;
	float planeMaxAngle = 0.0f;
	float twistMinAngle = 0.0f;
	float twistMaxAngle = 0.0f;
	float maxFriction = 0.0f;
	MotorDesc motorDesc;

	void Sync(NiStreamReversible& stream) {
		if (stream.GetVersion().Stream() <= 16) {
			stream.Sync(pivotA);
			stream.Sync(planeA);
			stream.Sync(twistA);
			stream.Sync(pivotB);
			stream.Sync(planeB);
			stream.Sync(twistB);
		}
		else {
			stream.Sync(twistA);
			stream.Sync(planeA);
			stream.Sync(motorA);
			stream.Sync(pivotA);
			stream.Sync(twistB);
			stream.Sync(planeB);
			stream.Sync(motorB);
			stream.Sync(pivotB);
		}

		stream.Sync(coneMaxAngle);
		stream.Sync(planeMinAngle);
		stream.Sync(planeMaxAngle);
		stream.Sync(twistMinAngle);
		stream.Sync(twistMaxAngle);
		stream.Sync(maxFriction);

		if (stream.GetVersion().File() >= NiFileVersion::V20_2_0_7 && stream.GetVersion().Stream() > 16)
			motorDesc.Sync(stream);
	}
};

struct StiffSpringDesc {
	Vector4 pivotA;
	Vector4 pivotB;
	float length = 0.0f;
};

struct BallAndSocketDesc {
	Vector4 translationA;
	Vector4 translationB;
};

struct PrismaticDesc {
	Vector4 slidingA;
	Vector4 rotationA;
	Vector4 planeA;
	Vector4 pivotA;
	Vector4 slidingB;
	Vector4 rotationB;
	Vector4 planeB;
	Vector4 pivotB;
	float minDistance = 0.0f;
	float maxDistance = 0.0f;
	float friction = 0.0f;
	MotorDesc motorDesc;

	void Sync(NiStreamReversible& stream) {
		if (stream.GetVersion().File() <= NiFileVersion::V20_0_0_5) {
			stream.Sync(pivotA);
			stream.Sync(rotationA);
			stream.Sync(planeA);
			stream.Sync(slidingA);
			stream.Sync(slidingB);
			stream.Sync(pivotB);
			stream.Sync(rotationB);
			stream.Sync(planeB);
		}
		else if (stream.GetVersion().File() >= NiFileVersion::V20_2_0_7) {
			stream.Sync(slidingA);
			stream.Sync(rotationA);
			stream.Sync(planeA);
			stream.Sync(pivotA);
			stream.Sync(slidingB);
			stream.Sync(rotationB);
			stream.Sync(planeB);
			stream.Sync(pivotB);
		}

		stream.Sync(minDistance);
		stream.Sync(maxDistance);
		stream.Sync(friction);

		if (stream.GetVersion().File() >= NiFileVersion::V20_2_0_7 && stream.GetVersion().Stream() > 16)
			motorDesc.Sync(stream);
	}
};

enum hkConstraintType : uint32_t {
	BallAndSocket = 0,
	Hinge = 1,
	LimitedHinge = 2,
	Prismatic = 6,
	Ragdoll = 7,
	StiffSpring = 8
};

struct bhkCMSDMaterial {
	HavokMaterial material = 0;
	HavokFilter layer;
};

class bhkCMSDBigTris {
public:
	uint16_t triangle1 = 0;
	uint16_t triangle2 = 0;
	uint16_t triangle3 = 0;
	HavokMaterial material = 0;
	uint16_t weldingInfo = 0;

	void Sync(NiStreamReversible& stream) {
		stream.Sync(triangle1);
		stream.Sync(triangle2);
		stream.Sync(triangle3);
		stream.Sync(material);
		stream.Sync(weldingInfo);
	}
};

struct bhkCMSDTransform {
	Vector4 translation;
	QuaternionXYZW rotation;
};

class bhkCMSDChunk {
public:
	Vector4 translation;
	uint32_t matIndex = 0;
	uint16_t reference = 0;
	uint16_t transformIndex = 0;

	NiVector<uint16_t> verts;
	NiVector<uint16_t> indices;
	NiVector<uint16_t> strips;
	NiVector<uint16_t> weldingInfo;

	void Sync(NiStreamReversible& stream) {
		stream.Sync(translation);
		stream.Sync(matIndex);
		stream.Sync(reference);
		stream.Sync(transformIndex);

		verts.Sync(stream);
		indices.Sync(stream);
		strips.Sync(stream);
		weldingInfo.Sync(stream);
	}
};

class NiAVObject;

class NiCollisionObject : public NiCloneableStreamable<NiCollisionObject, NiObject> {
public:
	NiBlockPtr<NiAVObject> targetRef;

	static constexpr const char* BlockName = "NiCollisionObject";
	const char* GetBlockName() override { return BlockName; }

	void Sync(NiStreamReversible& stream);
	void GetPtrs(std::set<NiPtr*>& ptrs) override;
};

enum PropagationMode : uint32_t {
	PROPAGATE_ON_SUCCESS,
	PROPAGATE_ON_FAILURE,
	PROPAGATE_ALWAYS,
	PROPAGATE_NEVER
};

enum CollisionMode : uint32_t { CM_USE_OBB, CM_USE_TRI, CM_USE_ABV, CM_NOTEST, CM_USE_NIBOUND };

enum BoundVolumeType : uint32_t {
	BASE_BV = 0xFFFFFFFF,
	SPHERE_BV = 0,
	BOX_BV = 1,
	CAPSULE_BV = 2,
	UNION_BV = 4,
	HALFSPACE_BV = 5
};

struct BoxBV {
	Vector3 center;
	Vector3 axis1;
	Vector3 axis2;
	Vector3 axis3;
	float extent1 = 0.0f;
	float extent2 = 0.0f;
	float extent3 = 0.0f;
};

struct CapsuleBV {
	Vector3 center;
	Vector3 origin;
	float extent = 0.0f;
	float radius = 0.0f;
};

struct HalfSpaceBV {
	NiPlane plane;
	Vector3 center;
};

struct UnionBV;

struct BoundingVolume {
	BoundVolumeType collisionType = BASE_BV;
	BoundingSphere bvSphere;
	BoxBV bvBox;
	CapsuleBV bvCapsule;
	std::unique_ptr<UnionBV> bvUnion = std::make_unique<UnionBV>();
	HalfSpaceBV bvHalfSpace;

	BoundingVolume() = default;

	BoundingVolume(const BoundingVolume& other)
		: collisionType(other.collisionType)
		, bvSphere(other.bvSphere)
		, bvBox(other.bvBox)
		, bvCapsule(other.bvCapsule)
		, bvUnion(std::make_unique<UnionBV>(*other.bvUnion))
		, bvHalfSpace(other.bvHalfSpace) {}

	void Sync(NiStreamReversible& stream);
};

struct UnionBV {
	uint32_t numBV = 0;
	std::vector<BoundingVolume> boundingVolumes;

	void Sync(NiStreamReversible& stream) {
		stream.Sync(numBV);
		boundingVolumes.resize(numBV);
		for (uint32_t i = 0; i < numBV; i++)
			boundingVolumes[i].Sync(stream);
	}
};

class NiCollisionData : public NiCloneableStreamable<NiCollisionData, NiCollisionObject> {
public:
	PropagationMode propagationMode = PROPAGATE_ON_SUCCESS;
	CollisionMode collisionMode = CM_USE_OBB;
	bool useABV = false;
	BoundingVolume boundingVolume;

	static constexpr const char* BlockName = "NiCollisionData";
	const char* GetBlockName() override { return BlockName; }

	void Sync(NiStreamReversible& stream);
};

class bhkNiCollisionObject : public NiCloneableStreamable<bhkNiCollisionObject, NiCollisionObject> {
public:
	uint16_t flags = 1;
	NiBlockRef<NiObject> bodyRef;

	static constexpr const char* BlockName = "bhkNiCollisionObject";
	const char* GetBlockName() override { return BlockName; }

	void Sync(NiStreamReversible& stream);
	void GetChildRefs(std::set<NiRef*>& refs) override;
	void GetChildIndices(std::vector<uint32_t>& indices) override;
};

class bhkCollisionObject : public NiCloneable<bhkCollisionObject, bhkNiCollisionObject> {
public:
	static constexpr const char* BlockName = "bhkCollisionObject";
	const char* GetBlockName() override { return BlockName; }
};

class bhkNPCollisionObject : public NiCloneableStreamable<bhkNPCollisionObject, bhkCollisionObject> {
public:
	uint32_t bodyID = 0;

	static constexpr const char* BlockName = "bhkNPCollisionObject";
	const char* GetBlockName() override { return BlockName; }

	void Sync(NiStreamReversible& stream);
};

class bhkPCollisionObject : public NiCloneable<bhkPCollisionObject, bhkNiCollisionObject> {
public:
	static constexpr const char* BlockName = "bhkPCollisionObject";
	const char* GetBlockName() override { return BlockName; }
};

class bhkSPCollisionObject : public NiCloneable<bhkSPCollisionObject, bhkPCollisionObject> {
public:
	static constexpr const char* BlockName = "bhkSPCollisionObject";
	const char* GetBlockName() override { return BlockName; }
};

class bhkBlendCollisionObject : public NiCloneableStreamable<bhkBlendCollisionObject, bhkCollisionObject> {
public:
	float heirGain = 0.0f;
	float velGain = 0.0f;

	static constexpr const char* BlockName = "bhkBlendCollisionObject";
	const char* GetBlockName() override { return BlockName; }

	void Sync(NiStreamReversible& stream);
};

class bhkPhysicsSystem : public NiCloneableStreamable<bhkPhysicsSystem, BSExtraData> {
public:
	NiVector<char> data;

	bhkPhysicsSystem(const uint32_t size = 0);

	static constexpr const char* BlockName = "bhkPhysicsSystem";
	const char* GetBlockName() override { return BlockName; }

	void Sync(NiStreamReversible& stream);
};

class bhkRagdollSystem : public NiCloneableStreamable<bhkRagdollSystem, BSExtraData> {
public:
	NiVector<char> data;

	bhkRagdollSystem(const uint32_t size = 0);

	static constexpr const char* BlockName = "bhkRagdollSystem";
	const char* GetBlockName() override { return BlockName; }

	void Sync(NiStreamReversible& stream);
};

class bhkBlendController : public NiCloneableStreamable<bhkBlendController, NiTimeController> {
public:
	uint32_t keys = 0;

	static constexpr const char* BlockName = "bhkBlendController";
	const char* GetBlockName() override { return BlockName; }

	void Sync(NiStreamReversible& stream);
};

class bhkRefObject : public NiCloneable<bhkRefObject, NiObject> {};

class bhkSerializable : public NiCloneable<bhkSerializable, bhkRefObject> {};

class bhkShape : public NiCloneable<bhkShape, bhkSerializable> {
public:
	virtual HavokMaterial GetMaterial() const { return 0; }
	virtual void SetMaterial(HavokMaterial) {}
};

class bhkHeightFieldShape : public NiCloneableStreamable<bhkHeightFieldShape, bhkShape> {
protected:
	HavokMaterial material = 0;

public:
	void Sync(NiStreamReversible& stream);

	HavokMaterial GetMaterial() const override { return material; }
	void SetMaterial(HavokMaterial mat) override { material = mat; }
};

class bhkPlaneShape : public NiCloneableStreamable<bhkPlaneShape, bhkHeightFieldShape> {
protected:
public:
	Vector3 unkVec;
	NiPlane plane;
	Vector4 halfExtents;
	Vector4 center;

	static constexpr const char* BlockName = "bhkPlaneShape";
	const char* GetBlockName() override { return BlockName; }

	void Sync(NiStreamReversible& stream);
};

class bhkSphereRepShape : public NiCloneableStreamable<bhkSphereRepShape, bhkShape> {
protected:
	HavokMaterial material = 0;

public:
	void Sync(NiStreamReversible& stream);

	HavokMaterial GetMaterial() const override { return material; }
	void SetMaterial(HavokMaterial mat) override { material = mat; }
};

class bhkConvexShape : public NiCloneableStreamable<bhkConvexShape, bhkSphereRepShape> {
public:
	float radius = 0.0f;

	void Sync(NiStreamReversible& stream);
};

class bhkMultiSphereShape : public NiCloneableStreamable<bhkMultiSphereShape, bhkSphereRepShape> {
public:
	hkWorldObjCInfoProperty shapeProperty;
	NiVector<BoundingSphere> spheres;

	static constexpr const char* BlockName = "bhkMultiSphereShape";
	const char* GetBlockName() override { return BlockName; }

	void Sync(NiStreamReversible& stream);
};

class bhkConvexListShape : public NiCloneableStreamable<bhkConvexListShape, bhkShape> {
public:
	NiBlockRefArray<bhkConvexShape> shapeRefs;
	HavokMaterial material = 0;
	float radius = 0.0f;
	uint32_t unkInt1 = 0;
	float unkFloat1 = 0.0f;
	hkWorldObjCInfoProperty childShapeProp;
	bool useCachedAABB = false;
	float closestPointMinDistance = 0.0f;

	static constexpr const char* BlockName = "bhkConvexListShape";
	const char* GetBlockName() override { return BlockName; }

	void Sync(NiStreamReversible& stream);
	void GetChildRefs(std::set<NiRef*>& refs) override;
	void GetChildIndices(std::vector<uint32_t>& indices) override;
};

class bhkConvexVerticesShape : public NiCloneableStreamable<bhkConvexVerticesShape, bhkConvexShape> {
public:
	hkWorldObjCInfoProperty vertsProp;
	hkWorldObjCInfoProperty normalsProp;

	NiVector<Vector4> verts;
	NiVector<Vector4> normals;

	static constexpr const char* BlockName = "bhkConvexVerticesShape";
	const char* GetBlockName() override { return BlockName; }

	void Sync(NiStreamReversible& stream);
};

class bhkBoxShape : public NiCloneableStreamable<bhkBoxShape, bhkConvexShape> {
private:
	uint64_t padding = 0;

public:
	Vector3 dimensions;
	float radius2 = 0.0f;

	static constexpr const char* BlockName = "bhkBoxShape";
	const char* GetBlockName() override { return BlockName; }

	void Sync(NiStreamReversible& stream);
};

class bhkSphereShape : public NiCloneable<bhkSphereShape, bhkConvexShape> {
public:
	static constexpr const char* BlockName = "bhkSphereShape";
	const char* GetBlockName() override { return BlockName; }
};

class bhkCylinderShape : public NiCloneableStreamable<bhkCylinderShape, bhkConvexShape> {
private:
	uint8_t unused1[8]{};
	uint8_t unused2[12]{};

public:
	Vector4 vertexA;
	Vector4 vertexB;
	float cylinderRadius = 0.0f;

	static constexpr const char* BlockName = "bhkCylinderShape";
	const char* GetBlockName() override { return BlockName; }

	void Sync(NiStreamReversible& stream);
};

class bhkTransformShape : public NiCloneableStreamable<bhkTransformShape, bhkShape> {
private:
	uint64_t padding = 0;

public:
	NiBlockRef<bhkShape> shapeRef;
	HavokMaterial material = 0;
	float radius = 0.0f;
	Matrix4 xform;

	static constexpr const char* BlockName = "bhkTransformShape";
	const char* GetBlockName() override { return BlockName; }

	void Sync(NiStreamReversible& stream);
	void GetChildRefs(std::set<NiRef*>& refs) override;
	void GetChildIndices(std::vector<uint32_t>& indices) override;
};

class bhkConvexTransformShape : public NiCloneable<bhkConvexTransformShape, bhkTransformShape> {
public:
	static constexpr const char* BlockName = "bhkConvexTransformShape";
	const char* GetBlockName() override { return BlockName; }
};

class bhkCapsuleShape : public NiCloneableStreamable<bhkCapsuleShape, bhkConvexShape> {
private:
	uint64_t padding = 0;

public:
	Vector3 point1;
	float radius1 = 0.0f;
	Vector3 point2;
	float radius2 = 0.0f;

	static constexpr const char* BlockName = "bhkCapsuleShape";
	const char* GetBlockName() override { return BlockName; }

	void Sync(NiStreamReversible& stream);
};

class bhkBvTreeShape : public NiCloneable<bhkBvTreeShape, bhkShape> {};

class bhkMoppBvTreeShape : public NiCloneableStreamable<bhkMoppBvTreeShape, bhkBvTreeShape> {
public:
	NiBlockRef<bhkShape> shapeRef;
	uint32_t userData = 0;
	uint32_t shapeCollection = 0;
	uint32_t code = 0;
	float scale = 0.0f;
	NiVector<uint8_t> data;
	Vector4 offset;
	uint8_t buildType = 2; // User Version >= 12

	static constexpr const char* BlockName = "bhkMoppBvTreeShape";
	const char* GetBlockName() override { return BlockName; }

	void Sync(NiStreamReversible& stream);
	void GetChildRefs(std::set<NiRef*>& refs) override;
	void GetChildIndices(std::vector<uint32_t>& indices) override;
};

class NiTriStripsData;

class bhkNiTriStripsShape : public NiCloneableStreamable<bhkNiTriStripsShape, bhkShape> {
protected:
	HavokMaterial material = 0;

public:
	float radius = 0.1f;
	uint32_t unused1 = 0;
	uint32_t unused2 = 0;
	uint32_t unused3 = 0;
	uint32_t unused4 = 0;
	uint32_t unused5 = 0;
	uint32_t growBy = 1;
	Vector4 scale = Vector4(1.0f, 1.0f, 1.0f, 1.0f);

	NiBlockRefArray<NiTriStripsData> partRefs;
	NiVector<uint32_t> filters;

	static constexpr const char* BlockName = "bhkNiTriStripsShape";
	const char* GetBlockName() override { return BlockName; }

	void Sync(NiStreamReversible& stream);
	void GetChildRefs(std::set<NiRef*>& refs) override;
	void GetChildIndices(std::vector<uint32_t>& indices) override;

	HavokMaterial GetMaterial() const override { return material; }
	void SetMaterial(HavokMaterial mat) override { material = mat; }
};

class bhkShapeCollection : public NiCloneable<bhkShapeCollection, bhkShape> {};

class bhkListShape : public NiCloneableStreamable<bhkListShape, bhkShapeCollection> {
protected:
	HavokMaterial material = 0;

public:
	NiBlockRefArray<bhkShape> subShapeRefs;
	hkWorldObjCInfoProperty childShapeProp;
	hkWorldObjCInfoProperty childFilterProp;
	NiVector<HavokFilter> filters;

	static constexpr const char* BlockName = "bhkListShape";
	const char* GetBlockName() override { return BlockName; }

	void Sync(NiStreamReversible& stream);
	void GetChildRefs(std::set<NiRef*>& refs) override;
	void GetChildIndices(std::vector<uint32_t>& indices) override;

	HavokMaterial GetMaterial() const override { return material; }
	void SetMaterial(HavokMaterial mat) override { material = mat; }
};

struct hkTriangleData {
	Triangle tri;
	uint16_t weldingInfo = 0;
};

struct hkTriangleNormalData {
	Triangle tri;
	uint16_t weldingInfo = 0;
	Vector3 normal;
};

struct hkSubPartData {
	HavokFilter filter;
	uint32_t numVerts = 0;
	HavokMaterial material = 0;
};

class hkPackedNiTriStripsData : public NiCloneableStreamable<hkPackedNiTriStripsData, bhkShapeCollection> {
public:
	uint32_t keyCount = 0;
	std::vector<hkTriangleData> triData;
	std::vector<hkTriangleNormalData> triNormData;

	uint32_t numVerts = 0;
	bool compressed = false;
	std::vector<Vector3> compressedVertData;

	NiVector<hkSubPartData, uint16_t> subPartData;

	static constexpr const char* BlockName = "hkPackedNiTriStripsData";
	const char* GetBlockName() override { return BlockName; }

	void Sync(NiStreamReversible& stream);
};

class bhkPackedNiTriStripsShape
	: public NiCloneableStreamable<bhkPackedNiTriStripsShape, bhkShapeCollection> {
private:
	uint32_t unused1 = 0;
	uint32_t unused2 = 0;

public:
	NiVector<hkSubPartData, uint16_t> subPartData;

	uint32_t userData = 0;
	float radius = 0.0f;
	Vector4 scaling;
	float radius2 = 0.0f;
	Vector4 scaling2;
	NiBlockRef<hkPackedNiTriStripsData> dataRef;

	static constexpr const char* BlockName = "bhkPackedNiTriStripsShape";
	const char* GetBlockName() override { return BlockName; }

	void Sync(NiStreamReversible& stream);
	void GetChildRefs(std::set<NiRef*>& refs) override;
	void GetChildIndices(std::vector<uint32_t>& indices) override;
};

class bhkLiquidAction : public NiCloneableStreamable<bhkLiquidAction, bhkSerializable> {
public:
	uint32_t userData = 0;
	uint32_t unkInt1 = 0;
	uint32_t unkInt2 = 0;
	float initialStickForce = 0.0f;
	float stickStrength = 0.0f;
	float neighborDistance = 0.0f;
	float neighborStrength = 0.0f;

	static constexpr const char* BlockName = "bhkLiquidAction";
	const char* GetBlockName() override { return BlockName; }

	void Sync(NiStreamReversible& stream);
};

class bhkOrientHingedBodyAction : public NiCloneableStreamable<bhkOrientHingedBodyAction, bhkSerializable> {
private:
	uint64_t padding = 0;
	uint64_t padding2 = 0;

public:
	NiBlockPtr<NiObject> bodyRef;
	uint32_t unkInt1 = 0;
	uint32_t unkInt2 = 0;
	Vector4 hingeAxisLS;
	Vector4 forwardLS;
	float strength = 0.0f;
	float damping = 0.0f;

	static constexpr const char* BlockName = "bhkOrientHingedBodyAction";
	const char* GetBlockName() override { return BlockName; }

	void Sync(NiStreamReversible& stream);
	void GetPtrs(std::set<NiPtr*>& ptrs) override;
};

class bhkWorldObject : public NiCloneableStreamable<bhkWorldObject, bhkSerializable> {
public:
	NiBlockRef<bhkShape> shapeRef;
	HavokFilter collisionFilter;
	int unkInt1 = 0;
	uint8_t broadPhaseType = 0;
	uint8_t unkBytes[3]{};
	hkWorldObjCInfoProperty prop;

	void Sync(NiStreamReversible& stream);
	void GetChildRefs(std::set<NiRef*>& refs) override;
	void GetChildIndices(std::vector<uint32_t>& indices) override;
};

class bhkPhantom : public NiCloneable<bhkPhantom, bhkWorldObject> {};

class bhkShapePhantom : public NiCloneable<bhkShapePhantom, bhkPhantom> {};

class bhkSimpleShapePhantom : public NiCloneableStreamable<bhkSimpleShapePhantom, bhkShapePhantom> {
private:
	uint64_t padding = 0;

public:
	Matrix4 transform;

	static constexpr const char* BlockName = "bhkSimpleShapePhantom";
	const char* GetBlockName() override { return BlockName; }

	void Sync(NiStreamReversible& stream);
};

class bhkAabbPhantom : public NiCloneableStreamable<bhkAabbPhantom, bhkShapePhantom> {
private:
	uint64_t padding = 0;

public:
	Vector4 aabbMin;
	Vector4 aabbMax;

	static constexpr const char* BlockName = "bhkAabbPhantom";
	const char* GetBlockName() override { return BlockName; }

	void Sync(NiStreamReversible& stream);
};

class bhkEntity : public NiCloneable<bhkEntity, bhkWorldObject> {};

enum hkResponseType : uint8_t {
	RESPONSE_INVALID,
	RESPONSE_SIMPLE_CONTACT,
	RESPONSE_REPORTING,
	RESPONSE_NONE
};

class bhkRigidBody : public NiCloneableStreamable<bhkRigidBody, bhkEntity> {
public:
	hkResponseType collisionResponse = RESPONSE_SIMPLE_CONTACT;
	uint8_t unusedByte1 = 0;
	uint16_t processContactCallbackDelay = 0xFFFF;
	uint32_t unkInt1 = 0;
	HavokFilter collisionFilterCopy;
	uint16_t unkShorts2[6]{};
	Vector4 translation;
	QuaternionXYZW rotation;
	Vector4 linearVelocity;
	Vector4 angularVelocity;
	float inertiaMatrix[12]{};
	Vector4 center;
	float mass = 1.0f;
	float linearDamping = 0.1f;
	float angularDamping = 0.05f;
	float timeFactor = 1.0f;	// User Version >= 12
	float gravityFactor = 1.0f; // User Version >= 12
	float friction = 0.5f;
	float rollingFrictionMult = 1.0f; // User Version >= 12
	float restitution = 0.4f;
	float maxLinearVelocity = 104.4f;
	float maxAngularVelocity = 31.57f;
	float penetrationDepth = 0.15f;
	uint8_t motionSystem = 1;
	uint8_t deactivatorType = 1;
	uint8_t solverDeactivation = 1;
	uint8_t qualityType = 1;
	uint8_t autoRemoveLevel = 0;
	uint8_t responseModifierFlag = 0;
	uint8_t numShapeKeysInContactPointProps = 0;
	bool forceCollideOntoPpu = false;
	uint32_t unusedInts1[3]{};
	uint8_t unusedBytes2[3]{};
	NiBlockRefArray<bhkSerializable> constraintRefs;
	uint32_t bodyFlagsInt = 0;
	uint16_t bodyFlags = 0;

	static constexpr const char* BlockName = "bhkRigidBody";
	const char* GetBlockName() override { return BlockName; }

	void Sync(NiStreamReversible& stream);
	void GetChildRefs(std::set<NiRef*>& refs) override;
	void GetChildIndices(std::vector<uint32_t>& indices) override;
};

class bhkRigidBodyT : public NiCloneable<bhkRigidBodyT, bhkRigidBody> {
public:
	static constexpr const char* BlockName = "bhkRigidBodyT";
	const char* GetBlockName() override { return BlockName; }
};

class bhkConstraint : public NiCloneableStreamable<bhkConstraint, bhkSerializable> {
public:
	NiBlockPtrArray<bhkEntity> entityRefs;
	uint32_t priority = 0;

	void Sync(NiStreamReversible& stream);
	void GetPtrs(std::set<NiPtr*>& ptrs) override;
};

class bhkHingeConstraint : public NiCloneableStreamable<bhkHingeConstraint, bhkConstraint> {
public:
	HingeDesc hinge;

	static constexpr const char* BlockName = "bhkHingeConstraint";
	const char* GetBlockName() override { return BlockName; }

	void Sync(NiStreamReversible& stream);
};

class bhkLimitedHingeConstraint : public NiCloneableStreamable<bhkLimitedHingeConstraint, bhkConstraint> {
public:
	LimitedHingeDesc limitedHinge;

	static constexpr const char* BlockName = "bhkLimitedHingeConstraint";
	const char* GetBlockName() override { return BlockName; }

	void Sync(NiStreamReversible& stream);
};

class ConstraintData {
public:
	hkConstraintType type = BallAndSocket;
	NiBlockRefArray<bhkEntity> entityRefs;
	uint32_t priority = 1;

	BallAndSocketDesc desc1;
	HingeDesc desc2;
	LimitedHingeDesc desc3;
	PrismaticDesc desc4;
	RagdollDesc desc5;
	StiffSpringDesc desc6;

	float tau = 0.0f;
	float damping = 0.0f;
	float strength = 0.0f;

	void Sync(NiStreamReversible& stream);
	void GetPtrs(std::set<NiPtr*>& ptrs);
};

class bhkBreakableConstraint : public NiCloneableStreamable<bhkBreakableConstraint, bhkConstraint> {
public:
	ConstraintData subConstraint;
	bool removeWhenBroken = false;

	static constexpr const char* BlockName = "bhkBreakableConstraint";
	const char* GetBlockName() override { return BlockName; }

	void Sync(NiStreamReversible& stream);
	void GetPtrs(std::set<NiPtr*>& ptrs) override;
};

class bhkRagdollConstraint : public NiCloneableStreamable<bhkRagdollConstraint, bhkConstraint> {
public:
	RagdollDesc ragdoll;

	static constexpr const char* BlockName = "bhkRagdollConstraint";
	const char* GetBlockName() override { return BlockName; }

	void Sync(NiStreamReversible& stream);
};

class bhkStiffSpringConstraint : public NiCloneableStreamable<bhkStiffSpringConstraint, bhkConstraint> {
public:
	StiffSpringDesc stiffSpring;

	static constexpr const char* BlockName = "bhkStiffSpringConstraint";
	const char* GetBlockName() override { return BlockName; }

	void Sync(NiStreamReversible& stream);
};

class bhkPrismaticConstraint : public NiCloneableStreamable<bhkPrismaticConstraint, bhkConstraint> {
public:
	PrismaticDesc prismatic;

	static constexpr const char* BlockName = "bhkPrismaticConstraint";
	const char* GetBlockName() override { return BlockName; }

	void Sync(NiStreamReversible& stream);
};

class bhkMalleableConstraint : public NiCloneableStreamable<bhkMalleableConstraint, bhkConstraint> {
public:
	ConstraintData subConstraint;

	static constexpr const char* BlockName = "bhkMalleableConstraint";
	const char* GetBlockName() override { return BlockName; }

	void Sync(NiStreamReversible& stream);
	void GetPtrs(std::set<NiPtr*>& ptrs) override;
};

class bhkBallAndSocketConstraint : public NiCloneableStreamable<bhkBallAndSocketConstraint, bhkConstraint> {
public:
	BallAndSocketDesc ballAndSocket;

	static constexpr const char* BlockName = "bhkBallAndSocketConstraint";
	const char* GetBlockName() override { return BlockName; }

	void Sync(NiStreamReversible& stream);
};

class bhkBallSocketConstraintChain
	: public NiCloneableStreamable<bhkBallSocketConstraintChain, bhkSerializable> {
public:
	NiVector<Vector4> pivots;

	float tau = 1.0f;
	float damping = 0.6f;
	float cfm = 1.1920929e-08f;
	float maxErrorDistance = 0.1f;

	NiBlockPtrArray<bhkRigidBody> chainedEntityRefs;

	uint32_t numEntities = 2; // Always 2
	NiBlockPtr<bhkEntity> entityARef;
	NiBlockPtr<bhkEntity> entityBRef;
	uint32_t priority = 0;

	static constexpr const char* BlockName = "bhkBallSocketConstraintChain";
	const char* GetBlockName() override { return BlockName; }

	void Sync(NiStreamReversible& stream);
	void GetPtrs(std::set<NiPtr*>& ptrs) override;
};

class bhkCompressedMeshShapeData : public NiCloneableStreamable<bhkCompressedMeshShapeData, bhkRefObject> {
public:
	uint32_t bitsPerIndex = 0;
	uint32_t bitsPerWIndex = 0;
	uint32_t maskWIndex = 0;
	uint32_t maskIndex = 0;
	float error = 0.0f;
	Vector4 aabbBoundMin;
	Vector4 aabbBoundMax;
	uint8_t weldingType = 0;
	uint8_t materialType = 0;

	NiVector<uint32_t> mat32;
	NiVector<uint32_t> mat16;
	NiVector<uint32_t> mat8;

	NiVector<bhkCMSDMaterial> materials;

	uint32_t numNamedMat = 0;

	NiVector<bhkCMSDTransform> transforms;
	NiVector<Vector4> bigVerts;

	NiSyncVector<bhkCMSDBigTris> bigTris;
	NiSyncVector<bhkCMSDChunk> chunks;

	uint32_t numConvexPieceA = 0;

	static constexpr const char* BlockName = "bhkCompressedMeshShapeData";
	const char* GetBlockName() override { return BlockName; }

	void Sync(NiStreamReversible& stream);
};

class bhkCompressedMeshShape : public NiCloneableStreamable<bhkCompressedMeshShape, bhkShape> {
public:
	NiBlockPtr<NiAVObject> targetRef;
	uint32_t userData = 0;
	float radius = 0.005f;
	float unkFloat = 0.0f;
	Vector4 scaling = Vector4(1.0f, 1.0f, 1.0f, 1.0f);
	float radius2 = 0.005f;
	Vector4 scaling2 = Vector4(1.0f, 1.0f, 1.0f, 1.0f);
	NiBlockRef<bhkCompressedMeshShapeData> dataRef;

	static constexpr const char* BlockName = "bhkCompressedMeshShape";
	const char* GetBlockName() override { return BlockName; }

	void Sync(NiStreamReversible& stream);
	void GetChildRefs(std::set<NiRef*>& refs) override;
	void GetChildIndices(std::vector<uint32_t>& indices) override;
	void GetPtrs(std::set<NiPtr*>& ptrs) override;
};

struct BoneMatrix {
	Vector3 translation;
	QuaternionXYZW rotation;
	Vector3 scale;
};

class BonePose {
public:
	NiVector<BoneMatrix> matrices;

	void Sync(NiStreamReversible& stream) { matrices.Sync(stream); }
};

class bhkPoseArray : public NiCloneableStreamable<bhkPoseArray, NiObject> {
public:
	NiStringRefVector<> bones;
	NiSyncVector<BonePose> poses;

	static constexpr const char* BlockName = "bhkPoseArray";
	const char* GetBlockName() override { return BlockName; }

	void Sync(NiStreamReversible& stream);
	void GetStringRefs(std::vector<NiStringRef*>& refs) override;
};

class bhkRagdollTemplate : public NiCloneableStreamable<bhkRagdollTemplate, NiExtraData> {
public:
	NiBlockRefArray<NiObject> boneRefs;

	static constexpr const char* BlockName = "bhkRagdollTemplate";
	const char* GetBlockName() override { return BlockName; }

	void Sync(NiStreamReversible& stream);
	void GetChildRefs(std::set<NiRef*>& refs) override;
	void GetChildIndices(std::vector<uint32_t>& indices) override;
};

class bhkRagdollTemplateData : public NiCloneableStreamable<bhkRagdollTemplateData, NiObject> {
public:
	NiStringRef name;
	float mass = 9.0f;
	float restitution = 0.8f;
	float friction = 0.3f;
	float radius = 1.0f;
	HavokMaterial material = 7;
	NiSyncVector<ConstraintData> constraints;

	static constexpr const char* BlockName = "bhkRagdollTemplateData";
	const char* GetBlockName() override { return BlockName; }

	void Sync(NiStreamReversible& stream);
	void GetStringRefs(std::vector<NiStringRef*>& refs) override;
	void GetPtrs(std::set<NiPtr*>& ptrs) override;
};
} // namespace nifly
