/*
nifly
C++ NIF library for the Gamebryo/NetImmerse File Format
See the included GPLv3 LICENSE file
*/

#pragma once

#include "Animation.hpp"
#include "BasicTypes.hpp"
#include "ExtraData.hpp"

namespace nifly {
class NiObjectNET : public NiCloneableStreamable<NiObjectNET, NiObject> {
public:
	NiStringRef name;

	bool bBSLightingShaderProperty = false;
	uint32_t bslspShaderType = 0; // BSLightingShaderProperty && User Version >= 12

	NiBlockRef<NiTimeController> controllerRef;
	NiBlockRefArray<NiExtraData> extraDataRefs;

	void Sync(NiStreamReversible& stream);
	void GetStringRefs(std::vector<NiStringRef*>& refs) override;
	void GetChildRefs(std::set<NiRef*>& refs) override;
	void GetChildIndices(std::vector<uint32_t>& indices) override;
};

class NiProperty;
class NiCollisionObject;

class NiAVObject : public NiCloneableStreamable<NiAVObject, NiObjectNET> {
public:
	uint32_t flags = 524302;
	/* "transform" is the coordinate system (CS) transform from this
	object's CS to its parent's CS.
	Recommendation: rename "transform" to "transformToParent". */
	MatTransform transform;

	NiBlockRefArray<NiProperty> propertyRefs;
	NiBlockRef<NiCollisionObject> collisionRef;

	void Sync(NiStreamReversible& stream);
	void GetChildRefs(std::set<NiRef*>& refs) override;
	void GetChildIndices(std::vector<uint32_t>& indices) override;

	const MatTransform& GetTransformToParent() const { return transform; }
	void SetTransformToParent(const MatTransform& t) { transform = t; }
};

class AVObject {
public:
	NiString name;
	NiBlockPtr<NiAVObject> objectRef;

	void Sync(NiStreamReversible& stream) {
		name.Sync(stream, 4);
		objectRef.Sync(stream);
	}

	void GetPtrs(std::set<NiPtr*>& ptrs) { ptrs.insert(&objectRef); }
};

class NiAVObjectPalette : public NiCloneable<NiAVObjectPalette, NiObject> {};

class NiDefaultAVObjectPalette : public NiCloneableStreamable<NiDefaultAVObjectPalette, NiAVObjectPalette> {
public:
	NiBlockPtr<NiAVObject> sceneRef;
	NiSyncVector<AVObject> objects;

	static constexpr const char* BlockName = "NiDefaultAVObjectPalette";
	const char* GetBlockName() override { return BlockName; }

	void Sync(NiStreamReversible& stream);
	void GetPtrs(std::set<NiPtr*>& ptrs) override;
};

class NiCamera : public NiCloneableStreamable<NiCamera, NiAVObject> {
public:
	uint16_t obsoleteFlags = 0;
	float frustumLeft = 0.0f;
	float frustumRight = 0.0f;
	float frustumTop = 0.0f;
	float frustomBottom = 0.0f;
	float frustumNear = 0.0f;
	float frustumFar = 0.0f;
	bool useOrtho = false;
	float viewportLeft = 0.0f;
	float viewportRight = 0.0f;
	float viewportTop = 0.0f;
	float viewportBottom = 0.0f;
	float lodAdjust = 0.0f;

	NiBlockRef<NiAVObject> sceneRef;
	uint32_t numScreenPolygons = 0;
	uint32_t numScreenTextures = 0;

	static constexpr const char* BlockName = "NiCamera";
	const char* GetBlockName() override { return BlockName; }

	void Sync(NiStreamReversible& stream);
	void GetChildRefs(std::set<NiRef*>& refs) override;
	void GetChildIndices(std::vector<uint32_t>& indices) override;
};

class NiSequenceStreamHelper : public NiCloneable<NiSequenceStreamHelper, NiObjectNET> {
public:
	static constexpr const char* BlockName = "NiSequenceStreamHelper";
	const char* GetBlockName() override { return BlockName; }
};

class NiPalette : public NiCloneableStreamable<NiPalette, NiObject> {
public:
	bool hasAlpha = false;
	NiVector<ByteColor4> palette = NiVector<ByteColor4>(256);

	static constexpr const char* BlockName = "NiPalette";
	const char* GetBlockName() override { return BlockName; }

	void Sync(NiStreamReversible& stream);
};

enum PixelFormat : uint32_t {
	PX_FMT_RGB8,
	PX_FMT_RGBA8,
	PX_FMT_PAL8,
	PX_FMT_DXT1 = 4,
	PX_FMT_DXT5 = 5,
	PX_FMT_DXT5_ALT = 6,
};

enum PixelTiling : uint32_t { PX_TILE_NONE, PX_TILE_XENON, PX_TILE_WII, PX_TILE_NV_SWIZZLED };

enum PixelComponent : uint32_t {
	PX_COMP_RED,
	PX_COMP_GREEN,
	PX_COMP_BLUE,
	PX_COMP_ALPHA,
	PX_COMP_COMPRESSED,
	PX_COMP_OFFSET_U,
	PX_COMP_OFFSET_V,
	PX_COMP_OFFSET_W,
	PX_COMP_OFFSET_Q,
	PX_COMP_LUMA,
	PX_COMP_HEIGHT,
	PX_COMP_VECTOR_X,
	PX_COMP_VECTOR_Y,
	PX_COMP_VECTOR_Z,
	PX_COMP_PADDING,
	PX_COMP_INTENSITY,
	PX_COMP_INDEX,
	PX_COMP_DEPTH,
	PX_COMP_STENCIL,
	PX_COMP_EMPTY
};

enum PixelRepresentation : uint32_t {
	PX_REP_NORM_INT,
	PX_REP_HALF,
	PX_REP_FLOAT,
	PX_REP_INDEX,
	PX_REP_COMPRESSED,
	PX_REP_UNKNOWN,
	PX_REP_INT
};

struct PixelFormatComponent {
	PixelComponent type = PX_COMP_RED;
	PixelRepresentation convention = PX_REP_NORM_INT;
	uint8_t bitsPerChannel = 0;
	bool isSigned = false;
};

struct MipMapInfo {
	uint32_t width = 0;
	uint32_t height = 0;
	uint32_t offset = 0;
};

class TextureRenderData : public NiCloneableStreamable<TextureRenderData, NiObject> {
public:
	PixelFormat pixelFormat = PX_FMT_RGB8;
	uint8_t bitsPerPixel = 0;
	uint32_t rendererHint = 0xFFFFFFFF;
	uint32_t extraData = 0;
	uint8_t flags = 0;
	PixelTiling pixelTiling = PX_TILE_NONE;

	PixelFormatComponent channels[4]{};
	NiBlockRef<NiPalette> paletteRef;

	NiVector<MipMapInfo> mipmaps;
	uint32_t bytesPerPixel = 0;

	void Sync(NiStreamReversible& stream);
	void GetChildRefs(std::set<NiRef*>& refs) override;
	void GetChildIndices(std::vector<uint32_t>& indices) override;
};

enum PlatformID : uint32_t { PLAT_ANY, PLAT_XENON, PLAT_PS3, PLAT_DX9, PLAT_WII, PLAT_D3D10 };

class NiPersistentSrcTextureRendererData
	: public NiCloneableStreamable<NiPersistentSrcTextureRendererData, TextureRenderData> {
public:
	uint32_t numPixels = 0;
	uint32_t padNumPixels = 0;
	uint32_t numFaces = 0;
	PlatformID platform = PLAT_ANY;

	std::vector<std::vector<uint8_t>> pixelData;

	static constexpr const char* BlockName = "NiPersistentSrcTextureRendererData";
	const char* GetBlockName() override { return BlockName; }

	void Sync(NiStreamReversible& stream);
};

class NiPixelData : public NiCloneableStreamable<NiPixelData, TextureRenderData> {
public:
	uint32_t numPixels = 0;
	uint32_t numFaces = 0;

	std::vector<std::vector<uint8_t>> pixelData;

	static constexpr const char* BlockName = "NiPixelData";
	const char* GetBlockName() override { return BlockName; }

	void Sync(NiStreamReversible& stream);
};

enum PixelLayout : uint32_t {
	PX_LAY_PALETTIZED_8,
	PX_LAY_HIGH_COLOR_16,
	PX_LAY_TRUE_COLOR_32,
	PX_LAY_COMPRESSED,
	PX_LAY_BUMPMAP,
	PX_LAY_PALETTIZED_4,
	PX_LAY_DEFAULT,
	PX_LAY_SINGLE_COLOR_8,
	PX_LAY_SINGLE_COLOR_16,
	PX_LAY_SINGLE_COLOR_32,
	PX_LAY_DOUBLE_COLOR_32,
	PX_LAY_DOUBLE_COLOR_64,
	PX_LAY_FLOAT_COLOR_32,
	PX_LAY_FLOAT_COLOR_64,
	PX_LAY_FLOAT_COLOR_128,
	PX_LAY_SINGLE_COLOR_4,
	PX_LAY_DEPTH_24_X8,
};

enum MipMapFormat : uint32_t { MIP_FMT_NO, MIP_FMT_YES, MIP_FMT_DEFAULT };

enum AlphaFormat : uint32_t { ALPHA_NONE, ALPHA_BINARY, ALPHA_SMOOTH, ALPHA_DEFAULT };

class NiTexture : public NiCloneable<NiTexture, NiObjectNET> {};

class NiSourceTexture : public NiCloneableStreamable<NiSourceTexture, NiTexture> {
public:
	bool useExternal = true;
	bool useInternal = true;
	NiStringRef fileName;

	// NiPixelData if < 20.2.0.4 or !persistentRenderData
	// else NiPersistentSrcTextureRendererData
	NiBlockRef<TextureRenderData> dataRef;

	PixelLayout pixelLayout = PX_LAY_PALETTIZED_4;
	MipMapFormat mipMapFormat = MIP_FMT_DEFAULT;
	AlphaFormat alphaFormat = ALPHA_DEFAULT;
	bool isStatic = true;
	bool directRender = true;
	bool persistentRenderData = false;

	static constexpr const char* BlockName = "NiSourceTexture";
	const char* GetBlockName() override { return BlockName; }

	void Sync(NiStreamReversible& stream);
	void GetStringRefs(std::vector<NiStringRef*>& refs) override;
	void GetChildRefs(std::set<NiRef*>& refs) override;
	void GetChildIndices(std::vector<uint32_t>& indices) override;
};

class NiSourceCubeMap : public NiCloneable<NiSourceCubeMap, NiSourceTexture> {
public:
	static constexpr const char* BlockName = "NiSourceCubeMap";
	const char* GetBlockName() override { return BlockName; }
};

enum TexFilterMode : uint32_t {
	FILTER_NEAREST,
	FILTER_BILERP,
	FILTER_TRILERP,
	FILTER_NEAREST_MIPNEAREST,
	FILTER_NEAREST_MIPLERP,
	FILTER_BILERP_MIPNEAREST
};

enum TexClampMode : uint32_t { CLAMP_S_CLAMP_T, CLAMP_S_WRAP_T, WRAP_S_CLAMP_T, WRAP_S_WRAP_T };

enum EffectType : uint32_t {
	EFFECT_PROJECTED_LIGHT,
	EFFECT_PROJECTED_SHADOW,
	EFFECT_ENVIRONMENT_MAP,
	EFFECT_FOG_MAP
};

enum CoordGenType : uint32_t {
	CG_WORLD_PARALLEL,
	CG_WORLD_PERSPECTIVE,
	CG_SPHERE_MAP,
	CG_SPECULAR_CUBE_MAP,
	CG_DIFFUSE_CUBE_MAP
};

class NiDynamicEffect : public NiCloneableStreamable<NiDynamicEffect, NiAVObject> {
public:
	bool switchState = true;
	NiBlockPtrArray<NiNode> affectedNodes;

	void Sync(NiStreamReversible& stream);
	void GetPtrs(std::set<NiPtr*>& ptrs) override;
};

class NiTextureEffect : public NiCloneableStreamable<NiTextureEffect, NiDynamicEffect> {
public:
	Matrix3 modelProjectionMatrix;
	Vector3 modelProjectionTranslation;
	TexFilterMode textureFiltering = FILTER_TRILERP;
	TexClampMode textureClamping = WRAP_S_WRAP_T;
	EffectType textureType = EFFECT_ENVIRONMENT_MAP;
	CoordGenType coordinateGenerationType = CG_SPHERE_MAP;
	NiBlockRef<NiSourceTexture> sourceTexture;
	uint8_t clippingPlane = 0;
	NiPlane plane;

	static constexpr const char* BlockName = "NiTextureEffect";
	const char* GetBlockName() override { return BlockName; }

	void Sync(NiStreamReversible& stream);
	void GetChildRefs(std::set<NiRef*>& refs) override;
	void GetChildIndices(std::vector<uint32_t>& indices) override;
};

class NiLight : public NiCloneableStreamable<NiLight, NiDynamicEffect> {
public:
	float dimmer = 0.0f;
	Color3 ambientColor;
	Color3 diffuseColor;
	Color3 specularColor;

	void Sync(NiStreamReversible& stream);
};

class NiAmbientLight : public NiCloneable<NiAmbientLight, NiLight> {
public:
	static constexpr const char* BlockName = "NiAmbientLight";
	const char* GetBlockName() override { return BlockName; }
};

class NiDirectionalLight : public NiCloneable<NiDirectionalLight, NiLight> {
public:
	static constexpr const char* BlockName = "NiDirectionalLight";
	const char* GetBlockName() override { return BlockName; }
};

class NiPointLight : public NiCloneableStreamable<NiPointLight, NiLight> {
public:
	float constantAttenuation = 0.0f;
	float linearAttenuation = 0.0f;
	float quadraticAttenuation = 0.0f;

	static constexpr const char* BlockName = "NiPointLight";
	const char* GetBlockName() override { return BlockName; }

	void Sync(NiStreamReversible& stream);
};

class NiSpotLight : public NiCloneableStreamable<NiSpotLight, NiPointLight> {
public:
	float outerSpotAngle = 0.0f;
	float innerSpotAngle = 0.0f;
	float exponent = 1.0f;

	static constexpr const char* BlockName = "NiSpotLight";
	const char* GetBlockName() override { return BlockName; }

	void Sync(NiStreamReversible& stream);
};
} // namespace nifly
