/*
nifly
C++ NIF library for the Gamebryo/NetImmerse File Format
See the included GPLv3 LICENSE file
*/

#pragma once

#include "Object3d.hpp"

#include <filesystem>
#include <memory>
#include <string_view>

namespace nifly {
// Applies a vertex index renumbering map to p1, p2, and p3 of a vector of triangles.
// If a triangle has an index out of range of the map
// or if an index maps to a negative number, the triangle is removed.
template<typename IndexType1, typename IndexType2 = int>
void ApplyMapToTriangles(std::vector<Triangle>& tris,
						 const std::vector<IndexType1>& map,
						 std::vector<IndexType2>* deletedTris = nullptr) {
	const size_t mapsz = map.size();
	int di = 0;
	for (IndexType2 si = 0; si < static_cast<IndexType2>(tris.size()); ++si) {
		const Triangle& stri = tris[si];
		// Triangle's indices are unsigned, but IndexType might be signed.
		if (stri.p1 >= mapsz || stri.p2 >= mapsz || stri.p3 >= mapsz || map[stri.p1] < 0 || map[stri.p2] < 0
			|| map[stri.p3] < 0) {
			if (deletedTris)
				deletedTris->push_back(si);

			continue;
		}

		Triangle& dtri = tris[di];
		dtri.p1 = static_cast<uint16_t>(map[stri.p1]);
		dtri.p2 = static_cast<uint16_t>(map[stri.p2]);
		dtri.p3 = static_cast<uint16_t>(map[stri.p3]);
		++di;
	}

	tris.resize(di);
}

inline uint16_t CalcMaxTriangleIndex(const std::vector<Triangle>& v) {
	uint16_t maxind = 0;

	for (size_t i = 0; i < v.size(); ++i) {
		maxind = std::max(maxind, v[i].p1);
		maxind = std::max(maxind, v[i].p2);
		maxind = std::max(maxind, v[i].p3);
	}

	return maxind;
}

// 'indices' must be in sorted ascending order beforehand.
template<typename VectorType, typename IndexType>
void EraseVectorIndices(VectorType& v, const std::vector<IndexType>& indices) {
	if (indices.empty() || indices[0] >= v.size())
		return;

	size_t indi = 1;
	IndexType di = indices[0];
	IndexType si = di + 1;
	for (; si < v.size(); ++si) {
		if (indi < indices.size() && si == indices[indi])
			++indi;
		else
			v[di++] = std::move(v[si]);
	}

	v.resize(di);
}

// 'indices' must be in sorted ascending order beforehand.
template<typename VectorType, typename IndexType>
void InsertVectorIndices(VectorType& v, const std::vector<IndexType>& indices) {
	if (indices.empty() || indices.back() >= v.size() + indices.size())
		return;

	int64_t indi = static_cast<int64_t>(indices.size() - 1);
	IndexType di = v.size() + indices.size() - 1;
	IndexType si = v.size() - 1;
	v.resize(di + 1);

	while (true) {
		while (indi >= 0 && di == indices[indi])
			--di, --indi;

		if (indi < 0)
			break;

		v[di--] = std::move(v[si--]);
	}
}

// 'indices' must be in sorted ascending order beforehand.
template<typename IndexType1, typename IndexType2>
std::vector<int> GenerateIndexCollapseMap(const std::vector<IndexType1>& indices, const IndexType2 mapSize) {
	std::vector<int> map(mapSize);

	size_t indi = 0;
	for (IndexType2 si = 0, di = 0; si < mapSize; ++si) {
		if (indi < indices.size() && si == indices[indi]) {
			map[si] = -1;
			++indi;
		}
		else
			map[si] = static_cast<int>(di++);
	}

	return map;
}

// 'indices' must be in sorted ascending order beforehand.
template<typename IndexType1, typename IndexType2>
std::vector<int> GenerateIndexExpandMap(const std::vector<IndexType1>& indices, const IndexType2 mapSize) {
	std::vector<int> map(mapSize);

	size_t indi = 0;
	for (IndexType2 si = 0, di = 0; si < mapSize; ++si, ++di) {
		while (indi < indices.size() && di == indices[indi])
			++di, ++indi;

		map[si] = static_cast<int>(di);
	}
	return map;
}

// MapType is something like std::unordered_map<int, Data> or std::map<int, Data>.
// If a MapType-key k is in the indexMap, it is deleted if indexMap[k]
// is negative, or changed to indexMap[k] otherwise.
// If k is not in indexMap, defaultOffset is added to it.
template<typename MapType>
void ApplyIndexMapToMapKeys(MapType& keyMap, const std::vector<int> indexMap, const int defaultOffset) {
	using KeyType = typename MapType::key_type;
	MapType copy;

	for (auto& d : keyMap) {
		if (d.first >= indexMap.size()) {
			auto keyVal = static_cast<KeyType>(d.first + defaultOffset);
			copy[keyVal] = std::move(d.second);
		}
		else if (indexMap[d.first] >= 0) {
			auto keyVal = static_cast<KeyType>(indexMap[d.first]);
			copy[keyVal] = std::move(d.second);
		}
	}

	keyMap = std::move(copy);
}

// Strips with less than 3 points are skipped as they cannot become a triangle.
template<typename IndexType>
std::vector<Triangle> GenerateTrianglesFromStrips(const std::vector<std::vector<IndexType>>& strips) {
	std::vector<Triangle> tris;

	for (const std::vector<IndexType>& strip : strips) {
		if (strip.size() < 3)
			continue;

		uint16_t a = strip[0];
		uint16_t b = strip[1];
		for (size_t i = 2; i < strip.size(); ++i) {
			uint16_t c = strip[i];
			if (a != b && b != c && c != a) {
				if ((i & 1) == 0)
					tris.push_back(Triangle(a, b, c));
				else
					tris.push_back(Triangle(a, c, b));
			}

			a = b;
			b = c;
		}
	}

	return tris;
}

// Helper to check if a potentially non valid UTF8 path is relative
inline bool is_relative_path(std::string_view path) noexcept {
	try {
		return std::filesystem::u8path(path).is_relative();
	}
	catch (const std::exception&) {
		// ignore the exception
		// the path is invalid, but might be readable by the game
		return false;
	}
}

// Helper to trim whitespace characters including newlines from the start and end of a string
void trim_whitespace(std::string& str);

// Convenience wrapper for std::find
template<typename Container, typename Value = typename Container::value>
auto find(Container& cont, Value&& val) {
	return std::find(std::begin(cont), std::end(cont), std::forward<Value>(val));
}

// Convenience wrapper for std::find (const)
template<typename Container, typename Value = typename Container::value>
auto find(const Container& cont, Value&& val) {
	return std::find(std::cbegin(cont), std::cend(cont), std::forward<Value>(val));
}

// Convenience wrapper for std::find_if
template<typename Container, typename Pred>
auto find_if(Container& cont, Pred&& pred) {
	return std::find_if(std::begin(cont), std::end(cont), std::forward<Pred>(pred));
}

// Convenience wrapper for std::find_if (const)
template<typename Container, typename Pred>
auto find_if(const Container& cont, Pred&& pred) {
	return std::find_if(std::cbegin(cont), std::cend(cont), std::forward<Pred>(pred));
}

// Convenience wrapper for std::find
template<typename Container, typename Value = typename Container::value>
bool contains(const Container& cont, Value&& val) {
	return find(cont, std::forward<Value>(val)) != std::end(cont);
}

// Return new unique pointer and raw pointer to the same object as part of a pair.
// This way, the object can still be accessed using the raw pointer after moving the smart pointer.
// Usage: auto [triShapeS, triShape] = make_unique<NiTriShape>();
template<typename T>
std::pair<std::unique_ptr<T>, T*> make_unique() {
	auto ptr = std::make_unique<T>();
	auto raw = ptr.get();
	return std::make_pair(std::move(ptr), raw);
}

} // namespace nifly
