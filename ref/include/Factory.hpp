/*
nifly
C++ NIF library for the Gamebryo/NetImmerse File Format
See the included GPLv3 LICENSE file
*/

#pragma once

#include "BasicTypes.hpp"

#include <unordered_map>

namespace nifly {
class NiFactory {
public:
	virtual std::unique_ptr<NiObject> Create() = 0;
	virtual std::unique_ptr<NiObject> Load(NiIStream& stream) = 0;

	virtual ~NiFactory() = default;
};

template<typename T>
class NiFactoryType final : public NiFactory {
public:
	// Create new NiObject
	std::unique_ptr<NiObject> Create() override { return std::make_unique<T>(); }

	// Load new NiObject from file
	std::unique_ptr<NiObject> Load(NiIStream& stream) override {
		auto nio = std::make_unique<T>();
		nio->Get(stream);
		return nio;
	}
};

class NiFactoryRegister {
public:
	// Constructor registers the block types
	NiFactoryRegister();

	template<typename T>
	void RegisterFactory() {
		// Any NiObject can be registered together with its block name
		m_registrations.emplace(T::BlockName, std::make_unique<NiFactoryType<T>>());
	}

	// Get block factory via header std::string
	NiFactory* GetFactoryByName(const std::string& name) {
		auto it = m_registrations.find(name);
		if (it != m_registrations.end())
			return it->second.get();

		return nullptr;
	}

	// Get static instance of factory register
	static NiFactoryRegister& Get();

protected:
	std::unordered_map<std::string, std::unique_ptr<NiFactory>> m_registrations;
};
} // namespace nifly
