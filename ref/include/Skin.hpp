/*
nifly
C++ NIF library for the Gamebryo/NetImmerse File Format
See the included GPLv3 LICENSE file
*/

#pragma once

#include "BasicTypes.hpp"
#include "VertexData.hpp"

namespace nifly {
#pragma pack(push, 1)
struct SkinWeight {
	uint16_t index;
	float weight;

	SkinWeight(const uint16_t index_ = 0, const float weight_ = 0.0f)
		: index(index_)
		, weight(weight_) {}
};
#pragma pack(pop)

struct VertexWeight {
	float w1 = 0.0f;
	float w2 = 0.0f;
	float w3 = 0.0f;
	float w4 = 0.0f;
};

struct BoneIndices {
	uint8_t i1 = 0;
	uint8_t i2 = 0;
	uint8_t i3 = 0;
	uint8_t i4 = 0;
};

class NiSkinData : public NiCloneableStreamable<NiSkinData, NiObject> {
public:
	struct BoneData {
		// boneTransform transforms from skin CS to bone CS.
		// Recommend renaming boneTransform to transformSkinToBone.
		MatTransform boneTransform;
		BoundingSphere bounds;
		uint16_t numVertices = 0;
		std::vector<SkinWeight> vertexWeights;
	};

	// skinTransform transforms from the global CS to the skin CS.
	// Recommend renaming to "transformGlobalToSkin".
	MatTransform skinTransform;
	uint32_t numBones = 0;
	uint8_t hasVertWeights = 1;
	std::vector<BoneData> bones;

	static constexpr const char* BlockName = "NiSkinData";
	const char* GetBlockName() override { return BlockName; }

	void Sync(NiStreamReversible& stream);
	void notifyVerticesDelete(const std::vector<uint16_t>& vertIndices) override;
};

class NiSkinPartition : public NiCloneableStreamable<NiSkinPartition, NiObject> {
public:
	struct PartitionBlock {
		uint16_t numVertices = 0;
		uint16_t numTriangles = 0;
		uint16_t numBones = 0;
		uint16_t numStrips = 0;
		uint16_t numWeightsPerVertex = 0;
		std::vector<uint16_t> bones;
		bool hasVertexMap = false;
		std::vector<uint16_t> vertexMap;
		bool hasVertexWeights = false;
		std::vector<VertexWeight> vertexWeights;
		std::vector<uint16_t> stripLengths;
		bool hasFaces = false;
		std::vector<std::vector<uint16_t>> strips;
		std::vector<Triangle> triangles;
		bool hasBoneIndices = false;
		std::vector<BoneIndices> boneIndices;

		uint8_t lodLevel = 0;  // User Version >= 12
		bool globalVB = false; // User Version >= 12
		VertexDesc vertexDesc; // User Version >= 12, User Version 2 == 100
		// When trueTriangles is changed so it's no longer in sync with
		// triParts, triParts should be cleared.
		std::vector<Triangle> trueTriangles; // User Version >= 12, User Version 2 == 100

		bool ConvertStripsToTriangles();
		void GenerateTrueTrianglesFromMappedTriangles();
		void GenerateMappedTrianglesFromTrueTrianglesAndVertexMap();
		void GenerateVertexMapFromTrueTriangles();
	};

	uint32_t numPartitions = 0;
	uint32_t dataSize = 0;	 // User Version >= 12, User Version 2 == 100
	uint32_t vertexSize = 0; // User Version >= 12, User Version 2 == 100
	VertexDesc vertexDesc;	 // User Version >= 12, User Version 2 == 100

	uint32_t numVertices = 0;			// Not in file
	std::vector<BSVertexData> vertData; // User Version >= 12, User Version 2 == 100
	std::vector<PartitionBlock> partitions;

	// bMappedIndices is not in the file; it is calculated from
	// the file version.  If true, the vertex indices in triangles
	// and strips are indices into vertexMap, not the shape's vertices.
	// trueTriangles always uses indices into the shape's vertex list.
	bool bMappedIndices = true;

	// triParts is not in the file; it is generated as needed.  If
	// not empty, its size should match the shape's triangle list.
	// It gives the partition index (into "partitions") of each
	// triangle.  Whenever triParts is changed so it's not in sync
	// with trueTriangles, GenerateTrueTrianglesFromTriParts should
	// be called to get them back in sync.
	std::vector<int> triParts;

	bool HasVertices() const { return vertexDesc.HasFlag(VF_VERTEX); }
	bool HasUVs() const { return vertexDesc.HasFlag(VF_UV); }
	bool HasNormals() const { return vertexDesc.HasFlag(VF_NORMAL); }
	bool HasTangents() const { return vertexDesc.HasFlag(VF_TANGENT); }
	bool HasVertexColors() const { return vertexDesc.HasFlag(VF_COLORS); }
	bool IsSkinned() const { return vertexDesc.HasFlag(VF_SKINNED); }
	bool HasEyeData() const { return vertexDesc.HasFlag(VF_EYEDATA); }
	bool IsFullPrecision() const { return true; }

	static constexpr const char* BlockName = "NiSkinPartition";
	const char* GetBlockName() override { return BlockName; }

	void Sync(NiStreamReversible& stream);
	void notifyVerticesDelete(const std::vector<uint16_t>& vertIndices) override;
	// DeletePartitions: partInds must be in sorted ascending order
	void DeletePartitions(const std::vector<uint32_t>& partInds);
	uint32_t RemoveEmptyPartitions(std::vector<uint32_t>& outDeletedIndices);
	// ConvertStripsToTriangles returns true if any conversions were
	// actually performed.  After calling this function, all of the
	// strips will be empty.
	bool ConvertStripsToTriangles();
	// PrepareTrueTriangles: ensures each partition's trueTriangles has
	// valid data, if necessary by generating it from "triangles" or "strips".
	void PrepareTrueTriangles();
	// PrepareVertexMapsAndTriangles: ensures "vertexMap" and "triangles"
	// have valid data for every partition, if necessary by generating them
	// from trueTriangles.
	void PrepareVertexMapsAndTriangles();
	// GenerateTriPartsFromTrueTriangles: generates triParts from
	// the partitions' trueTriangles by looking them up in shapeTris.
	// The new triParts will have the same size as shapeTris.  Though
	// typically triParts[i] will be between 0 and partitions.size()-1,
	// it is theoretically possible for some triParts[i] to be -1
	// (like because of garbage data in the file).
	void GenerateTriPartsFromTrueTriangles(const std::vector<Triangle>& shapeTris);
	// GenerateTrueTrianglesFromTriParts: generates the partitions'
	// trueTriangles from triParts and shapeTris.  If triParts[i] is
	// out of range, the corresponding triangle will not be copied
	// into a partition.
	void GenerateTrueTrianglesFromTriParts(const std::vector<Triangle>& shapeTris);
	// PrepareTriParts: ensures triParts has data, generating it
	// if necessary from trueTriangles and shapeTris.
	void PrepareTriParts(const std::vector<Triangle>& shapeTris);
};

class NiNode;

class NiBoneContainer : public NiCloneable<NiBoneContainer, NiObject> {
public:
	NiBlockPtrArray<NiNode> boneRefs;
};

class NiSkinInstance : public NiCloneableStreamable<NiSkinInstance, NiBoneContainer> {
public:
	NiBlockRef<NiSkinData> dataRef;
	NiBlockRef<NiSkinPartition> skinPartitionRef;
	NiBlockPtr<NiNode> targetRef;

	static constexpr const char* BlockName = "NiSkinInstance";
	const char* GetBlockName() override { return BlockName; }

	void Sync(NiStreamReversible& stream);
	void GetChildRefs(std::set<NiRef*>& refs) override;
	void GetChildIndices(std::vector<uint32_t>& indices) override;
	void GetPtrs(std::set<NiRef*>& ptrs) override;
};


enum PartitionFlags : uint16_t { PF_NONE = 0, PF_EDITOR_VISIBLE = 1 << 0, PF_START_NET_BONESET = 1 << 8 };

class BSDismemberSkinInstance : public NiCloneableStreamable<BSDismemberSkinInstance, NiSkinInstance> {
public:
	struct PartitionInfo {
		PartitionFlags flags = PF_NONE;
		uint16_t partID = 0;
	};

	NiVector<PartitionInfo> partitions;

	static constexpr const char* BlockName = "BSDismemberSkinInstance";
	const char* GetBlockName() override { return BlockName; }

	void Sync(NiStreamReversible& stream);

	// DeletePartitions: partInds must be in sorted ascending order.
	void DeletePartitions(const std::vector<uint32_t>& partInds);
};

class BSSkinBoneData : public NiCloneableStreamable<BSSkinBoneData, NiObject> {
public:
	uint32_t nBones = 0;

	struct BoneData {
		BoundingSphere bounds;
		// boneTransform transforms from skin CS (which is usually not
		// the same as global CS for skins with BSSkinBoneData) to bone
		// CS.  Recommend renaming boneTransform to transformSkinToBone.
		MatTransform boneTransform;
	};
	// Note that, unlike for NiSkinData, the global-to-skin transform
	// "skinTransform" is not given explicitly but implied by the other
	// transforms.

	std::vector<BoneData> boneXforms;

	static constexpr const char* BlockName = "BSSkin::BoneData";
	const char* GetBlockName() override { return BlockName; }

	void Sync(NiStreamReversible& stream);
};

class NiAVObject;

class BSSkinInstance : public NiCloneableStreamable<BSSkinInstance, NiBoneContainer> {
public:
	NiBlockPtr<NiAVObject> targetRef;
	NiBlockRef<BSSkinBoneData> dataRef;
	NiVector<Vector3> scales;

	static constexpr const char* BlockName = "BSSkin::Instance";
	const char* GetBlockName() override { return BlockName; }

	void Sync(NiStreamReversible& stream);
	void GetChildRefs(std::set<NiRef*>& refs) override;
	void GetChildIndices(std::vector<uint32_t>& indices) override;
	void GetPtrs(std::set<NiRef*>& ptrs) override;
};
} // namespace nifly
