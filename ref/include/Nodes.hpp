/*
nifly
C++ NIF library for the Gamebryo/NetImmerse File Format
See the included GPLv3 LICENSE file
*/

#pragma once

#include "BasicTypes.hpp"
#include "Objects.hpp"

namespace nifly {
class NiNode : public NiCloneableStreamable<NiNode, NiAVObject> {
public:
	NiBlockRefArray<NiAVObject> childRefs;
	NiBlockRefArray<NiDynamicEffect> effectRefs;

	static constexpr const char* BlockName = "NiNode";
	const char* GetBlockName() override { return BlockName; }

	void Sync(NiStreamReversible& stream);

	void GetChildRefs(std::set<NiRef*>& refs) override;
	void GetChildIndices(std::vector<uint32_t>& indices) override;
};

class BSFadeNode : public NiCloneable<BSFadeNode, NiNode> {
public:
	static constexpr const char* BlockName = "BSFadeNode";
	const char* GetBlockName() override { return BlockName; }
};

enum BSValueNodeFlags : uint8_t {
	BSVN_NONE = 0x0,
	BSVN_BILLBOARD_WORLD_Z = 0x1,
	BSVN_USE_PLAYER_ADJUST = 0x2
};

class BSValueNode : public NiCloneableStreamable<BSValueNode, NiNode> {
public:
	int value = 0;
	BSValueNodeFlags valueFlags = BSVN_NONE;

	static constexpr const char* BlockName = "BSValueNode";
	const char* GetBlockName() override { return BlockName; }

	void Sync(NiStreamReversible& stream);
};

class BSLeafAnimNode : public NiCloneable<BSLeafAnimNode, NiNode> {
public:
	static constexpr const char* BlockName = "BSLeafAnimNode";
	const char* GetBlockName() override { return BlockName; }
};

class BSTreeNode : public NiCloneableStreamable<BSTreeNode, NiNode> {
public:
	NiBlockRefArray<NiNode> bones1;
	NiBlockRefArray<NiNode> bones2;

	static constexpr const char* BlockName = "BSTreeNode";
	const char* GetBlockName() override { return BlockName; }

	void Sync(NiStreamReversible& stream);

	void GetChildRefs(std::set<NiRef*>& refs) override;
	void GetChildIndices(std::vector<uint32_t>& indices) override;
};

class BSOrderedNode : public NiCloneableStreamable<BSOrderedNode, NiNode> {
public:
	Vector4 alphaSortBound;
	bool isStaticBound = false;

	static constexpr const char* BlockName = "BSOrderedNode";
	const char* GetBlockName() override { return BlockName; }

	void Sync(NiStreamReversible& stream);
};

class BSMultiBoundData : public NiCloneable<BSMultiBoundData, NiObject> {};

class BSMultiBoundOBB : public NiCloneableStreamable<BSMultiBoundOBB, BSMultiBoundData> {
public:
	Vector3 center;
	Vector3 size;
	Matrix3 rotation;

	static constexpr const char* BlockName = "BSMultiBoundOBB";
	const char* GetBlockName() override { return BlockName; }

	void Sync(NiStreamReversible& stream);
};

class BSMultiBoundAABB : public NiCloneableStreamable<BSMultiBoundAABB, BSMultiBoundData> {
public:
	Vector3 center;
	Vector3 halfExtent;

	static constexpr const char* BlockName = "BSMultiBoundAABB";
	const char* GetBlockName() override { return BlockName; }

	void Sync(NiStreamReversible& stream);
};

class BSMultiBoundSphere : public NiCloneableStreamable<BSMultiBoundSphere, BSMultiBoundData> {
public:
	Vector3 center;
	float radius = 0.0f;

	static constexpr const char* BlockName = "BSMultiBoundSphere";
	const char* GetBlockName() override { return BlockName; }

	void Sync(NiStreamReversible& stream);
};

class BSMultiBound : public NiCloneableStreamable<BSMultiBound, NiObject> {
public:
	NiBlockRef<BSMultiBoundData> dataRef;

	static constexpr const char* BlockName = "BSMultiBound";
	const char* GetBlockName() override { return BlockName; }

	void Sync(NiStreamReversible& stream);

	void GetChildRefs(std::set<NiRef*>& refs) override;
	void GetChildIndices(std::vector<uint32_t>& indices) override;
};

enum BSCPCullingType : uint32_t {
	BSCP_CULL_NORMAL,
	BSCP_CULL_ALLPASS,
	BSCP_CULL_ALLFAIL,
	BSCP_CULL_IGNOREMULTIBOUNDS,
	BSCP_CULL_FORCEMULTIBOUNDSNOUPDATE
};

class BSMultiBoundNode : public NiCloneableStreamable<BSMultiBoundNode, NiNode> {
public:
	NiBlockRef<BSMultiBound> multiBoundRef;
	BSCPCullingType cullingMode = BSCP_CULL_NORMAL;

	static constexpr const char* BlockName = "BSMultiBoundNode";
	const char* GetBlockName() override { return BlockName; }

	void Sync(NiStreamReversible& stream);

	void GetChildRefs(std::set<NiRef*>& refs) override;
	void GetChildIndices(std::vector<uint32_t>& indices) override;
};

struct BSResourceID {
    uint32_t fileHash = 0;
    char extension[4];
    uint32_t dirHash = 0;
};

#pragma pack(push, 1)
struct BSDistantObjectUnknown {
	uint64_t unknown1 = 0;
	uint32_t unknown2 = 0;
};
#pragma pack(pop)

struct BSDistantObjectInstance {
	BSResourceID resourceID;
	NiVector<BSDistantObjectUnknown> unknownData;
	NiVector<Matrix4> transforms;

	void Sync(NiStreamReversible& stream) {
		stream.Sync(resourceID);
		unknownData.Sync(stream);
		transforms.Sync(stream);
	}
};

struct BSShaderTextureArray {
	uint8_t unknownByte = 1;
	NiSyncVector<BSTextureArray> textureArrays;

	void Sync(NiStreamReversible& stream) {
		stream.Sync(unknownByte);
		textureArrays.Sync(stream);
	}
};

class BSDistantObjectInstancedNode : public NiCloneableStreamable<BSDistantObjectInstancedNode, BSMultiBoundNode> {
public:
	NiSyncVector<BSDistantObjectInstance> instances;
	BSShaderTextureArray textureArrays[3]{};

	static constexpr const char* BlockName = "BSDistantObjectInstancedNode";
	const char* GetBlockName() override { return BlockName; }

	void Sync(NiStreamReversible& stream);
};

class BSRangeNode : public NiCloneableStreamable<BSRangeNode, NiNode> {
public:
	uint8_t min = 0;
	uint8_t max = 0;
	uint8_t current = 0;

	static constexpr const char* BlockName = "BSRangeNode";
	const char* GetBlockName() override { return BlockName; }

	void Sync(NiStreamReversible& stream);
};

class BSDebrisNode : public NiCloneable<BSDebrisNode, BSRangeNode> {
public:
	static constexpr const char* BlockName = "BSDebrisNode";
	const char* GetBlockName() override { return BlockName; }
};

class BSBlastNode : public NiCloneable<BSBlastNode, BSRangeNode> {
public:
	static constexpr const char* BlockName = "BSBlastNode";
	const char* GetBlockName() override { return BlockName; }
};

class BSDamageStage : public NiCloneable<BSDamageStage, BSBlastNode> {
public:
	static constexpr const char* BlockName = "BSDamageStage";
	const char* GetBlockName() override { return BlockName; }
};

struct UnkMaterialStruct {
	uint32_t biomeFormID = 0;
	uint32_t dirHash = 0;
	uint32_t fileHash = 0;
	std::string mat; // mat\0

	void Sync(NiStreamReversible& stream);
};

struct BSWaterReferenceStruct {
    Matrix4 transform;
    BSResourceID resourceID;
    uint32_t unkInt1 = 0;
    NiString material;

	void Sync(NiStreamReversible& stream);
};

struct BSWeakReference {
	uint32_t formID = 0;
	BSResourceID resourceID;

	uint32_t numTransforms = 0;
	std::vector<Matrix4> transforms;

	uint32_t numMaterials;
	std::vector<UnkMaterialStruct> unkMaterials;

	void Sync(NiStreamReversible& stream);
};

class BSWeakReferenceNode : public NiCloneableStreamable<BSWeakReferenceNode, NiNode> {
public:
	uint32_t numWeakRefs = 0;
	std::vector<BSWeakReference> weakRefs;

	uint32_t unkInt1 = 0;
	uint32_t numWaterRefs = 0;
	std::vector<BSWaterReferenceStruct> waterRefs;

	static constexpr const char* BlockName = "BSWeakReferenceNode";
	const char* GetBlockName() override { return BlockName; }

	void Sync(NiStreamReversible& stream);
};

class BSFaceGenNiNode : public NiCloneableStreamable<BSFaceGenNiNode, NiNode> {
public:
	uint16_t unkShort = 0;

	static constexpr const char* BlockName = "BSFaceGenNiNode";
	const char* GetBlockName() override { return BlockName; }

	void Sync(NiStreamReversible& stream);
};

enum BillboardMode : uint16_t {
	ALWAYS_FACE_CAMERA,
	ROTATE_ABOUT_UP,
	RIGID_FACE_CAMERA,
	ALWAYS_FACE_CENTER,
	RIGID_FACE_CENTER,
	BSROTATE_ABOUT_UP,
	ROTATE_ABOUT_UP2 = 9
};

class NiBillboardNode : public NiCloneableStreamable<NiBillboardNode, NiNode> {
public:
	BillboardMode billboardMode = ALWAYS_FACE_CAMERA;

	static constexpr const char* BlockName = "NiBillboardNode";
	const char* GetBlockName() override { return BlockName; }

	void Sync(NiStreamReversible& stream);
};

enum NiSwitchFlags : uint16_t { UPDATE_ONLY_ACTIVE_CHILD, UPDATE_CONTROLLERS };

class NiSwitchNode : public NiCloneableStreamable<NiSwitchNode, NiNode> {
public:
	NiSwitchFlags flags = UPDATE_ONLY_ACTIVE_CHILD;
	uint32_t index = 0;

	static constexpr const char* BlockName = "NiSwitchNode";
	const char* GetBlockName() override { return BlockName; }

	void Sync(NiStreamReversible& stream);
};

struct LODRange {
	float nearExtent = 0.0f;
	float farExtent = 0.0f;
};

class NiLODData : public NiCloneable<NiLODData, NiObject> {};

class NiRangeLODData : public NiCloneableStreamable<NiRangeLODData, NiLODData> {
public:
	Vector3 lodCenter;
	NiVector<LODRange> lodLevels;

	static constexpr const char* BlockName = "NiRangeLODData";
	const char* GetBlockName() override { return BlockName; }

	void Sync(NiStreamReversible& stream);
};

class NiScreenLODData : public NiCloneableStreamable<NiScreenLODData, NiLODData> {
public:
	Vector3 boundCenter;
	float boundRadius = 0.0f;
	Vector3 worldCenter;
	float worldRadius = 0.0f;
	NiVector<float> proportionLevels;

	static constexpr const char* BlockName = "NiScreenLODData";
	const char* GetBlockName() override { return BlockName; }

	void Sync(NiStreamReversible& stream);
};

class NiLODNode : public NiCloneableStreamable<NiLODNode, NiSwitchNode> {
public:
	NiBlockRef<NiLODData> lodLevelData;

	static constexpr const char* BlockName = "NiLODNode";
	const char* GetBlockName() override { return BlockName; }

	void Sync(NiStreamReversible& stream);

	void GetChildRefs(std::set<NiRef*>& refs) override;
	void GetChildIndices(std::vector<uint32_t>& indices) override;
};

class NiBone : public NiCloneable<NiBone, NiNode> {
public:
	static constexpr const char* BlockName = "NiBone";
	const char* GetBlockName() override { return BlockName; }
};

enum SortingMode { SORTING_INHERIT, SORTING_OFF };

class NiSortAdjustNode : public NiCloneableStreamable<NiSortAdjustNode, NiNode> {
public:
	SortingMode sortingMode = SORTING_INHERIT;

	static constexpr const char* BlockName = "NiSortAdjustNode";
	const char* GetBlockName() override { return BlockName; }

	void Sync(NiStreamReversible& stream);
};
} // namespace nifly
