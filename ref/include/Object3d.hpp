/*
nifly
C++ NIF library for the Gamebryo/NetImmerse File Format
See the included GPLv3 LICENSE file
*/

#pragma once

#include <cstdint>
#include <algorithm>
#include <cmath>
#include <cstring>
#include <vector>

namespace nifly {
constexpr float EPSILON = 0.0001f;

constexpr float PI = 3.141592f;
constexpr float DEG2RAD = PI / 180.0f;

inline bool FloatsAreNearlyEqual(float a, float b) {
	float scale = std::max(std::max(std::fabs(a), std::fabs(b)), 1.0f);
	return std::fabs(a - b) <= EPSILON * scale;
}

float CalcMedianOfFloats(const std::vector<float>& data);

// Vector with 2 float components (uv)
struct Vector2 {
	float u = 0.0f;
	float v = 0.0f;

	Vector2() = default;
	Vector2(float U, float V) {
		u = U;
		v = V;
	}

	bool operator==(const Vector2& other) {
		return u == other.u && v == other.v;
	}
	bool operator!=(const Vector2& other) { return !(*this == other); }

	Vector2& operator-=(const Vector2& other) {
		u -= other.u;
		v -= other.v;
		return (*this);
	}
	Vector2 operator-(const Vector2& other) const {
		Vector2 tmp = (*this);
		tmp -= other;
		return tmp;
	}

	Vector2& operator+=(const Vector2& other) {
		u += other.u;
		v += other.v;
		return (*this);
	}
	Vector2 operator+(const Vector2& other) const {
		Vector2 tmp = (*this);
		tmp += other;
		return tmp;
	}

	Vector2& operator*=(float val) {
		u *= val;
		v *= val;
		return (*this);
	}
	Vector2 operator*(float val) const {
		Vector2 tmp = (*this);
		tmp *= val;
		return tmp;
	}

	Vector2& operator/=(float val) {
		u /= val;
		v /= val;
		return (*this);
	}
	Vector2 operator/(float val) const {
		Vector2 tmp = (*this);
		tmp /= val;
		return tmp;
	}
};

// Vector with 3 float components (xyz)
struct Vector3 {
	float x;
	float y;
	float z;

	constexpr Vector3()
		: x(0.0f)
		, y(0.0f)
		, z(0.0f) {}

	constexpr Vector3(float X, float Y, float Z)
		: x(X)
		, y(Y)
		, z(Z) {}

	constexpr float& operator[](int ind) { return ind ? (ind == 2 ? z : y) : x; }
	constexpr float operator[](int ind) const { return ind ? (ind == 2 ? z : y) : x; }

	void Zero() { x = y = z = 0.0f; }

	// With bUseEpsilon, uses nifly::EPSILON for a nearly zero comparison.
	constexpr bool IsZero(bool bUseEpsilon = false) const {
		if (bUseEpsilon) {
			if (std::fabs(x) < EPSILON && std::fabs(y) < EPSILON && std::fabs(z) < EPSILON)
				return true;
		}
		else {
			if (x == 0.0f && y == 0.0f && z == 0.0f)
				return true;
		}

		return false;
	}

	void Normalize() {
		float d = std::sqrt(x * x + y * y + z * z);
		if (d == 0.0f)
			d = 1.0f;

		x /= d;
		y /= d;
		z /= d;
	}

	uint32_t hash() const {
		static_assert(sizeof(float) == sizeof(uint32_t));
		const uint32_t* h = reinterpret_cast<const uint32_t*>(this);
		uint32_t f = (h[0] + h[1] * 11 - h[2] * 17) & 0x7fffffff;
		return (f >> 22) ^ (f >> 12) ^ (f);
	}

	constexpr bool operator==(const Vector3& other) const {
		return x == other.x && y == other.y && z == other.z;
	}
	constexpr bool operator!=(const Vector3& other) const { return !(*this == other); }

	Vector3& operator-=(const Vector3& other) {
		x -= other.x;
		y -= other.y;
		z -= other.z;
		return (*this);
	}
	constexpr Vector3 operator-(const Vector3& other) const {
		return Vector3(x - other.x, y - other.y, z - other.z);
	}
	Vector3& operator+=(const Vector3& other) {
		x += other.x;
		y += other.y;
		z += other.z;
		return (*this);
	}
	constexpr Vector3 operator+(const Vector3& other) const {
		return Vector3(x + other.x, y + other.y, z + other.z);
	}
	[[deprecated("Replaced by ComponentMultiplyBy; should not have been an operator")]]
	Vector3& operator*=(const Vector3& other) {
		x *= other.x;
		y *= other.y;
		z *= other.z;
		return (*this);
	}
	Vector3& ComponentMultiplyBy(const Vector3& other) {
		x *= other.x;
		y *= other.y;
		z *= other.z;
		return (*this);
	}
	[[deprecated("Replaced by ComponentMultiply; should not have been an operator")]]
	constexpr Vector3 operator*(const Vector3& other) const {
		return Vector3(x * other.x, y * other.y, z * other.z);
	}
	constexpr Vector3 ComponentMultiply(const Vector3& other) const {
		return Vector3(x * other.x, y * other.y, z * other.z);
	}
	[[deprecated("Replaced by ComponentDivideBy; should not have been an operator")]]
	Vector3& operator/=(const Vector3& other) {
		x /= other.x;
		y /= other.y;
		z /= other.z;
		return (*this);
	}
	Vector3& ComponentDivideBy(const Vector3& other) {
		x /= other.x;
		y /= other.y;
		z /= other.z;
		return (*this);
	}
	[[deprecated("Replaced by ComponentDivide; should not have been an operator")]]
	constexpr Vector3 operator/(const Vector3& other) const {
		return Vector3(x / other.x, y / other.y, z / other.z);
	}
	constexpr Vector3 ComponentDivide(const Vector3& other) const {
		return Vector3(x / other.x, y / other.y, z / other.z);
	}

	Vector3& operator*=(float val) {
		x *= val;
		y *= val;
		z *= val;
		return (*this);
	}
	constexpr Vector3 operator*(float val) const {
		return Vector3(x * val, y * val, z * val);
	}
	Vector3& operator/=(float val) {
		x /= val;
		y /= val;
		z /= val;
		return (*this);
	}
	constexpr Vector3 operator/(float val) const {
		return Vector3(x / val, y / val, z / val);
	}

	Vector3& operator*=(int val) {
		auto v = static_cast<float>(val);
		x *= v;
		y *= v;
		z *= v;
		return (*this);
	}
	constexpr Vector3 operator*(int val) const {
		float v = static_cast<float>(val);
		return Vector3(x * v, y * v, z * v);
	}
	Vector3& operator/=(int val) {
		auto v = static_cast<float>(val);
		x /= v;
		y /= v;
		z /= v;
		return (*this);
	}
	constexpr Vector3 operator/(int val) const {
		float v = static_cast<float>(val);
		return Vector3(x / v, y / v, z / v);
	}

	Vector3& operator*=(uint32_t val) {
		auto v = static_cast<float>(val);
		x *= v;
		y *= v;
		z *= v;
		return (*this);
	}
	constexpr Vector3 operator*(uint32_t val) const {
		float v = static_cast<float>(val);
		return Vector3(x * v, y * v, z * v);
	}
	Vector3& operator/=(uint32_t val) {
		auto v = static_cast<float>(val);
		x /= v;
		y /= v;
		z /= v;
		return (*this);
	}
	constexpr Vector3 operator/(uint32_t val) const {
		float v = static_cast<float>(val);
		return Vector3(x / v, y / v, z / v);
	}

	Vector3& operator*=(uint64_t val) {
		auto v = static_cast<float>(val);
		x *= v;
		y *= v;
		z *= v;
		return (*this);
	}
	constexpr Vector3 operator*(uint64_t val) const {
		float v = static_cast<float>(val);
		return Vector3(x * v, y * v, z * v);
	}
	Vector3& operator/=(uint64_t val) {
		auto v = static_cast<float>(val);
		x /= v;
		y /= v;
		z /= v;
		return (*this);
	}
	constexpr Vector3 operator/(uint64_t val) const {
		float v = static_cast<float>(val);
		return Vector3(x / v, y / v, z / v);
	}

	constexpr Vector3 cross(const Vector3& other) const {
		Vector3 tmp;
		tmp.x = y * other.z - z * other.y;
		tmp.y = z * other.x - x * other.z;
		tmp.z = x * other.y - y * other.x;
		return tmp;
	}

	constexpr float dot(const Vector3& other) const { return x * other.x + y * other.y + z * other.z; }

	float DistanceTo(const Vector3& target) const {
		float dx = target.x - x;
		float dy = target.y - y;
		float dz = target.z - z;
		return static_cast<float>(std::sqrt(dx * dx + dy * dy + dz * dz));
	}

	constexpr float DistanceSquaredTo(const Vector3& target) const {
		float dx = target.x - x;
		float dy = target.y - y;
		float dz = target.z - z;
		return static_cast<float>(dx * dx + dy * dy + dz * dz);
	}

	float angle(const Vector3& other) const {
		Vector3 A(x, y, z);
		Vector3 B(other.x, other.y, other.z);
		A.Normalize();
		B.Normalize();

		float dot = A.dot(B);
		if (dot > 1.0f)
			return 0.0f;
		else if (dot < -1.0f)
			return PI;
		else if (dot == 0.0f)
			return PI / 2.0f;

		return std::acos(dot);
	}

	void clampEpsilon() {
		if (std::fabs(x) < EPSILON)
			x = 0.0f;
		if (std::fabs(y) < EPSILON)
			y = 0.0f;
		if (std::fabs(z) < EPSILON)
			z = 0.0f;
	}

	bool IsNearlyEqualTo(const Vector3& other) const {
		return FloatsAreNearlyEqual(x, other.x) && FloatsAreNearlyEqual(y, other.y)
			   && FloatsAreNearlyEqual(z, other.z);
	}

	constexpr float length2() const { return x * x + y * y + z * z; }

	float length() const { return std::sqrt(x * x + y * y + z * z); }

	float DistanceToSegment(const Vector3& p1, const Vector3& p2) const {
		Vector3 segvec(p2 - p1);
		Vector3 diffp1(*this - p1);
		float dp = segvec.dot(diffp1);
		if (dp <= 0)
			return diffp1.length();
		else if (dp >= segvec.length2())
			return (*this - p2).length();
		return segvec.cross(diffp1).length() / segvec.length();
	}
};

inline constexpr Vector3 operator*(float f, const Vector3& v) {
	return Vector3(f * v.x, f * v.y, f * v.z);
}

Vector3 CalcMedianOfVector3(const std::vector<Vector3>& data);

// Vector with 4 float components (xyzw)
struct Vector4 {
	float x = 0.0f;
	float y = 0.0f;
	float z = 0.0f;
	float w = 0.0f;

	constexpr Vector4() = default;
	constexpr Vector4(float X, float Y, float Z, float W)
		: x(X)
		, y(Y)
		, z(Z)
		, w(W) {}
};

// Color with 3 float components (rgb)
struct Color3 {
	float r = 0.0f;
	float g = 0.0f;
	float b = 0.0f;

	constexpr Color3() = default;
	constexpr Color3(float r_, float g_, float b_)
		: r(r_)
		, g(g_)
		, b(b_) {}

	constexpr bool operator==(const Color3& other) {
		return r == other.r && g == other.g && b == other.b;
	}
	constexpr bool operator!=(const Color3& other) { return !(*this == other); }

	Color3& operator*=(float val) {
		r *= val;
		g *= val;
		b *= val;
		return *this;
	}
	constexpr Color3 operator*(float val) const {
		return Color3(r * val, g * val, b * val);
	}

	Color3& operator/=(float val) {
		r /= val;
		g /= val;
		b /= val;
		return *this;
	}
	constexpr Color3 operator/(float val) const {
		return Color3(r / val, g / val, b / val);
	}
};

// Color with 4 float components (rgba)
struct Color4 {
	float r = 0.0f;
	float g = 0.0f;
	float b = 0.0f;
	float a = 0.0f;

	constexpr Color4() = default;
	constexpr Color4(float r_, float g_, float b_, float a_)
		: r(r_)
		, g(g_)
		, b(b_)
		, a(a_) {}

	constexpr bool operator==(const Color4& other) {
		return r == other.r && g == other.g && b == other.b && a == other.a;
	}
	constexpr bool operator!=(const Color4& other) { return !(*this == other); }

	Color4& operator*=(float val) {
		r *= val;
		g *= val;
		b *= val;
		a *= val;
		return *this;
	}
	constexpr Color4 operator*(float val) const {
		return Color4(r * val, g * val, b * val, a * val);
	}

	Color4& operator/=(float val) {
		r /= val;
		g /= val;
		b /= val;
		a /= val;
		return *this;
	}
	constexpr Color4 operator/(float val) const {
		return Color4(r / val, g / val, b / val, a / val);
	}
};

// Color with 3 byte components (rgb)
struct ByteColor3 {
	uint8_t r = 0;
	uint8_t g = 0;
	uint8_t b = 0;

	bool operator==(const ByteColor3& other) { return (r == other.r && g == other.g && b == other.b); }
	bool operator!=(const ByteColor3& other) { return !(*this == other); }
};

// Color with 4 byte components (rgba)
struct ByteColor4 {
	uint8_t r = 0;
	uint8_t g = 0;
	uint8_t b = 0;
	uint8_t a = 0;

	bool operator==(const ByteColor4& other) {
		return (r == other.r && g == other.g && b == other.b && a == other.a);
	}
	bool operator!=(const ByteColor4& other) { return !(*this == other); }
};

class Matrix3 {
	Vector3 rows[3] = {Vector3(1.0f, 0.0f, 0.0f), Vector3(0.0f, 1.0f, 0.0f), Vector3(0.0f, 0.0f, 1.0f)};

public:
	constexpr Matrix3() {}
	constexpr Matrix3(const Vector3& r1, const Vector3& r2, const Vector3& r3)
		: rows{r1, r2, r3} {}
	constexpr Matrix3(float m00, float m01, float m02, float m10, float m11, float m12, float m20, float m21, float m22)
		: rows{Vector3(m00, m01, m02), Vector3(m10, m11, m12), Vector3(m20, m21, m22)} {}

	constexpr Vector3& operator[](int index) { return rows[index]; }

	constexpr const Vector3& operator[](int index) const { return rows[index]; }

	constexpr bool operator==(const Matrix3& other) const {
		return rows[0] == other[0] && rows[1] == other[1] && rows[2] == other[2];
	}

	constexpr bool IsIdentity() { return *this == Matrix3(); }

	Matrix3& Identity() {
		//1.0f, 0.0f, 0.0f
		//0.0f, 1.0f, 0.0f
		//0.0f, 0.0f, 1.0f

		rows[0].Zero();
		rows[1].Zero();
		rows[2].Zero();
		rows[0].x = 1.0f;
		rows[1].y = 1.0f;
		rows[2].z = 1.0f;
		return *this;
	}

	constexpr Matrix3 operator+(const Matrix3& other) const {
		return Matrix3(rows[0] + other[0], rows[1] + other[1], rows[2] + other[2]);
	}

	Matrix3& operator+=(const Matrix3& other) {
		*this = *this + other;
		return *this;
	}

	constexpr Matrix3 operator-(const Matrix3& other) const {
		return Matrix3(rows[0] - other[0], rows[1] - other[1], rows[2] - other[2]);
	}

	Matrix3& operator-=(const Matrix3& other) {
		*this = *this - other;
		return *this;
	}

	Matrix3& operator*=(const Matrix3& other) {
		*this = *this * other;
		return *this;
	}

	constexpr Matrix3 operator*(const Matrix3& o) const {
		Matrix3 res;
		res[0][0] = rows[0][0] * o[0][0] + rows[0][1] * o[1][0] + rows[0][2] * o[2][0];
		res[0][1] = rows[0][0] * o[0][1] + rows[0][1] * o[1][1] + rows[0][2] * o[2][1];
		res[0][2] = rows[0][0] * o[0][2] + rows[0][1] * o[1][2] + rows[0][2] * o[2][2];
		res[1][0] = rows[1][0] * o[0][0] + rows[1][1] * o[1][0] + rows[1][2] * o[2][0];
		res[1][1] = rows[1][0] * o[0][1] + rows[1][1] * o[1][1] + rows[1][2] * o[2][1];
		res[1][2] = rows[1][0] * o[0][2] + rows[1][1] * o[1][2] + rows[1][2] * o[2][2];
		res[2][0] = rows[2][0] * o[0][0] + rows[2][1] * o[1][0] + rows[2][2] * o[2][0];
		res[2][1] = rows[2][0] * o[0][1] + rows[2][1] * o[1][1] + rows[2][2] * o[2][1];
		res[2][2] = rows[2][0] * o[0][2] + rows[2][1] * o[1][2] + rows[2][2] * o[2][2];
		return res;
	}

	constexpr Vector3 operator*(const Vector3& v) const {
		return Vector3(rows[0][0] * v.x + rows[0][1] * v.y + rows[0][2] * v.z,
					   rows[1][0] * v.x + rows[1][1] * v.y + rows[1][2] * v.z,
					   rows[2][0] * v.x + rows[2][1] * v.y + rows[2][2] * v.z);
	}

	constexpr Matrix3 operator*(float f) const {
		return Matrix3(rows[0] * f, rows[1] * f, rows[2] * f);
	}

	Matrix3& operator*=(float f) {
		return *this = *this * f;
	}

	constexpr Matrix3 operator/(float f) const {
		return Matrix3(rows[0] / f, rows[1] / f, rows[2] / f);
	}

	Matrix3& operator/=(float f) {
		return *this = *this / f;
	}

	constexpr Matrix3 Transpose() const {
		Matrix3 res;
		res[0][0] = rows[0][0];
		res[0][1] = rows[1][0];
		res[0][2] = rows[2][0];
		res[1][0] = rows[0][1];
		res[1][1] = rows[1][1];
		res[1][2] = rows[2][1];
		res[2][0] = rows[0][2];
		res[2][1] = rows[1][2];
		res[2][2] = rows[2][2];
		return res;
	}

	float Determinant() const;

	// Invert attempts to invert this matrix, returning the result in
	// inverse.  It returns false if the matrix is not invertible, in
	// which case inverse is not changed.
	bool Invert(Matrix3* inverse) const;

	// Inverse returns the inverse of this matrix if it's invertible.
	// If this matrix is not invertible, the identity matrix is returned.
	Matrix3 Inverse() const;

	// Generate rotation matrix from yaw, pitch and roll (in radians)
	// This is not the inverse of ToEulerAngles; though both functions
	// work with Euler angles, there are many conflicting definitions
	// of "Euler angles" (yaw, pitch, and roll), and these two functions
	// use different definitions.
	static Matrix3 MakeRotation(const float yaw, const float pitch, const float roll);

	// Convert rotation to euler degrees (Yaw, Pitch, Roll)
	// This function assumes that the matrix is a rotation matrix.
	// ToEulerAngles is not the inverse of MakeRotation; though both
	// functions work with Euler angles, there are many conflicting
	// definitions of "Euler angles", and these two functions use
	// different definitions.
	// The return result "canRot" apparently means roll is not zero.
	bool ToEulerAngles(float& y, float& p, float& r) const;
	bool ToEulerDegrees(float& y, float& p, float& r) const {
		bool canRot = ToEulerAngles(y, p, r);
		y *= 180.0f / PI;
		p *= 180.0f / PI;
		r *= 180.0f / PI;
		return canRot;
	}

	bool IsNearlyEqualTo(const Matrix3& other) const {
		return rows[0].IsNearlyEqualTo(other.rows[0]) && rows[1].IsNearlyEqualTo(other.rows[1])
			   && rows[2].IsNearlyEqualTo(other.rows[2]);
	}
};

// RotVecToMat: converts a rotation vector to a rotation matrix.
// (A rotation vector has direction the axis of the rotation
// and magnitude the angle of rotation.)
Matrix3 RotVecToMat(const Vector3& v);

// RotMatToVec: converts a rotation matrix into a rotation vector.
// (A rotation vector has direction the axis of the rotation
// and magnitude the angle of rotation.)
// Note that this function is unstable for angles near pi, but it
// should still work.
Vector3 RotMatToVec(const Matrix3& m);

Matrix3 CalcAverageRotation(const std::vector<Matrix3>& rots);
Matrix3 CalcMedianRotation(const std::vector<Matrix3>& rots);

// 4D Matrix class for calculating and applying transformations.
class Matrix4 {
	float m[16]{};

public:
	constexpr Matrix4(): m{1.0f, 0.0f, 0.0f, 0.0f, 0.0f, 1.0f, 0.0f, 0.0f, 0.0f, 0.0f, 1.0f, 0.0f, 0.0f, 0.0f, 0.0f, 1.0f} {}

	Matrix4(const std::vector<Vector3>& mat33) { Set(mat33); }

	void Set(Vector3 mat33[3]) {
		m[0] = mat33[0].x;
		m[1] = mat33[0].y;
		m[2] = mat33[0].z;
		m[3] = 0;
		m[4] = mat33[1].x;
		m[5] = mat33[1].y;
		m[6] = mat33[1].z;
		m[7] = 0;
		m[8] = mat33[2].x;
		m[9] = mat33[2].y;
		m[10] = mat33[2].z;
		m[11] = 0;
		m[12] = 0;
		m[13] = 0;
		m[14] = 0;
		m[15] = 1;
	}

	void Set(const std::vector<Vector3>& mat33) {
		m[0] = mat33[0].x;
		m[1] = mat33[0].y;
		m[2] = mat33[0].z;
		m[3] = 0;
		m[4] = mat33[1].x;
		m[5] = mat33[1].y;
		m[6] = mat33[1].z;
		m[7] = 0;
		m[8] = mat33[2].x;
		m[9] = mat33[2].y;
		m[10] = mat33[2].z;
		m[11] = 0;
		m[12] = 0;
		m[13] = 0;
		m[14] = 0;
		m[15] = 1;
	}

	void SetRow(int row, const Vector3& inVec) {
		m[row * 4 + 0] = inVec.x;
		m[row * 4 + 1] = inVec.y;
		m[row * 4 + 2] = inVec.z;
	}

	constexpr float& operator[](int index) { return m[index]; }
	constexpr float operator[](int index) const { return m[index]; }

	bool operator==(const Matrix4& other) const { return (std::equal(m, m + sizeof m / sizeof *m, other.m)); }

	bool IsIdentity() { return *this == Matrix4(); }

	Matrix4& Identity() {
		std::memset(m, 0, sizeof(float) * 16);
		m[0] = m[5] = m[10] = m[15] = 1.0f;
		return *this;
	}

	void GetRow(int row, Vector3& outVec) {
		outVec.x = m[row * 4 + 0];
		outVec.y = m[row * 4 + 1];
		outVec.z = m[row * 4 + 2];
	}

	void Get33(float* o, int r = 3, int c = 3) {
		int p = 0;
		for (int i = 0; i < 4; i++) {
			if (i == r)
				continue;
			for (int j = 0; j < 4; j++) {
				if (j == c)
					continue;
				o[p++] = m[4 * i + j];
			}
		}
	}

	Matrix4 Inverse() {
		Matrix4 c;
		float det = Det();
		if (det == 0.0f) {
			c[0] = std::numeric_limits<float>::max();
			return c;
		}
		return (Adjoint() * (1.0f / det));
	}

	Matrix4 Cofactor() {
		Matrix4 c;
		float minor[9];
		for (int i = 0; i < 4; i++) {
			for (int j = 0; j < 4; j++) {
				Get33(minor, i, j);
				c[4 * i + j] = Det33(minor);
			}
		}
		return c;
	}

	//  i&1   j&1	   xor
	//	0000 0101    0 1 0 1
	//	1111 0101    1 0 1 0
	//	0000 0101    0 1 0 1
	//	1111 0101    1 0 1 0
	// Adjoint is the transpose of the cofactor.
	Matrix4 Adjoint() {
		Matrix4 c;
		float minor[9];
		for (int i = 0; i < 4; i++) {
			for (int j = 0; j < 4; j++) {
				Get33(minor, i, j);
				if ((i & 1) ^ (j & 1))
					c[i + j * 4] = -Det33(minor);
				else
					c[i + j * 4] = Det33(minor);
			}
		}
		return c;
	}

	float Det() {
		//  |a	b	c	d|	|0	1	2	3 |
		//	|e	f	g	h|	|4	5	6	7 |
		//	|i	j	k	l|	|8	9	10	11|
		//	|m	n	o	p|	|12 13	14	15|
		float A = m[0]
				  * ((m[5] * m[10] * m[15] + m[6] * m[11] * m[13] + m[7] * m[9] * m[14])
					 - (m[7] * m[10] * m[13] + m[6] * m[9] * m[15] + m[5] * m[11] * m[14]));
		float B = m[1]
				  * ((m[4] * m[10] * m[15] + m[6] * m[11] * m[12] + m[7] * m[8] * m[14])
					 - (m[7] * m[10] * m[12] + m[6] * m[8] * m[15] + m[4] * m[11] * m[14]));
		float C = m[2]
				  * ((m[4] * m[9] * m[15] + m[5] * m[11] * m[12] + m[7] * m[8] * m[13])
					 - (m[7] * m[9] * m[12] + m[5] * m[8] * m[15] + m[4] * m[11] * m[13]));
		float D = m[3]
				  * ((m[4] * m[9] * m[14] + m[5] * m[10] * m[12] + m[6] * m[8] * m[13])
					 - (m[6] * m[9] * m[12] + m[5] * m[8] * m[14] + m[4] * m[10] * m[13]));
		return A - B + C - D;
	}

	float Det33(float* t) {
		//  |a	b  c|	|0	1	2 |
		//	|d	e  f|	|3	4	5 |
		//	|g	h  i|	|6  7	8 |
		//  (aei + bfg + cdh) - (ceg + bdi + afh)
		//  (0*4*8 + 1*5*6 + 2*3*7) - (2*4*6 + 1*3*8 + 0*5*7)
		return ((t[0] * t[4] * t[8] + t[1] * t[5] * t[6] + t[2] * t[3] * t[7])
				- (t[2] * t[4] * t[6] + t[1] * t[3] * t[8] + t[0] * t[5] * t[7]));
	}

	constexpr Matrix4 operator+(const Matrix4& other) const {
		Matrix4 t(*this);
		for (int i = 0; i < 16; i++)
			t[i] += other[i];
		return t;
	}
	Matrix4& operator+=(const Matrix4& other) {
		for (int i = 0; i < 16; i++)
			m[i] += other.m[i];

		return (*this);
	}
	constexpr Matrix4 operator-(const Matrix4& other) const {
		Matrix4 t(*this);
		for (int i = 0; i < 16; i++)
			t[i] -= other[i];
		return t;
	}
	Matrix4& operator-=(const Matrix4& other) {
		for (int i = 0; i < 16; i++)
			m[i] -= other.m[i];

		return (*this);
	}
	constexpr Vector3 operator*(const Vector3& v) const {
		return Vector3(m[0] * v.x + m[1] * v.y + m[2] * v.z + m[3],
					   m[4] * v.x + m[5] * v.y + m[6] * v.z + m[7],
					   m[8] * v.x + m[9] * v.y + m[10] * v.z + m[11]);
	}

	Matrix4& operator*=(const Matrix4& r) {
		float v1, v2, v3, v4;
		for (int n = 0; n < 16; n += 4) {
			v1 = m[n] * r.m[0] + m[n + 1] * r.m[4] + m[n + 2] * r.m[8] + m[n + 3] * r.m[12];
			v2 = m[n] * r.m[1] + m[n + 1] * r.m[5] + m[n + 2] * r.m[9] + m[n + 3] * r.m[13];
			v3 = m[n] * r.m[2] + m[n + 1] * r.m[6] + m[n + 2] * r.m[10] + m[n + 3] * r.m[14];
			v4 = m[n] * r.m[3] + m[n + 1] * r.m[7] + m[n + 2] * r.m[11] + m[n + 3] * r.m[15];
			m[n] = v1;
			m[n + 1] = v2;
			m[n + 2] = v3;
			m[n + 3] = v4;
		}
		return *this;
	}
	Matrix4 operator*(const Matrix4& other) {
		Matrix4 t(*this);
		t *= other;
		return t;
	}
	constexpr Matrix4 operator*(float val) {
		Matrix4 t(*this);
		for (int i = 0; i < 16; i++)
			t[i] *= val;

		return t;
	}

	void PushTranslate(const Vector3& byvec) {
		Matrix4 tmp;
		tmp.Translate(byvec);
		(*this) *= tmp;
	}

	Matrix4& Translate(const Vector3& byVec) { return Translate(byVec.x, byVec.y, byVec.z); }
	Matrix4& Translate(float x, float y, float z) {
		m[3] += x;
		m[7] += y;
		m[11] += z;
		return (*this);
	}

	void PushScale(float x, float y, float z) {
		Matrix4 tmp;
		tmp.Scale(x, y, z);
		(*this) *= tmp;
	}

	Matrix4& Scale(float x, float y, float z) {
		m[0] *= x;
		m[1] *= x;
		m[2] *= x;
		m[3] *= x;
		m[4] *= y;
		m[5] *= y;
		m[6] *= y;
		m[7] *= y;
		m[8] *= z;
		m[9] *= z;
		m[10] *= z;
		m[11] *= z;
		return (*this);
	}

	void PushRotate(float radAngle, const Vector3& axis) {
		Matrix4 tmp;
		tmp.Rotate(radAngle, axis);
		(*this) *= tmp;
	}

	Matrix4& Rotate(float radAngle, const Vector3& axis) { return Rotate(radAngle, axis.x, axis.y, axis.z); }

	Matrix4& Rotate(float radAngle, float x, float y, float z) {
		float c = std::cos(radAngle);
		float s = std::sin(radAngle);

		float xx = x * x;
		float xy = x * y;
		float xz = x * z;
		float yy = y * y;
		float yz = y * z;
		float zz = z * z;

		float ic = 1 - c;

		Matrix4 t;
		t.m[0] = xx * ic + c;
		t.m[1] = xy * ic - z * s;
		t.m[2] = xz * ic + y * s;
		t.m[3] = 0.0f;

		t.m[4] = xy * ic + z * s;
		t.m[5] = yy * ic + c;
		t.m[6] = yz * ic - x * s;
		t.m[7] = 0.0f;

		t.m[8] = xz * ic - y * s;
		t.m[9] = yz * ic + x * s;
		t.m[10] = zz * ic + c;

		t.m[11] = t.m[12] = t.m[13] = t.m[14] = 0.0f;
		t.m[15] = 1.0f;

		*this = t * (*this);

		return (*this);
	}

	Matrix4& Align(const Vector3& sourceVec, const Vector3& destVec) {
		Identity();
		float angle = sourceVec.angle(destVec);
		Vector3 axis = sourceVec.cross(destVec);
		axis.Normalize();

		return Rotate(angle, axis);
	}
};


struct BoundingSphere {
	Vector3 center;
	float radius = 0.0f;

	constexpr BoundingSphere() {}

	constexpr BoundingSphere(const Vector3& center_, const float radius_)
		: center(center_)
		, radius(radius_) {}

	// Miniball algorithm
	BoundingSphere(const std::vector<Vector3>& vertices);
};


// Quaternion using float components (wxyz)
struct Quaternion {
	float w;
	float x;
	float y;
	float z;

	constexpr Quaternion()
		: w(1.0f)
		, x(0.0f)
		, y(0.0f)
		, z(0.0f) {}

	constexpr Quaternion(float w_, float x_, float y_, float z_)
		: w(w_)
		, x(x_)
		, y(y_)
		, z(z_) {}
};

// Quaternion using float components (xyzw)
struct QuaternionXYZW {
	float x;
	float y;
	float z;
	float w;

	constexpr QuaternionXYZW()
		: x(0.0f)
		, y(0.0f)
		, z(0.0f)
		, w(1.0f) {}

	constexpr QuaternionXYZW(float x_, float y_, float z_, float w_)
		: x(x_)
		, y(y_)
		, z(z_)
		, w(w_) {}
};


struct MatTransform {
	/* On MatTransform and coordinate-system (CS) transformations:

	A MatTransform can represent a "similarity transform", where
	it scales, rotates, and moves geometry; or it can represent a
	"coordinate-system transform", where the geometry itself does
	not change, but its representation changes from one CS to another.

	If CS1 is the source CS and CS2 is the target CS, then:
	ApplyTransform(v) converts a point v represented in CS1 to CS2.
	translation is CS1's origin represented in CS2.
	rotation has columns the basis vectors of CS1 represented in CS2.
	scale gives how much farther apart points appear to be in CS2 than in CS1.

	Note that we do not force "rotation" to actually be a rotation
	matrix.  A rotation matrix's inverse is its transpose.  Instead,
	we only assume "rotation" is invertible, which means its inverse
	must be calculated (using Matrix3::Invert).  Even though we always
	treat "rotation" as a general invertible matrix and not a rotation
	matrix, in practice it is always a rotation matrix.
	*/
	Vector3 translation;
	Matrix3 rotation;	// must be invertible
	float scale = 1.0f; // must be nonzero

	void Clear() {
		translation.Zero();
		rotation.Identity();
		scale = 1.0f;
	}

	// Rotation in euler degrees (Yaw, Pitch, Roll)
	bool ToEulerDegrees(float& y, float& p, float& r) const { return rotation.ToEulerDegrees(y, p, r); }

	// Full matrix of translation, rotation and scale
	constexpr Matrix4 ToMatrix() const {
		Matrix4 mat;
		mat[0] = rotation[0].x * scale;
		mat[1] = rotation[0].y * scale;
		mat[2] = rotation[0].z * scale;
		mat[3] = translation.x;
		mat[4] = rotation[1].x * scale;
		mat[5] = rotation[1].y * scale;
		mat[6] = rotation[1].z * scale;
		mat[7] = translation.y;
		mat[8] = rotation[2].x * scale;
		mat[9] = rotation[2].y * scale;
		mat[10] = rotation[2].z * scale;
		mat[11] = translation.z;
		return mat;
	}

	// ToGLMMatrix: turns this transform into a glm::mat4x4.  This is
	// basically the same as ToMatrix above, except glm::mat4x4 stores its
	// data in column-major form instead of row-major like everything else.
	// To call, do xform.ToGLMMatrix<glm::mat4x4>();
	template<typename Mat>
	constexpr Mat ToGLMMatrix() const {
		Mat m;
		m[0][0] = rotation[0][0] * scale;
		m[0][1] = rotation[1][0] * scale;
		m[0][2] = rotation[2][0] * scale;
		m[0][3] = 0.0f;
		m[1][0] = rotation[0][1] * scale;
		m[1][1] = rotation[1][1] * scale;
		m[1][2] = rotation[2][1] * scale;
		m[1][3] = 0.0f;
		m[2][0] = rotation[0][2] * scale;
		m[2][1] = rotation[1][2] * scale;
		m[2][2] = rotation[2][2] * scale;
		m[2][3] = 0.0f;
		m[3][0] = translation.x;
		m[3][1] = translation.y;
		m[3][2] = translation.z;
		m[3][3] = 1.0f;
		return m;
	}

	[[deprecated("Does something nonsensical")]]
	Vector3 GetVector() const { return translation + rotation * Vector3(scale, scale, scale); }

	// ApplyTransform applies this MatTransform to a position vector v by
	// first scaling v, then rotating the result of that, and then
	// translating the result of that.
	constexpr Vector3 ApplyTransform(const Vector3& pos) const {
		return translation + rotation * (pos * scale);
	}

	// ApplyTransformToDiff applies this transform to a position difference
	// (or offset) vector.
	constexpr Vector3 ApplyTransformToDiff(const Vector3& diff) const {
		return rotation * (diff * scale);
	}

	// ApplyTransformToDir applies this transform to a direction unit
	// vector or normal.
	constexpr Vector3 ApplyTransformToDir(const Vector3& dir) const {
		return rotation * dir;
	}

	// ApplyTransformToDist applies this transform to a distance.
	constexpr float ApplyTransformToDist(float d) const {
		return scale * d;
	}

	// Note that InverseTransform will return garbage if "rotation"
	// is not invertible or scale is 0.
	MatTransform InverseTransform() const;

	// ComposeTransforms returns the transform that is the composition
	// of this and other.  That is, if t3 = t1.ComposeTransforms(t2), then
	// t3.ApplyTransform(v) == t1.ApplyTransform(t2.ApplyTransform(v)).
	MatTransform ComposeTransforms(const MatTransform& other) const;

	bool IsNearlyEqualTo(const MatTransform& other) const {
		return translation.IsNearlyEqualTo(other.translation) && rotation.IsNearlyEqualTo(other.rotation)
			   && FloatsAreNearlyEqual(scale, other.scale);
	}
};

MatTransform CalcAverageMatTransform(const std::vector<MatTransform>& ts);
MatTransform CalcMedianMatTransform(const std::vector<MatTransform>& ts);


// Edge with uint16_t point indices
struct Edge {
	uint16_t p1;
	uint16_t p2;

	constexpr Edge(): p1(0), p2(0) {}
	constexpr Edge(uint16_t P1, uint16_t P2): p1(P1), p2(P2) {}

	constexpr bool CompareIndices(const Edge& o) { return (p1 == o.p1 && p2 == o.p2) || (p1 == o.p2 && p2 == o.p1); }
};

// Triangle with uint16_t point indices
struct Triangle {
	uint16_t p1;
	uint16_t p2;
	uint16_t p3;

	constexpr Triangle(): p1(0), p2(0), p3(0) {}
	constexpr Triangle(uint16_t P1, uint16_t P2, uint16_t P3): p1(P1), p2(P2), p3(P3) {}

	void set(uint16_t P1, uint16_t P2, uint16_t P3) {
		p1 = P1;
		p2 = P2;
		p3 = P3;
	}

	void trinormal(const Vector3* vertref, Vector3* outNormal) const {
		*outNormal = trinormal(vertref);
	}

	void trinormal(const std::vector<Vector3>& vertref, Vector3* outNormal) const {
		*outNormal = trinormal(&vertref[0]);
	}

	Vector3 trinormal(const Vector3* vertref) const {
		return (vertref[p2] - vertref[p1]).cross(vertref[p3] - vertref[p1]);
	}

	Vector3 trinormal(const std::vector<Vector3>& vertref) const {
		return trinormal(&vertref[0]);
	}

	void midpoint(const Vector3* vertref, Vector3& outPoint) {
		outPoint = vertref[p1];
		outPoint += vertref[p2];
		outPoint += vertref[p3];
		outPoint /= 3;
	}

	float AxisMidPointY(const Vector3* vertref) const { return (vertref[p1].y + vertref[p2].y + vertref[p3].y) / 3.0f; }

	float AxisMidPointX(const Vector3* vertref) const { return (vertref[p1].x + vertref[p2].x + vertref[p3].x) / 3.0f; }

	float AxisMidPointZ(const Vector3* vertref) const { return (vertref[p1].z + vertref[p2].z + vertref[p3].z) / 3.0f; }

	constexpr Edge GetEdge(int i) const {
		if (i == 0)
			return Edge(p1, p2);
		else if (i == 1)
			return Edge(p2, p3);
		else
			return Edge(p3, p1);
	}

	constexpr bool HasVertex(uint16_t p) const {
		return p == p1 || p == p2 || p == p3;
	}

	constexpr bool HasOrientedEdge(const Edge& e) const {
		return (e.p1 == p1 && e.p2 == p2) || (e.p1 == p2 && e.p2 == p3) || (e.p1 == p3 && e.p2 == p1);
	}

	Edge ClosestEdge(Vector3* vertref, const Vector3& p) const {
		float d1 = p.DistanceToSegment(vertref[p1], vertref[p2]);
		float d2 = p.DistanceToSegment(vertref[p2], vertref[p3]);
		float d3 = p.DistanceToSegment(vertref[p3], vertref[p1]);
		if (d1 <= d2 && d1 <= d3)
			return Edge(p1, p2);
		else if (d2 < d3)
			return Edge(p2, p3);
		return Edge(p3, p1);
	}

	uint16_t ClosestVertex(const Vector3* vertref, const Vector3& p) const {
		float d1 = p.DistanceTo(vertref[p1]);
		float d2 = p.DistanceTo(vertref[p2]);
		float d3 = p.DistanceTo(vertref[p3]);
		if (d1 <= d2 && d1 <= d3)
			return p1;
		else if (d2 <= d3)
			return p2;
		else
			return p3;
	}

	float DistanceToPoint(const Vector3* vertref, const Vector3& p) const {
		// Let pp be the projection of p onto the triangle's plane.
		// If pp is to the right of edge 1, then pp (and therefore p) is
		// closest to edge 1.  The same for edge 2 and edge 3.  Otherwise,
		// pp is inside the triangle.
		const Vector3& v1 = vertref[p1];
		const Vector3& v2 = vertref[p2];
		const Vector3& v3 = vertref[p3];
		Vector3 n = trinormal(vertref);
		if ((p - v1).dot((v2 - v1).cross(n)) >= 0)
			return p.DistanceToSegment(v1, v2);
		if ((p - v2).dot((v3 - v2).cross(n)) >= 0)
			return p.DistanceToSegment(v2, v3);
		if ((p - v3).dot((v1 - v3).cross(n)) >= 0)
			return p.DistanceToSegment(v3, v1);
		n.Normalize();
		return std::fabs((p - v1).dot(n));
	}

	bool IntersectRay(const Vector3* vertref,
					  const Vector3& origin,
					  const Vector3& direction,
					  float* outDistance = nullptr,
					  Vector3* worldPos = nullptr) {
		Vector3 c0(vertref[p1].x, vertref[p1].y, vertref[p1].z);
		Vector3 c1(vertref[p2].x, vertref[p2].y, vertref[p2].z);
		Vector3 c2(vertref[p3].x, vertref[p3].y, vertref[p3].z);

		Vector3 e1 = c1 - c0;
		Vector3 e2 = c2 - c0;
		float u, v;

		Vector3 pvec = direction.cross(e2);
		float det = e1.dot(pvec);

		if (det <= 0.0f)
			return false;

		Vector3 tvec = origin - c0;
		u = tvec.dot(pvec);
		if (u < 0 || u > det)
			return false;

		Vector3 qvec = tvec.cross(e1);
		v = direction.dot(qvec);
		if (v < 0 || u + v > det)
			return false;

		float dist = e2.dot(qvec);
		if (dist < 0)
			return false;

		dist *= (1.0f / det);

		if (outDistance)
			(*outDistance) = dist;
		if (worldPos)
			(*worldPos) = origin + (direction * dist);

		return true;
	}

	// Triangle/Sphere collision psuedocode by Christer Ericson: http://realtimecollisiondetection.net/blog/?p=103
	//   separating axis test on seven features --  3 points, 3 edges, and the tri plane.  For a sphere, this
	//   involves finding the minimum distance to each feature from the sphere origin and comparing it to the sphere radius.
	bool IntersectSphere(const Vector3* vertref, const Vector3& origin, float radius, float* outDistance = nullptr) {
		//A = A - P
		//B = B - P
		//C = C - P

		// Triangle points A,B,C.  translate them so the sphere's origin is their origin
		Vector3 A(vertref[p1].x, vertref[p1].y, vertref[p1].z);
		A = A - origin;
		Vector3 B(vertref[p2].x, vertref[p2].y, vertref[p2].z);
		B = B - origin;
		Vector3 C(vertref[p3].x, vertref[p3].y, vertref[p3].z);
		C = C - origin;

		//rr = r * r
		// Squared radius to avoid sqrts.
		float rr = radius * radius;
		//V = cross(B - A, C - A)

		// first test: tri plane.  Calculate the normal V
		Vector3 AB = B - A;
		Vector3 AC = C - A;
		Vector3 V = AB.cross(AC);
		//d = dot(A, V)
		//e = dot(V, V)
		// optimized distance test of the plane to the sphere -- removing sqrts and divides
		float d = A.dot(V);
		float e = V.dot(V); // e = squared normal vector length -- the normalization factor
		//sep1 = d * d > rr * e
		if (d * d > rr * e)
			return false;

		//aa = dot(A, A)
		//ab = dot(A, B)
		//ac = dot(A, C)
		//bb = dot(B, B)
		//bc = dot(B, C)
		//cc = dot(C, C)

		// second test: tri points.  A sparating axis exists if a point lies outside the sphere, and the other tri points aren't on the other side of the sphere.
		float aa = A.dot(A); // dist to point A
		float ab = A.dot(B);
		float ac = A.dot(C);
		float bb = B.dot(B); // dist to point B
		float bc = B.dot(C);
		float cc = C.dot(C); // dist to point C
		bool sep2 = (aa > rr) && (ab > aa) && (ac > aa);
		bool sep3 = (bb > rr) && (ab > bb) && (bc > bb);
		bool sep4 = (cc > rr) && (ac > cc) && (bc > cc);

		if (sep2 | sep3 | sep4)
			return false;

		//AB = B - A
		Vector3 BC = C - B;
		Vector3 CA = A - C;

		float d1 = ab - aa;
		d1 = A.dot(AB);
		float d2 = bc - bb;
		d2 = B.dot(BC);
		float d3 = ac - cc;
		d3 = C.dot(CA);

		//e1 = dot(AB, AB)
		//e2 = dot(BC, BC)
		//e3 = dot(CA, CA)
		float e1 = AB.dot(AB);
		float e2 = BC.dot(BC);
		float e3 = CA.dot(CA);

		//Q1 = A * e1 - d1 * AB
		//Q2 = B * e2 - d2 * BC
		//Q3 = C * e3 - d3 * CA
		//QC = C * e1 - Q1
		//QA = A * e2 - Q2
		//QB = B * e3 - Q3
		Vector3 Q1 = (A * e1) - (AB * d1);
		Vector3 Q2 = (B * e2) - (BC * d2);
		Vector3 Q3 = (C * e3) - (CA * d3);
		Vector3 QC = (C * e1) - Q1;
		Vector3 QA = (A * e2) - Q2;
		Vector3 QB = (B * e3) - Q3;

		//sep5 = [dot(Q1, Q1) > rr * e1 * e1] & [dot(Q1, QC) > 0]
		//sep6 = [dot(Q2, Q2) > rr * e2 * e2] & [dot(Q2, QA) > 0]
		//sep7 = [dot(Q3, Q3) > rr * e3 * e3] & [dot(Q3, QB) > 0]

		bool sep5 = (Q1.dot(Q1) > (rr * e1 * e1)) && (Q1.dot(QC) > 0);
		bool sep6 = (Q2.dot(Q2) > (rr * e2 * e2)) && (Q2.dot(QA) > 0);
		bool sep7 = (Q3.dot(Q3) > (rr * e3 * e3)) && (Q3.dot(QB) > 0);
		//separated = sep1 | sep2 | sep3 | sep4 | sep5 | sep6 | sep7
		if (sep5 | sep6 | sep7)
			return false;

		// Note that this calculation of outDistance does not give the
		// distance from the triangle to the point "origin"; it gives
		// the distance from "origin" to the nearest vertex of the triangle.
		// If you want the distance from the triangle to "origin",
		// Triangle::DistanceToPoint may be a better choice.
		if (outDistance)
			(*outDistance) = std::min({vertref[p1].DistanceTo(origin),
									   vertref[p2].DistanceTo(origin),
									   vertref[p3].DistanceTo(origin)});

		return true;
	}

	uint16_t& operator[](int ind) { return ind ? (ind == 2 ? p3 : p2) : p1; }
	const uint16_t& operator[](int ind) const { return ind ? (ind == 2 ? p3 : p2) : p1; }

	constexpr bool operator<(const Triangle& other) const {
		int d = 0;
		if (d == 0)
			d = p1 - other.p1;
		if (d == 0)
			d = p2 - other.p2;
		if (d == 0)
			d = p3 - other.p3;
		return d < 0;
	}

	constexpr bool operator==(const Triangle& other) const {
		return (p1 == other.p1 && p2 == other.p2 && p3 == other.p3);
	}

	constexpr bool CompareIndices(const Triangle& other) const {
		return ((p1 == other.p1 || p1 == other.p2 || p1 == other.p3)
				&& (p2 == other.p1 || p2 == other.p2 || p2 == other.p3)
				&& (p3 == other.p1 || p3 == other.p2 || p3 == other.p3));
	}

	void rot() {
		if (p2 < p1 && p2 < p3) {
			set(p2, p3, p1);
		}
		else if (p3 < p1) {
			set(p3, p1, p2);
		}
	}
};

inline constexpr bool operator==(const Edge& t1, const Edge& t2) {
	return ((t1.p1 == t2.p1) && (t1.p2 == t2.p2));
}

// Face with either 3 or 4 point and uv indices
struct Face {
	uint8_t nPoints = 0;
	uint16_t p1 = 0;
	uint16_t uv1 = 0;
	uint16_t p2 = 0;
	uint16_t uv2 = 0;
	uint16_t p3 = 0;
	uint16_t uv3 = 0;
	uint16_t p4 = 0;
	uint16_t uv4 = 0;

	Face(const uint8_t npts = 0, const uint16_t* points = nullptr, const uint16_t* tc = nullptr) {
		nPoints = npts;
		if (npts < 3)
			return;

		p1 = points[0];
		p2 = points[1];
		p3 = points[2];
		uv1 = tc[0];
		uv2 = tc[1];
		uv3 = tc[2];
		if (npts == 4) {
			p4 = points[3];
			uv4 = tc[3];
		}
	}
};

// Rectangle with float components (x1, y1, x2, y2)
struct Rect {
	float x1 = 0.0f;
	float y1 = 0.0f;
	float x2 = 0.0f;
	float y2 = 0.0f;

	Rect() {}

	Rect(float X1, float Y1, float X2, float Y2) {
		x1 = X1;
		y1 = Y1;
		x2 = X2;
		y2 = Y2;
	}

	float GetLeft() { return x1; }
	float GetTop() { return y1; }
	float GetRight() { return x2; }
	float GetBottom() { return y2; }

	Vector2 GetTopLeft() { return Vector2(x1, y1); }
	Vector2 GetBottomRight() { return Vector2(x2, y2); }
	Vector2 GetTopRight() { return Vector2(x2, y1); }
	Vector2 GetBottomLeft() { return Vector2(x1, y2); }

	Vector2 GetCenter() { return Vector2((x1 + x2) / 2, (y1 + y2) / 2); }

	float GetWidth() { return x2 - x1 + 1; }
	float GetHeight() { return y2 - y1 + 1; }
	Vector2 GetSize() { return Vector2(GetWidth(), GetHeight()); }

	void SetLeft(float pos) { x1 = pos; }
	void SetTop(float pos) { y1 = pos; }
	void SetRight(float pos) { x2 = pos; }
	void SetBottom(float pos) { y2 = pos; }

	void SetTopLeft(const Vector2& p) {
		x1 = p.u;
		y1 = p.v;
	}
	void SetBottomRight(const Vector2& p) {
		x2 = p.u;
		y2 = p.v;
	}
	void SetTopRight(const Vector2& p) {
		x2 = p.u;
		y1 = p.v;
	}
	void SetBottomLeft(const Vector2& p) {
		x1 = p.u;
		y2 = p.v;
	}

	void SetWidth(float w) { x2 = x1 + w - 1.0f; }
	void SetHeight(float h) { y2 = y1 + h - 1.0f; }

	Rect Normalized() {
		Rect r;

		if (x2 < x1) {
			r.x1 = x2;
			r.x2 = x1;
		}
		else {
			r.x1 = x1;
			r.x2 = x2;
		}

		if (y2 < y1) {
			r.y1 = y2;
			r.y2 = y1;
		}
		else {
			r.y1 = y1;
			r.y2 = y2;
		}

		return r;
	}

	bool Contains(const Vector2& p) {
		float l = 0.0f;
		float r = 0.0f;

		if (x2 < x1 - 1.0f) {
			l = x2;
			r = x1;
		}
		else {
			l = x1;
			r = x2;
		}

		if (p.u < l || p.u > r)
			return false;

		float t = 0.0f;
		float b = 0.0f;

		if (y2 < y1 - 1.0f) {
			t = y2;
			b = y1;
		}
		else {
			t = y1;
			b = y2;
		}

		if (p.v < t || p.v > b)
			return false;

		return true;
	}
};
} // namespace nifly

namespace std {
using namespace nifly;

template<>
struct hash<Edge> {
	std::size_t operator()(const Edge& t) const {
		return (static_cast<size_t>(t.p2) << 16) | (t.p1 & 0xFFFF);
	}
};

template<>
struct hash<Triangle> {
	std::size_t operator()(const Triangle& t) const {
		auto d = reinterpret_cast<const char*>(&t);
		std::size_t len = sizeof(Triangle);
		std::size_t hash, i;
		for (hash = i = 0; i < len; ++i) {
			hash += static_cast<size_t>(d[i]);
			hash += (hash << 10);
			hash ^= (hash >> 6);
		}
		hash += (hash << 3);
		hash ^= (hash >> 11);
		hash += (hash << 15);
		return hash;
	}
};
} // namespace std
