/*
nifly
C++ NIF library for the Gamebryo/NetImmerse File Format
See the included GPLv3 LICENSE file
*/

#pragma once

#include "Object3d.hpp"
#include <algorithm>
#include <memory>

// A specialized KD tree that finds duplicate vertices in a point cloud.

namespace nifly {
class kd_matcher {
public:
	class kd_node {
	public:
		uint16_t p;
		std::vector<uint16_t> matchset;
		std::unique_ptr<kd_node> less;
		std::unique_ptr<kd_node> more;

		kd_node(const uint16_t point) { p = point; }

		void add(const Vector3* pts, const uint16_t point, const uint32_t depth) {
			Vector3 d = pts[p] - pts[point];

			if (std::fabs(d.x) < EPSILON && std::fabs(d.y) < EPSILON && std::fabs(d.z) < EPSILON) {
				if (matchset.empty())
					matchset.push_back(p);

				matchset.push_back(point);
				return;
			}

			if (d[depth % 3] > 0) {
				if (more)
					more->add(pts, point, depth + 1);
				else
					more = std::make_unique<kd_node>(point);
			}
			else {
				if (less)
					less->add(pts, point, depth + 1);
				else
					less = std::make_unique<kd_node>(point);
			}
		}

		void collect(std::vector<std::vector<uint16_t>>& matches) {
			if (!matchset.empty())
				matches.push_back(std::move(matchset));

			if (more)
				more->collect(matches);
			if (less)
				less->collect(matches);
		}
	};

	std::vector<std::vector<uint16_t>> matches;

	kd_matcher(const Vector3* pts, const uint16_t cnt) {
		if (cnt <= 0)
			return;

		kd_node root(0);
		for (uint16_t i = 1; i < cnt; i++)
			root.add(pts, i, 0);

		root.collect(matches);
	}
};

// SortingMatcher: finds matching points, just like kd_matcher,
// but more robustly and hopefully more efficiently.
class SortingMatcher {
public:
	std::vector<std::vector<uint16_t>> matches;

	SortingMatcher(const Vector3* pts, const uint16_t cnt) {
		if (cnt <= 0)
			return;

		// Determine overall scale of the point set so we can determine a
		// good epsilon
		float scale = 0.0f;
		for (uint16_t i = 0; i < cnt; ++i)
			scale = std::max(scale, std::max(std::fabs(pts[i].x), std::max(std::fabs(pts[i].y), std::fabs(pts[i].z))));
		float epsilon = EPSILON * 0.01f * scale;

		std::vector<uint16_t> inds(cnt);
		for (uint16_t i = 0; i < cnt; ++i)
			inds[i] = i;

		std::sort(inds.begin(), inds.end(), [&pts](uint16_t i, uint16_t j) { return pts[i].x < pts[j].x; });

		std::vector<bool> used(cnt, false);
		for (uint16_t si = 0; si < cnt; ++si) {
			if (used[si])
				continue;

			bool matched = false;
			for (uint16_t mi = si + 1; mi < cnt; ++mi) {
				if (pts[inds[mi]].x - pts[inds[si]].x >= epsilon)
					break;

				if (used[mi])
					continue;
				if (std::fabs(pts[inds[si]].y - pts[inds[mi]].y) >= epsilon)
					continue;
				if (std::fabs(pts[inds[si]].z - pts[inds[mi]].z) >= epsilon)
					continue;

				if (!matched)
					matches.emplace_back(std::vector<uint16_t>(1, inds[si]));

				matched = true;
				matches.back().push_back(inds[mi]);
				used[mi] = true;
			}
		}
	}
};

template<typename index_t>
class kd_query_result {
public:
	const Vector3* v;
	index_t vertex_index;
	float distance;
	bool operator<(const kd_query_result& other) const { return distance < other.distance; }
};

// More general purpose KD tree that assembles a tree from input points and allows nearest neighbor and radius searches on the data.
template<typename index_t>
class kd_tree {
public:
	class kd_node {
	public:
		const Vector3* p = nullptr;
		index_t p_i = 0;
		std::unique_ptr<kd_node> less;
		std::unique_ptr<kd_node> more;

		kd_node(const Vector3* point, const index_t point_index) {
			p = point;
			p_i = point_index;
		}

		void add(const Vector3* point, const index_t point_index, const uint32_t depth) {
			uint32_t axis = depth % 3;
			bool domore = false;
			float dx = p->x - point->x;
			float dy = p->y - point->y;
			float dz = p->z - point->z;

			switch (axis) {
				case 0:
					if (dx > 0)
						domore = true;
					break;
				case 1:
					if (dy > 0)
						domore = true;
					break;
				case 2:
					if (dz > 0)
						domore = true;
					break;
			}
			if (domore) {
				if (more)
					return more->add(point, point_index, depth + 1);
				else
					more = std::make_unique<kd_node>(point, point_index);
			}
			else {
				if (less)
					return less->add(point, point_index, depth + 1);
				else
					less = std::make_unique<kd_node>(point, point_index);
			}
		}

		// Finds the closest point(s) to "querypoint" within the provided radius. If radius is 0, only the single closest point is found.
		// On first call, "mindist" should be set to FLT_MAX and depth set to 0.
		void find_closest(const Vector3* querypoint,
						  std::vector<kd_query_result<index_t>>& queryResult,
						  const float radius,
						  float& mindist,
						  const uint32_t depth = 0) {
			kd_query_result<index_t> kdqr;
			uint32_t axis = depth % 3;		 // Which separating axis to use based on depth
			float dx = p->x - querypoint->x; // Axis sides
			float dy = p->y - querypoint->y;
			float dz = p->z - querypoint->z;
			kd_node* act = less.get(); // Active search branch
			kd_node* opp = more.get(); // Opposite search branch
			float axisdist = 0.0f;	   // Distance from the query point to the separating axis
			float pointdist;		   // Distance from the query point to the node's point

			switch (axis) {
				case 0:
					if (dx > 0.0f) {
						act = more.get();
						opp = less.get();
					}
					axisdist = std::fabs(dx);
					break;
				case 1:
					if (dy > 0.0f) {
						act = more.get();
						opp = less.get();
					}
					axisdist = std::fabs(dy);
					break;
				case 2:
					if (dz > 0.0f) {
						act = more.get();
						opp = less.get();
					}
					axisdist = std::fabs(dz);
					break;
			}

			// The axis choice tells us which branch to search
			if (act)
				act->find_closest(querypoint, queryResult, radius, mindist, depth + 1);

			// On the way back out check current point to see if it's the closest
			// Fix? Might want to use squared distance instead... probably unnecessary.
			pointdist = querypoint->DistanceTo(*p);

			// No opposites
			bool notOpp = true;
			//notOpp = (querypoint->nx * p->nx + querypoint->ny * p->ny + querypoint->nz * p->nz) > 0.0f;

			if (pointdist <= mindist && notOpp) {
				kdqr.v = p;
				kdqr.vertex_index = p_i;
				kdqr.distance = pointdist;
				queryResult.push_back(kdqr);
				mindist = pointdist;
			}
			else if (radius > mindist
					 && notOpp) { // If there's room between the minimum distance and the search radius
				if (pointdist <= radius) { // check to see if the point falls in that space, and if so, add it.
					kdqr.v = p;
					kdqr.vertex_index = p_i;
					kdqr.distance = pointdist;
					queryResult.push_back(kdqr); // This is skipped if radius is 0
				}
			}

			// Check the opposite branch if it exists
			if (opp) {
				if (radius > 0.0f) {
					if (radius >= axisdist) // If separating axis is within the check radius
						opp->find_closest(querypoint, queryResult, radius, mindist, depth + 1);
				}
				else {
					// If separating axis is closer than the current minimum point
					// check if a closer point is on the other side of the axis.
					if (axisdist < mindist)
						opp->find_closest(querypoint, queryResult, radius, mindist, depth + 1);
				}
			}
		}
	};

	std::unique_ptr<kd_node> root;
	std::vector<kd_query_result<index_t>> queryResult;

	kd_tree(const Vector3* points, const index_t count) {
		if (count <= 0)
			return;

		index_t pointIndex = 0;
		root = std::make_unique<kd_node>(&points[0], pointIndex);
		for (index_t i = 1; i < count; i++)
			root->add(&points[i], i, 0);
	}

	index_t kd_nn(const Vector3* querypoint, const float radius) {
		float mindist = std::numeric_limits<float>().max();
		if (radius > 0.0f)
			mindist = radius;

		queryResult.clear();
		root->find_closest(querypoint, queryResult, radius, mindist);
		std::sort(queryResult.begin(), queryResult.end());

		return static_cast<index_t>(queryResult.size());
	}
};
} // namespace nifly
