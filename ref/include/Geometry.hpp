/*
nifly
C++ NIF library for the Gamebryo/NetImmerse File Format
See the included GPLv3 LICENSE file
*/

#pragma once

#include "BasicTypes.hpp"
#include "Objects.hpp"
#include "Shaders.hpp"
#include "Skin.hpp"
#include "VertexData.hpp"

#include <deque>

namespace nifly {
struct AdditionalDataInfo {
	int dataType = 0;
	uint32_t numChannelBytesPerElement = 0;
	uint32_t numChannelBytes = 0;
	uint32_t numTotalBytesPerElement = 0;
	uint32_t blockIndex = 0;
	uint32_t channelOffset = 0;
	uint8_t unkByte1 = 2;

	void Sync(NiStreamReversible& stream) {
		stream.Sync(dataType);
		stream.Sync(numChannelBytesPerElement);
		stream.Sync(numChannelBytes);
		stream.Sync(numTotalBytesPerElement);
		stream.Sync(blockIndex);
		stream.Sync(channelOffset);
		stream.Sync(unkByte1);
	}
};

struct AdditionalDataBlock {
	bool hasData = false;
	uint32_t blockSize = 0;

	uint32_t numBlocks = 0;
	std::vector<uint32_t> blockOffsets;

	uint32_t numData = 0;
	std::vector<uint32_t> dataSizes;
	std::vector<std::vector<uint8_t>> data;

	void Sync(NiStreamReversible& stream) {
		stream.Sync(hasData);

		if (hasData) {
			stream.Sync(blockSize);

			stream.Sync(numBlocks);
			blockOffsets.resize(numBlocks);
			for (uint32_t i = 0; i < numBlocks; i++)
				stream.Sync(blockOffsets[i]);

			stream.Sync(numData);
			dataSizes.resize(numData);
			for (uint32_t i = 0; i < numData; i++)
				stream.Sync(dataSizes[i]);

			data.resize(numData);
			for (uint32_t i = 0; i < numData; i++) {
				data[i].resize(blockSize);
				for (uint32_t j = 0; j < blockSize; j++)
					stream.Sync(data[i][j]);
			}
		}
	}
};

class AdditionalGeomData : public NiCloneable<AdditionalGeomData, NiObject> {};

class NiAdditionalGeometryData : public NiCloneableStreamable<NiAdditionalGeometryData, AdditionalGeomData> {
public:
	uint16_t numVertices = 0;
	NiSyncVector<AdditionalDataInfo> blockInfos;
	NiSyncVector<AdditionalDataBlock> blocks;

	static constexpr const char* BlockName = "NiAdditionalGeometryData";
	const char* GetBlockName() override { return BlockName; }

	void Sync(NiStreamReversible& stream);
};

struct BSPackedAdditionalDataBlock {
	bool hasData = false;
	uint32_t numTotalBytes = 0;

	uint32_t numBlocks = 0;
	std::vector<uint32_t> blockOffsets;

	uint32_t numAtoms = 0;
	std::vector<uint32_t> atomSizes;
	std::vector<uint8_t> data;

	uint32_t unkInt1 = 0;
	uint32_t numTotalBytesPerElement = 0;

	void Sync(NiStreamReversible& stream) {
		stream.Sync(hasData);

		if (hasData) {
			stream.Sync(numTotalBytes);

			stream.Sync(numBlocks);
			blockOffsets.resize(numBlocks);
			for (uint32_t i = 0; i < numBlocks; i++)
				stream.Sync(blockOffsets[i]);

			stream.Sync(numAtoms);
			atomSizes.resize(numAtoms);
			for (uint32_t i = 0; i < numAtoms; i++)
				stream.Sync(atomSizes[i]);

			data.resize(numTotalBytes);
			for (uint32_t i = 0; i < numTotalBytes; i++)
				stream.Sync(data[i]);
		}

		stream.Sync(unkInt1);
		stream.Sync(numTotalBytesPerElement);
	}
};

class BSPackedAdditionalGeometryData
	: public NiCloneableStreamable<BSPackedAdditionalGeometryData, AdditionalGeomData> {
public:
	uint16_t numVertices = 0;
	NiSyncVector<AdditionalDataInfo> blockInfos;
	NiSyncVector<BSPackedAdditionalDataBlock> blocks;

	static constexpr const char* BlockName = "BSPackedAdditionalGeometryData";
	const char* GetBlockName() override { return BlockName; }

	void Sync(NiStreamReversible& stream);
};

enum ConsistencyType : uint16_t { CT_MUTABLE = 0x0000, CT_STATIC = 0x4000, CT_VOLATILE = 0x8000 };

class NiGeometryData : public NiCloneableStreamable<NiGeometryData, NiObject> {
protected:
	bool isPSys = false;

	uint16_t numVertices = 0;
	bool hasVertices = true;
	bool hasNormals = false;
	bool hasVertexColors = false;
	BoundingSphere bounds;

public:
	std::vector<Vector3> vertices;
	std::vector<Vector3> normals;
	std::vector<Vector3> tangents;
	std::vector<Vector3> bitangents;
	std::vector<Color4> vertexColors;

	int groupID = 0;
	uint8_t compressFlags = 0;
	uint32_t materialCRC = 0;

	uint8_t keepFlags = 0;
	uint16_t dataFlags = 0;
	std::vector<std::vector<Vector2>> uvSets;

	ConsistencyType consistencyFlags = CT_MUTABLE;
	NiBlockRef<AdditionalGeomData> additionalDataRef;

	void Sync(NiStreamReversible& stream);
	void GetChildRefs(std::set<NiRef*>& refs) override;
	void GetChildIndices(std::vector<uint32_t>& indices) override;

	void notifyVerticesDelete(const std::vector<uint16_t>& vertIndices) override;

	uint16_t GetNumVertices() const;
	void SetVertices(const bool enable);
	bool HasVertices() const { return hasVertices; }

	void SetNormals(const bool enable);
	bool HasNormals() const { return hasNormals; }

	void SetVertexColors(const bool enable);
	bool HasVertexColors() const { return hasVertexColors; }

	void SetUVs(const bool enable);
	bool HasUVs() const { return (dataFlags & (1 << 0)) != 0; }

	void SetTangents(const bool enable);
	bool HasTangents() const { return (dataFlags & (1 << 12)) != 0; }

	virtual uint32_t GetNumTriangles() const;
	virtual bool GetTriangles(std::vector<Triangle>& tris) const;
	virtual void SetTriangles(const std::vector<Triangle>& tris);

	void SetBounds(const BoundingSphere& newBounds) { this->bounds = newBounds; }
	BoundingSphere GetBounds() const { return bounds; }
	void UpdateBounds();

	virtual void Create(NiVersion& version,
						const std::vector<Vector3>* verts,
						const std::vector<Triangle>* tris,
						const std::vector<Vector2>* uvs,
						const std::vector<Vector3>* norms);
	virtual void RecalcNormals(const bool smooth = true,
							   const float smoothThres = 60.0f,
							   std::unordered_set<uint32_t>* lockedIndices = nullptr);
	virtual void CalcTangentSpace();
};

class NiShape : public NiCloneable<NiShape, NiAVObject> {
public:
	virtual NiGeometryData* GetGeomData() const { return nullptr; }
	virtual void SetGeomData(NiGeometryData*) {}

	virtual bool HasData() const { return false; }
	virtual NiBlockRef<NiGeometryData>* DataRef() { return nullptr; }
	virtual const NiBlockRef<NiGeometryData>* DataRef() const { return nullptr; }

	virtual bool HasSkinInstance() const { return false; }
	virtual NiBlockRef<NiBoneContainer>* SkinInstanceRef() { return nullptr; }
	virtual const NiBlockRef<NiBoneContainer>* SkinInstanceRef() const { return nullptr; }

	virtual bool HasShaderProperty() const { return false; }
	virtual NiBlockRef<NiShader>* ShaderPropertyRef() { return nullptr; }
	virtual const NiBlockRef<NiShader>* ShaderPropertyRef() const { return nullptr; }

	virtual bool HasAlphaProperty() const { return false; }
	virtual NiBlockRef<NiAlphaProperty>* AlphaPropertyRef() { return nullptr; }
	virtual const NiBlockRef<NiAlphaProperty>* AlphaPropertyRef() const { return nullptr; }

	virtual uint16_t GetNumVertices() const;
	virtual void SetVertices(const bool enable);
	virtual bool HasVertices() const;

	virtual void SetUVs(const bool enable);
	virtual bool HasUVs() const;

	virtual void SetNormals(const bool enable);
	virtual bool HasNormals() const;

	virtual void SetTangents(const bool enable);
	virtual bool HasTangents() const;

	virtual void SetVertexColors(const bool enable);
	virtual bool HasVertexColors() const;

	virtual void SetSkinned(const bool enable);
	virtual bool IsSkinned() const;

	virtual uint32_t GetNumTriangles() const;
	virtual bool GetTriangles(std::vector<Triangle>& tris) const;
	virtual void SetTriangles(const std::vector<Triangle>& tris);
	virtual bool ReorderTriangles(const std::vector<uint32_t>& triInds);

	virtual void SetBounds(const BoundingSphere& bounds);
	virtual BoundingSphere GetBounds() const;
	virtual void UpdateBounds();

	int GetBoneID(const NiHeader& hdr, const std::string& boneName) const;
};


class BSTriShape : public NiCloneableStreamable<BSTriShape, NiShape> {
protected:
	NiBlockRef<NiBoneContainer> skinInstanceRef;
	NiBlockRef<NiShader> shaderPropertyRef;
	NiBlockRef<NiAlphaProperty> alphaPropertyRef;

	BoundingSphere bounds;
	float boundMinMax[6]{};

	uint32_t numTriangles = 0;
	uint16_t numVertices = 0;

public:
	VertexDesc vertexDesc;

	uint32_t dataSize = 0;
	uint32_t vertexSize = 0; // Not in file

	uint32_t particleDataSize = 0;
	std::vector<Vector3> particleVerts;
	std::vector<Vector3> particleNorms;
	std::vector<Triangle> particleTris;

	std::vector<Vector3> rawVertices;	// temporary copy filled by UpdateRawVertices function
	std::vector<Vector3> rawNormals;	// temporary copy filled by UpdateRawNormals function
	std::vector<Vector3> rawTangents;	// temporary copy filled by UpdateRawTangents function
	std::vector<Vector3> rawBitangents; // temporary copy filled by UpdateRawBitangents function
	std::vector<Vector2> rawUvs;		// temporary copy filled by UpdateRawUvs function
	std::vector<Color4> rawColors;		// temporary copy filled by UpdateRawColors function
	std::vector<float> rawEyeData;		// temporary copy filled by UpdateRawEyeData function

	std::vector<uint32_t> deletedTris; // temporary storage for BSSubIndexTriShape

	std::vector<BSVertexData> vertData;
	std::vector<Triangle> triangles;

	BSTriShape();

	static constexpr const char* BlockName = "BSTriShape";
	const char* GetBlockName() override { return BlockName; }

	void Sync(NiStreamReversible& stream);
	void notifyVerticesDelete(const std::vector<uint16_t>& vertIndices) override;
	void GetChildRefs(std::set<NiRef*>& refs) override;
	void GetChildIndices(std::vector<uint32_t>& indices) override;

	bool HasSkinInstance() const override { return !skinInstanceRef.IsEmpty(); }
	NiBlockRef<NiBoneContainer>* SkinInstanceRef() override { return &skinInstanceRef; }
	const NiBlockRef<NiBoneContainer>* SkinInstanceRef() const override { return &skinInstanceRef; }

	bool HasShaderProperty() const override { return !shaderPropertyRef.IsEmpty(); }
	NiBlockRef<NiShader>* ShaderPropertyRef() override { return &shaderPropertyRef; }
	const NiBlockRef<NiShader>* ShaderPropertyRef() const override { return &shaderPropertyRef; }

	bool HasAlphaProperty() const override { return !alphaPropertyRef.IsEmpty(); }
	NiBlockRef<NiAlphaProperty>* AlphaPropertyRef() override { return &alphaPropertyRef; }
	const NiBlockRef<NiAlphaProperty>* AlphaPropertyRef() const override { return &alphaPropertyRef; }

	std::vector<Vector3>& UpdateRawVertices();
	std::vector<Vector3>& UpdateRawNormals();
	std::vector<Vector3>& UpdateRawTangents();
	std::vector<Vector3>& UpdateRawBitangents();
	std::vector<Vector2>& UpdateRawUvs();
	std::vector<Color4>& UpdateRawColors();
	std::vector<float>& UpdateRawEyeData();

	uint16_t GetNumVertices() const override;
	void SetVertices(const bool enable) override;
	bool HasVertices() const override { return vertexDesc.HasFlag(VF_VERTEX); }

	void SetUVs(const bool enable) override;
	bool HasUVs() const override { return vertexDesc.HasFlag(VF_UV); }

	void SetSecondUVs(const bool enable);
	bool HasSecondUVs() const { return vertexDesc.HasFlag(VF_UV_2); }

	void SetNormals(const bool enable) override;
	bool HasNormals() const override { return vertexDesc.HasFlag(VF_NORMAL); }

	void SetTangents(const bool enable) override;
	bool HasTangents() const override { return vertexDesc.HasFlag(VF_TANGENT); }

	void SetVertexColors(const bool enable) override;
	bool HasVertexColors() const override { return vertexDesc.HasFlag(VF_COLORS); }

	void SetSkinned(const bool enable) override;
	bool IsSkinned() const override { return vertexDesc.HasFlag(VF_SKINNED); }

	void SetEyeData(const bool enable);
	bool HasEyeData() const { return vertexDesc.HasFlag(VF_EYEDATA); }

	void SetFullPrecision(const bool enable);
	bool IsFullPrecision() const { return vertexDesc.HasFlag(VF_FULLPREC); }
	bool CanChangePrecision() const { return (HasVertices()); }

	uint32_t GetNumTriangles() const override;
	bool GetTriangles(std::vector<Triangle>&) const override;
	void SetTriangles(const std::vector<Triangle>&) override;

	void SetBounds(const BoundingSphere& newBounds) override { bounds = newBounds; }
	BoundingSphere GetBounds() const override { return bounds; }
	void UpdateBounds() override;

	void SetVertexData(const std::vector<BSVertexData>& bsVertData);

	void SetNormals(const std::vector<Vector3>& inNorms);
	void RecalcNormals(const bool smooth = true,
					   const float smoothThres = 60.0f,
					   std::unordered_set<uint32_t>* lockedIndices = nullptr);
	void CalcTangentSpace();
	int CalcDataSizes(NiVersion& version);

	void SetTangentData(const std::vector<Vector3>& in);
	void SetBitangentData(const std::vector<Vector3>& in);
	void SetEyeData(const std::vector<float>& in);

	virtual void Create(NiVersion& version,
						const std::vector<Vector3>* verts,
						const std::vector<Triangle>* tris,
						const std::vector<Vector2>* uvs,
						const std::vector<Vector3>* normals = nullptr);
};


// NifSubSegmentInfo: not in file.  The portion of a subsegment's data
// that has nothing to do with triangle set partitioning.
struct NifSubSegmentInfo {
	// partID: a small nonnegative integer uniquely identifying this
	// subsegment among all the segments and subsegments.  Used as a value
	// in triParts.  Not in the file.
	int partID = 0;
	uint32_t userSlotID = 0;
	uint32_t material = 0;
	std::vector<float> extraData;
};

// NifSegmentInfo: not in file.  The portion of a segment's data that
// has nothing to do with triangle set partitioning.
struct NifSegmentInfo {
	// partID: a small nonnegative integer uniquely identifying this
	// segment among all the segments and subsegments.  Used as a value
	// in triParts.  Not in the file.
	int partID = 0;
	std::vector<NifSubSegmentInfo> subs;
};

// NifSegmentationInfo: not in file.  The portion of a shape's
// segmentation data that has nothing to do with triangle set partitioning.
// The intention is that this data structure can be used for any type of
// segmentation data, both BSSITSSegmentation and BSGeometrySegmentData.
struct NifSegmentationInfo {
	std::vector<NifSegmentInfo> segs;
	std::string ssfFile;
};


class BSGeometrySegmentData {
public:
	uint8_t flags = 0;
	uint32_t index = 0;
	uint32_t numTris = 0;

	void Sync(NiStreamReversible& stream);
};

class BSSubIndexTriShape : public NiCloneableStreamable<BSSubIndexTriShape, BSTriShape> {
public:
	class BSSITSSubSegment {
	public:
		uint32_t startIndex = 0;
		uint32_t numPrimitives = 0;
		uint32_t arrayIndex = 0;
		uint32_t unkInt1 = 0;
	};

	class BSSITSSegment {
	public:
		uint32_t startIndex = 0;
		uint32_t numPrimitives = 0;
		uint32_t parentArrayIndex = 0xFFFFFFFF;
		uint32_t numSubSegments = 0;
		std::vector<BSSITSSubSegment> subSegments;
	};

	class BSSITSSubSegmentDataRecord {
	public:
		uint32_t userSlotID = 0;
		uint32_t material = 0xFFFFFFFF;
		uint32_t numData = 0;
		std::vector<float> extraData;
	};

	class BSSITSSubSegmentData {
	public:
		uint32_t numSegments = 0;
		uint32_t numTotalSegments = 0;
		std::vector<uint32_t> arrayIndices;
		std::vector<BSSITSSubSegmentDataRecord> dataRecords;
		NiString ssfFile;
	};

	class BSSITSSegmentation {
	public:
		uint32_t numPrimitives = 0;
		uint32_t numSegments = 0;
		uint32_t numTotalSegments = 0;
		std::vector<BSSITSSegment> segments;
		BSSITSSubSegmentData subSegmentData;
	};

protected:
	// SSE
	uint32_t numSegments = 0;
	std::vector<BSGeometrySegmentData> segments;

	// FO4
	BSSITSSegmentation segmentation;

public:
	static constexpr const char* BlockName = "BSSubIndexTriShape";
	const char* GetBlockName() override { return BlockName; }

	void Sync(NiStreamReversible& stream);
	void notifyVerticesDelete(const std::vector<uint16_t>& vertIndices) override;

	std::vector<BSGeometrySegmentData> GetSegments() const;
	void SetSegments(const std::vector<BSGeometrySegmentData>& sd);

	void GetSegmentation(NifSegmentationInfo& inf, std::vector<int>& triParts) const;
	void SetSegmentation(const NifSegmentationInfo& inf, const std::vector<int>& triParts);

	void SetDefaultSegments();
	void Create(NiVersion& version,
				const std::vector<Vector3>* verts,
				const std::vector<Triangle>* tris,
				const std::vector<Vector2>* uvs,
				const std::vector<Vector3>* normals = nullptr) override;
};

class BSMeshLODTriShape : public NiCloneableStreamable<BSMeshLODTriShape, BSTriShape> {
public:
	uint32_t lodSize0 = 0;
	uint32_t lodSize1 = 0;
	uint32_t lodSize2 = 0;

	static constexpr const char* BlockName = "BSMeshLODTriShape";
	const char* GetBlockName() override { return BlockName; }

	void Sync(NiStreamReversible& stream);
	void notifyVerticesDelete(const std::vector<uint16_t>& vertIndices) override;
};

class BSDynamicTriShape : public NiCloneableStreamable<BSDynamicTriShape, BSTriShape> {
public:
	uint32_t dynamicDataSize;
	std::vector<Vector4> dynamicData;

	BSDynamicTriShape();

	static constexpr const char* BlockName = "BSDynamicTriShape";
	const char* GetBlockName() override { return BlockName; }

	void Sync(NiStreamReversible& stream);
	void notifyVerticesDelete(const std::vector<uint16_t>& vertIndices) override;
	void CalcDynamicData();

	void Create(NiVersion& version,
				const std::vector<Vector3>* verts,
				const std::vector<Triangle>* tris,
				const std::vector<Vector2>* uvs,
				const std::vector<Vector3>* normals = nullptr) override;
};

// BSGeometryMeshData is not a nif block object.  In order to be able to use the data as if it were a block
// data object for reading and modifying geometry data, we inherit the NiGeometryData interface, and override
// the Sync function.  The stream provided to sync for this object is not the same stream that is working with
// a nif file.  
class BSGeometryMeshData : public NiCloneableStreamable<BSGeometryMeshData, NiGeometryData> {
private:
	// Traditional scale based on havok to unit transform used in skyrim, fallout, etc. In Starfield mesh files are normalized to metric units,
	// this scale makes default vertex positions closely match the older games
	const float havokScale = 69.969f;
	// experimentally, the below scale produced very accurate values to SSE mesh sizes (comparing markerxheading.nif)
	// const float havokScale = 69.9866f;

public:
	struct BoneWeight {
		uint16_t boneIndex = 0;
		uint16_t weight = 0;
	};

	struct Meshlet {
		uint32_t vertCount = 0;
		uint32_t vertOffset = 0;
		uint32_t primCount = 0;
		uint32_t primOffset = 0;
	};

	struct CullData {
		Vector3 center;
		Vector3 expand;
	};

	uint32_t version = 0;

	uint32_t nTriIndices = 0;
	std::vector<Triangle> tris;

	float scale = 0.0f;
	uint32_t nWeightsPerVert = 0;

	// Vert count is a full 32 bits, versus the 16 bit count in NiGeometryData
	uint32_t nVertices = 0;
	std::vector<uint16_t> packedVerts;
	// vertices from NIGeometryData

	uint32_t nUV1 = 0;
	//std::vector<Vector2> uvs1;
	uint32_t nUV2 = 0;
	//std::vector<Vector2> uvs2;
	// uvSets from NiGeometryData  -- read/write interspersed with nUV1, nUV2

	uint32_t nColors = 0;
	std::vector<ByteColor4> vColors;
	// vertexColors from NiGeometryData

	uint32_t nNormals = 0;
	std::vector<uint32_t> packedNormals;
	// normals from NiGeometryData  (UDEC3 packed in file)

	uint32_t nTangents = 0;
	std::vector<uint32_t> packedTangents;
	// tangents from NiGeometryData  (UDEC3 packed in file)

	uint32_t nTotalWeights = 0;
	std::vector<std::vector<BoneWeight>> skinWeights;

	uint32_t nLODS = 0;
	std::vector<std::vector<Triangle>> lods;

	uint32_t nMeshlets = 0;
	std::vector<Meshlet> meshletList;

	uint32_t nCullData = 0;
	std::vector<CullData> cullDataList;

	void Sync(NiStreamReversible& stream);
};

struct BSGeometryMesh {
	uint32_t triSize = 0;
	uint32_t numVerts = 0;
	uint32_t flags = 0;		// Often 64

	// in official files, this is 41 characters: hex characters from sha1 of the mesh data split into 2 parts
	// with a path separator. The game does not seem to check the digest, so the same name can be used for
	// replacement, or probably a human-readable one
	NiString meshName;		

	BSGeometryMeshData meshData;
	void Sync(NiStreamReversible& stream);
};

class BSGeometry : public NiCloneableStreamable<BSGeometry, NiShape> {
protected:
	BoundingSphere bounds;
	float boundMinMax[6]{};

	NiBlockRef<NiBoneContainer> skinInstanceRef;
	NiBlockRef<NiShader> shaderPropertyRef;
	NiBlockRef<NiAlphaProperty> alphaPropertyRef;

	std::vector<BSGeometryMesh> meshes;

	// A currently selected BSGeometryMesh in the list of meshes. All get/set data accessors use this to
	// address a desired mesh
	uint8_t selectedMesh = 0;

public:
	static constexpr const char* BlockName = "BSGeometry";
	const char* GetBlockName() override { return BlockName; }

	void Sync(NiStreamReversible& stream);
	void GetChildRefs(std::set<NiRef*>& refs) override;
	void GetChildIndices(std::vector<uint32_t>& indices) override;
		
	NiGeometryData* GetGeomData() const override;

	bool GetTriangles(std::vector<Triangle>& tris) const override;
	void SetTriangles(const std::vector<Triangle>& tris) override;

	uint8_t MeshCount() { return (uint8_t) meshes.size();	}

	// SelectMesh provides a way to choose which mesh from the BSGeometryMesh list data accesessors will use.
	// If this is not called, functions to retrieve vertices, triangles, etc will default to the first mesh.
	// Returns a pointer to the mesh data selected.
	// TODO: this is not thread safe.  A mutex should be set in SelectMesh and released in ReleaseMesh to
	// avoid synchronization issues.  Alternatively, Get/Set data functions could be changed to take a
	// selector option, but that's a significant API change.
	BSGeometryMesh* SelectMesh(uint8_t whichMesh) {
		if (whichMesh < meshes.size()) {
			selectedMesh = whichMesh;
			return &meshes[selectedMesh];
		}
		return nullptr;
	}
	// ReleaseMesh resets the selected mesh data to default.  This is a stand in for a mutex unlock operation
	// so should always be called as soon after SelectMesh as possble.
	void ReleaseMesh() {
		selectedMesh = 0;
		return;
	}
};

class NiSkinInstance;

class NiGeometry : public NiCloneableStreamable<NiGeometry, NiShape> {
protected:
	NiBlockRef<NiGeometryData> dataRef;
	NiBlockRef<NiBoneContainer> skinInstanceRef;
	NiBlockRef<NiShader> shaderPropertyRef;
	NiBlockRef<NiAlphaProperty> alphaPropertyRef;

public:
	NiSyncVector<NiStringRef> materialNames;
	NiVector<uint32_t> materialExtraData;

	int activeMaterial = 0;
	uint8_t defaultMatNeedsUpdateFlag = 0;

	bool shader = false;
	NiStringRef shaderName;
	uint32_t implementation = 0;

	void Sync(NiStreamReversible& stream);
	void GetStringRefs(std::vector<NiStringRef*>& refs) override;
	void GetChildRefs(std::set<NiRef*>& refs) override;
	void GetChildIndices(std::vector<uint32_t>& indices) override;

	bool IsSkinned() const override;

	bool HasData() const override { return !dataRef.IsEmpty(); }
	NiBlockRef<NiGeometryData>* DataRef() override { return &dataRef; }
	const NiBlockRef<NiGeometryData>* DataRef() const override { return &dataRef; }

	bool HasSkinInstance() const override { return !skinInstanceRef.IsEmpty(); }
	NiBlockRef<NiBoneContainer>* SkinInstanceRef() override { return &skinInstanceRef; }
	const NiBlockRef<NiBoneContainer>* SkinInstanceRef() const override { return &skinInstanceRef; }

	bool HasShaderProperty() const override { return !shaderPropertyRef.IsEmpty(); }
	NiBlockRef<NiShader>* ShaderPropertyRef() override { return &shaderPropertyRef; }
	const NiBlockRef<NiShader>* ShaderPropertyRef() const override { return &shaderPropertyRef; }

	bool HasAlphaProperty() const override { return !alphaPropertyRef.IsEmpty(); }
	NiBlockRef<NiAlphaProperty>* AlphaPropertyRef() override { return &alphaPropertyRef; }
	const NiBlockRef<NiAlphaProperty>* AlphaPropertyRef() const override { return &alphaPropertyRef; }
};

class NiTriBasedGeom : public NiCloneable<NiTriBasedGeom, NiGeometry> {};

class NiTriBasedGeomData : public NiCloneableStreamable<NiTriBasedGeomData, NiGeometryData> {
protected:
	uint16_t numTriangles = 0;

public:
	void Sync(NiStreamReversible& stream);

	void Create(NiVersion& version,
				const std::vector<Vector3>* verts,
				const std::vector<Triangle>* tris,
				const std::vector<Vector2>* uvs,
				const std::vector<Vector3>* norms) override;
};

struct MatchGroup {
	uint16_t count = 0;
	std::vector<uint16_t> matches;
};

class NiTriShapeData : public NiCloneableStreamable<NiTriShapeData, NiTriBasedGeomData> {
protected:
	uint32_t numTrianglePoints = 0;
	bool hasTriangles = false;
	std::vector<Triangle> triangles;

	uint16_t numMatchGroups = 0;
	std::vector<MatchGroup> matchGroups;

public:
	static constexpr const char* BlockName = "NiTriShapeData";
	const char* GetBlockName() override { return BlockName; }

	void Sync(NiStreamReversible& stream);
	void Create(NiVersion& version,
				const std::vector<Vector3>* verts,
				const std::vector<Triangle>* tris,
				const std::vector<Vector2>* uvs,
				const std::vector<Vector3>* norms) override;
	void notifyVerticesDelete(const std::vector<uint16_t>& vertIndices) override;

	std::vector<MatchGroup> GetMatchGroups() const;
	void SetMatchGroups(const std::vector<MatchGroup>& mg);

	uint32_t GetNumTriangles() const override;
	bool GetTriangles(std::vector<Triangle>& tris) const override;
	void SetTriangles(const std::vector<Triangle>& tris) override;

	void RecalcNormals(const bool smooth = true,
					   const float smoothThres = 60.0f,
					   std::unordered_set<uint32_t>* lockedIndices = nullptr) override;
	void CalcTangentSpace() override;
};

class NiTriShape : public NiCloneable<NiTriShape, NiTriBasedGeom> {
protected:
	NiTriShapeData* shapeData = nullptr;

public:
	static constexpr const char* BlockName = "NiTriShape";
	const char* GetBlockName() override { return BlockName; }

	NiGeometryData* GetGeomData() const override;
	void SetGeomData(NiGeometryData* geomDataPtr) override;
};

class StripsInfo {
public:
	NiVector<uint16_t, uint16_t> stripLengths;
	bool hasPoints = true;
	std::vector<std::vector<uint16_t>> points;

	void Sync(NiStreamReversible& stream);
};

class NiTriStripsData : public NiCloneableStreamable<NiTriStripsData, NiTriBasedGeomData> {
public:
	StripsInfo stripsInfo;

	static constexpr const char* BlockName = "NiTriStripsData";
	const char* GetBlockName() override { return BlockName; }

	void Sync(NiStreamReversible& stream);
	void notifyVerticesDelete(const std::vector<uint16_t>& vertIndices) override;

	uint32_t GetNumTriangles() const override;
	bool GetTriangles(std::vector<Triangle>& tris) const override;
	void SetTriangles(const std::vector<Triangle>& tris) override;
	std::vector<Triangle> StripsToTris() const;

	void RecalcNormals(const bool smooth = true,
					   const float smoothThres = 60.0f,
					   std::unordered_set<uint32_t>* lockedIndices = nullptr) override;
	void CalcTangentSpace() override;
};

class NiTriStrips : public NiCloneable<NiTriStrips, NiTriBasedGeom> {
protected:
	NiTriStripsData* stripsData = nullptr;

public:
	static constexpr const char* BlockName = "NiTriStrips";
	const char* GetBlockName() override { return BlockName; }

	NiGeometryData* GetGeomData() const override;
	void SetGeomData(NiGeometryData* geomDataPtr) override;

	bool ReorderTriangles(const std::vector<uint32_t>&) override { return false; }
};

class NiLinesData : public NiCloneableStreamable<NiLinesData, NiGeometryData> {
public:
	std::deque<bool> lineFlags;

	static constexpr const char* BlockName = "NiLinesData";
	const char* GetBlockName() override { return BlockName; }

	void Sync(NiStreamReversible& stream);
	void notifyVerticesDelete(const std::vector<uint16_t>& vertIndices) override;
};

class NiLines : public NiCloneable<NiLines, NiTriBasedGeom> {
protected:
	NiLinesData* linesData = nullptr;

public:
	static constexpr const char* BlockName = "NiLines";
	const char* GetBlockName() override { return BlockName; }

	NiGeometryData* GetGeomData() const override;
	void SetGeomData(NiGeometryData* geomDataPtr) override;
};

struct PolygonInfo {
	uint16_t numVertices = 0;
	uint16_t vertexOffset = 0;
	uint16_t numTriangles = 0;
	uint16_t triangleOffset = 0;
};

class NiScreenElementsData : public NiCloneableStreamable<NiScreenElementsData, NiTriShapeData> {
protected:
	uint16_t maxPolygons = 0;
	std::vector<PolygonInfo> polygons;
	std::vector<uint16_t> polygonIndices;

	uint16_t polygonGrowBy = 1;
	uint16_t numPolygons = 0;
	uint16_t maxVertices = 0;
	uint16_t verticesGrowBy = 1;
	uint16_t maxIndices = 0;
	uint16_t indicesGrowBy = 1;

public:
	static constexpr const char* BlockName = "NiScreenElementsData";
	const char* GetBlockName() override { return BlockName; }

	void Sync(NiStreamReversible& stream);
	void notifyVerticesDelete(const std::vector<uint16_t>& vertIndices) override;
};

class NiScreenElements : public NiCloneable<NiScreenElements, NiTriShape> {
protected:
	NiScreenElementsData* elemData = nullptr;

public:
	static constexpr const char* BlockName = "NiScreenElements";
	const char* GetBlockName() override { return BlockName; }

	NiGeometryData* GetGeomData() const override;
	void SetGeomData(NiGeometryData* geomDataPtr) override;
};

class BSLODTriShape : public NiCloneableStreamable<BSLODTriShape, NiTriBasedGeom> {
protected:
	NiTriShapeData* shapeData = nullptr;

public:
	uint32_t level0 = 0;
	uint32_t level1 = 0;
	uint32_t level2 = 0;

	static constexpr const char* BlockName = "BSLODTriShape";
	const char* GetBlockName() override { return BlockName; }

	NiGeometryData* GetGeomData() const override;
	void SetGeomData(NiGeometryData* geomDataPtr) override;

	void Sync(NiStreamReversible& stream);
};

class BSSegmentedTriShape : public NiCloneableStreamable<BSSegmentedTriShape, NiTriShape> {
protected:
	uint32_t numSegments = 0;
	std::vector<BSGeometrySegmentData> segments;

public:
	static constexpr const char* BlockName = "BSSegmentedTriShape";
	const char* GetBlockName() override { return BlockName; }

	void Sync(NiStreamReversible& stream);

	std::vector<BSGeometrySegmentData> GetSegments() const;
	void SetSegments(const std::vector<BSGeometrySegmentData>& sd);
};
} // namespace nifly
