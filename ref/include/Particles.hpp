/*
nifly
C++ NIF library for the Gamebryo/NetImmerse File Format
See the included GPLv3 LICENSE file
*/

#pragma once

#include "BasicTypes.hpp"
#include "Geometry.hpp"
#include "Nodes.hpp"

namespace nifly {
class NiParticles : public NiCloneable<NiParticles, NiGeometry> {
public:
	static constexpr const char* BlockName = "NiParticles";
	const char* GetBlockName() override { return BlockName; }
};

class NiAutoNormalParticles : public NiCloneable<NiAutoNormalParticles, NiParticles> {
public:
	static constexpr const char* BlockName = "NiAutoNormalParticles";
	const char* GetBlockName() override { return BlockName; }
};

class NiParticleMeshes : public NiCloneable<NiParticleMeshes, NiParticles> {
public:
	static constexpr const char* BlockName = "NiParticleMeshes";
	const char* GetBlockName() override { return BlockName; }
};

class NiRotatingParticles : public NiCloneable<NiRotatingParticles, NiParticles> {
public:
	static constexpr const char* BlockName = "NiRotatingParticles";
	const char* GetBlockName() override { return BlockName; }
};

class NiParticlesData : public NiCloneableStreamable<NiParticlesData, NiGeometryData> {
public:
	bool hasRadii = false;
	std::vector<float> radii;

	uint16_t numActive = 0;

	bool hasSizes = false;
	std::vector<float> sizes;

	bool hasRotations = false;
	std::vector<Quaternion> rotations;

	bool hasRotationAngles = false;
	std::vector<float> rotationAngles;

	bool hasRotationAxes = false;
	std::vector<Vector3> rotationAxes;

	bool hasTextureIndices = false;

	NiVector<Vector4> subtexOffsets;

	float aspectRatio = 0.0f;
	uint16_t aspectFlags = 0;
	float speedToAspectAspect2 = 0.0f;
	float speedToAspectSpeed1 = 0.0f;
	float speedToAspectSpeed2 = 0.0f;

	NiParticlesData();

	static constexpr const char* BlockName = "NiParticlesData";
	const char* GetBlockName() override { return BlockName; }

	void Sync(NiStreamReversible& stream);
};

class NiAutoNormalParticlesData : public NiCloneable<NiAutoNormalParticlesData, NiParticlesData> {
public:
	static constexpr const char* BlockName = "NiAutoNormalParticlesData";
	const char* GetBlockName() override { return BlockName; }
};

class NiRotatingParticlesData : public NiCloneable<NiRotatingParticlesData, NiParticlesData> {
public:
	static constexpr const char* BlockName = "NiRotatingParticlesData";
	const char* GetBlockName() override { return BlockName; }
};

class NiParticleMeshesData : public NiCloneableStreamable<NiParticleMeshesData, NiRotatingParticlesData> {
public:
	NiBlockRef<NiAVObject> dataRef;

	static constexpr const char* BlockName = "NiParticleMeshesData";
	const char* GetBlockName() override { return BlockName; }

	void Sync(NiStreamReversible& stream);
	void GetChildRefs(std::set<NiRef*>& refs) override;
	void GetChildIndices(std::vector<uint32_t>& indices) override;
};

struct NiParticleInfo {
	Vector3 velocity;
	Vector3 rotationAxis;
	float age = 0.0f;
	float lifeSpan = 0.0f;
	float lastUpdate = 0.0f;
	uint16_t spawnGeneration = 0;
	uint16_t code = 0;

	void Sync(NiStreamReversible& stream) {
		stream.Sync(velocity);

		if (stream.GetVersion().File() <= V10_4_0_1)
			stream.Sync(rotationAxis);

		stream.Sync(age);
		stream.Sync(lifeSpan);
		stream.Sync(lastUpdate);
		stream.Sync(spawnGeneration);
		stream.Sync(code);
	}
};

class NiPSysData : public NiCloneableStreamable<NiPSysData, NiRotatingParticlesData> {
public:
	std::vector<NiParticleInfo> particleInfo;

	Vector3 unknownVector;
	uint8_t unknownQQSpeedByte1 = 0;
	bool hasRotationSpeeds = false;

	std::vector<float> rotationSpeeds;
	uint16_t numAddedParticles = 0;
	uint16_t addedParticlesBase = 0;

	uint8_t unknownQQSpeedByte2 = 0;

	static constexpr const char* BlockName = "NiPSysData";
	const char* GetBlockName() override { return BlockName; }

	void Sync(NiStreamReversible& stream);
};

class NiMeshPSysData : public NiCloneableStreamable<NiMeshPSysData, NiPSysData> {
public:
	uint32_t defaultPoolSize = 0;
	bool fillPoolsOnLoad = false;

	NiVector<uint32_t> generationPoolSize;
	NiBlockRef<NiNode> nodeRef;

	static constexpr const char* BlockName = "NiMeshPSysData";
	const char* GetBlockName() override { return BlockName; }

	void Sync(NiStreamReversible& stream);
	void GetChildRefs(std::set<NiRef*>& refs) override;
	void GetChildIndices(std::vector<uint32_t>& indices) override;
};

class BSStripPSysData : public NiCloneableStreamable<BSStripPSysData, NiPSysData> {
public:
	uint16_t maxPointCount = 0;
	uint32_t startCapSize = 0;
	uint32_t endCapSize = 0;
	bool doZPrepass = false;

	static constexpr const char* BlockName = "BSStripPSysData";
	const char* GetBlockName() override { return BlockName; }

	void Sync(NiStreamReversible& stream);
};

class NiPSysEmitterCtlrData : public NiCloneableStreamable<NiPSysEmitterCtlrData, NiObject> {
public:
	NiAnimationKeyGroup<float> floatKeys;
	NiSyncVector<NiAnimationKey<uint8_t>> visibilityKeys;

	static constexpr const char* BlockName = "NiPSysEmitterCtlrData";
	const char* GetBlockName() override { return BlockName; }

	void Sync(NiStreamReversible& stream);
};

class NiPSysEmitterCtlr : public NiCloneableStreamable<NiPSysEmitterCtlr, NiPSysModifierCtlr> {
public:
	NiBlockRef<NiPSysEmitterCtlrData> dataRef;
	NiBlockRef<NiInterpolator> visInterpolatorRef;

	static constexpr const char* BlockName = "NiPSysEmitterCtlr";
	const char* GetBlockName() override { return BlockName; }

	void Sync(NiStreamReversible& stream);
	void GetChildRefs(std::set<NiRef*>& refs) override;
	void GetChildIndices(std::vector<uint32_t>& indices) override;
};

class BSMasterParticleSystem;

class BSPSysMultiTargetEmitterCtlr
	: public NiCloneableStreamable<BSPSysMultiTargetEmitterCtlr, NiPSysEmitterCtlr> {
public:
	uint16_t maxEmitters = 0;
	NiBlockPtr<BSMasterParticleSystem> masterParticleSystemRef;

	static constexpr const char* BlockName = "BSPSysMultiTargetEmitterCtlr";
	const char* GetBlockName() override { return BlockName; }

	void Sync(NiStreamReversible& stream);
	void GetPtrs(std::set<NiPtr*>& ptrs) override;
};

class NiParticleSystem;

class NiPSysModifier : public NiCloneableStreamable<NiPSysModifier, NiObject> {
public:
	NiStringRef name;
	uint32_t order = 0;
	NiBlockPtr<NiParticleSystem> targetRef;
	bool isActive = false;

	void Sync(NiStreamReversible& stream);
	void GetStringRefs(std::vector<NiStringRef*>& refs) override;
	void GetPtrs(std::set<NiPtr*>& ptrs) override;
};

class BSPSysStripUpdateModifier : public NiCloneableStreamable<BSPSysStripUpdateModifier, NiPSysModifier> {
public:
	float updateDeltaTime = 0.0f;

	static constexpr const char* BlockName = "BSPSysStripUpdateModifier";
	const char* GetBlockName() override { return BlockName; }

	void Sync(NiStreamReversible& stream);
};

class NiPSysSpawnModifier : public NiCloneableStreamable<NiPSysSpawnModifier, NiPSysModifier> {
public:
	uint16_t numSpawnGenerations = 0;
	float percentSpawned = 0.0f;
	uint16_t minSpawned = 0;
	uint16_t maxSpawned = 0;
	float spawnSpeedVariation = 0.0f;
	float spawnDirVariation = 0.0f;
	float lifeSpan = 0.0f;
	float lifeSpanVariation = 0.0f;

	static constexpr const char* BlockName = "NiPSysSpawnModifier";
	const char* GetBlockName() override { return BlockName; }

	void Sync(NiStreamReversible& stream);
};

class NiPSysAgeDeathModifier : public NiCloneableStreamable<NiPSysAgeDeathModifier, NiPSysModifier> {
public:
	bool spawnOnDeath = false;
	NiBlockRef<NiPSysSpawnModifier> spawnModifierRef;

	static constexpr const char* BlockName = "NiPSysAgeDeathModifier";
	const char* GetBlockName() override { return BlockName; }

	void Sync(NiStreamReversible& stream);
	void GetChildRefs(std::set<NiRef*>& refs) override;
	void GetChildIndices(std::vector<uint32_t>& indices) override;
};

class BSPSysLODModifier : public NiCloneableStreamable<BSPSysLODModifier, NiPSysModifier> {
public:
	float lodBeginDistance = 0.1f;
	float lodEndDistance = 0.7f;
	float endEmitScale = 0.2f;
	float endSize = 1.0f;

	static constexpr const char* BlockName = "BSPSysLODModifier";
	const char* GetBlockName() override { return BlockName; }

	void Sync(NiStreamReversible& stream);
};

class BSPSysSimpleColorModifier : public NiCloneableStreamable<BSPSysSimpleColorModifier, NiPSysModifier> {
public:
	float fadeInPercent = 0.0f;
	float fadeOutPercent = 0.0f;
	float color1EndPercent = 0.0f;
	float color2StartPercent = 0.0f;
	float color2EndPercent = 0.0f;
	float color3StartPercent = 0.0f;
	Color4 color1;
	Color4 color2;
	Color4 color3;
	uint16_t unknownShorts[26]{};

	static constexpr const char* BlockName = "BSPSysSimpleColorModifier";
	const char* GetBlockName() override { return BlockName; }

	void Sync(NiStreamReversible& stream);
};

class NiPSysRotationModifier : public NiCloneableStreamable<NiPSysRotationModifier, NiPSysModifier> {
public:
	float initialSpeed = 0.0f;
	float initialSpeedVariation = 0.0f;
	Vector4 unknownVector;
	uint8_t unknownByte = 0;
	float initialAngle = 0.0f;
	float initialAngleVariation = 0.0f;
	bool randomSpeedSign = false;
	bool randomInitialAxis = false;
	Vector3 initialAxis;

	static constexpr const char* BlockName = "NiPSysRotationModifier";
	const char* GetBlockName() override { return BlockName; }

	void Sync(NiStreamReversible& stream);
};

class BSPSysScaleModifier : public NiCloneableStreamable<BSPSysScaleModifier, NiPSysModifier> {
public:
	NiVector<float> floats;

	static constexpr const char* BlockName = "BSPSysScaleModifier";
	const char* GetBlockName() override { return BlockName; }

	void Sync(NiStreamReversible& stream);
};

enum ForceType : uint32_t { FORCE_PLANAR, FORCE_SPHERICAL, FORCE_UNKNOWN };

class NiPSysGravityModifier : public NiCloneableStreamable<NiPSysGravityModifier, NiPSysModifier> {
public:
	NiBlockPtr<NiNode> gravityObjRef;
	Vector3 gravityAxis;
	float decay = 0.0f;
	float strength = 0.0f;
	ForceType forceType = FORCE_UNKNOWN;
	float turbulence = 0.0f;
	float turbulenceScale = 1.0f;
	bool worldAligned = false;

	static constexpr const char* BlockName = "NiPSysGravityModifier";
	const char* GetBlockName() override { return BlockName; }

	void Sync(NiStreamReversible& stream);
	void GetPtrs(std::set<NiPtr*>& ptrs) override;
};

class NiPSysPositionModifier : public NiCloneable<NiPSysPositionModifier, NiPSysModifier> {
public:
	static constexpr const char* BlockName = "NiPSysPositionModifier";
	const char* GetBlockName() override { return BlockName; }
};

class NiPSysBoundUpdateModifier : public NiCloneableStreamable<NiPSysBoundUpdateModifier, NiPSysModifier> {
public:
	uint16_t updateSkip = 0;

	static constexpr const char* BlockName = "NiPSysBoundUpdateModifier";
	const char* GetBlockName() override { return BlockName; }

	void Sync(NiStreamReversible& stream);
};

class NiPSysDragModifier : public NiCloneableStreamable<NiPSysDragModifier, NiPSysModifier> {
public:
	NiBlockPtr<NiObject> parentRef;
	Vector3 dragAxis;
	float percentage = 0.0f;
	float range = 0.0f;
	float rangeFalloff = 0.0f;

	static constexpr const char* BlockName = "NiPSysDragModifier";
	const char* GetBlockName() override { return BlockName; }

	void Sync(NiStreamReversible& stream);
	void GetPtrs(std::set<NiPtr*>& ptrs) override;
};

class BSPSysInheritVelocityModifier
	: public NiCloneableStreamable<BSPSysInheritVelocityModifier, NiPSysModifier> {
public:
	NiBlockPtr<NiNode> targetNodeRef;
	float changeToInherit = 0.0f;
	float velocityMult = 0.0f;
	float velocityVar = 0.0f;

	static constexpr const char* BlockName = "BSPSysInheritVelocityModifier";
	const char* GetBlockName() override { return BlockName; }

	void Sync(NiStreamReversible& stream);
	void GetPtrs(std::set<NiPtr*>& ptrs) override;
};

class BSPSysSubTexModifier : public NiCloneableStreamable<BSPSysSubTexModifier, NiPSysModifier> {
public:
	float startFrame = 0.0f;
	float startFrameVariation = 0.0f;
	float endFrame = 0.0f;
	float loopStartFrame = 0.0f;
	float loopStartFrameVariation = 0.0f;
	float frameCount = 0.0f;
	float frameCountVariation = 0.0f;

	static constexpr const char* BlockName = "BSPSysSubTexModifier";
	const char* GetBlockName() override { return BlockName; }

	void Sync(NiStreamReversible& stream);
};

enum DecayType : uint32_t { DECAY_NONE, DECAY_LINEAR, DECAY_EXPONENTIAL };

enum SymmetryType : uint32_t { SYMMETRY_SPHERICAL, SYMMETRY_CYLINDRICAL, SYMMETRY_PLANAR };

class NiPSysBombModifier : public NiCloneableStreamable<NiPSysBombModifier, NiPSysModifier> {
public:
	NiBlockPtr<NiNode> bombNodeRef;
	Vector3 bombAxis;
	float decay = 0.0f;
	float deltaV = 0.0f;
	DecayType decayType = DECAY_NONE;
	SymmetryType symmetryType = SYMMETRY_SPHERICAL;

	static constexpr const char* BlockName = "NiPSysBombModifier";
	const char* GetBlockName() override { return BlockName; }

	void Sync(NiStreamReversible& stream);
	void GetPtrs(std::set<NiPtr*>& ptrs) override;
};

class NiColorData : public NiCloneableStreamable<NiColorData, NiObject> {
public:
	NiAnimationKeyGroup<Color4> data;

	static constexpr const char* BlockName = "NiColorData";
	const char* GetBlockName() override { return BlockName; }

	void Sync(NiStreamReversible& stream);
};

class NiPSysColorModifier : public NiCloneableStreamable<NiPSysColorModifier, NiPSysModifier> {
public:
	NiBlockRef<NiColorData> dataRef;

	static constexpr const char* BlockName = "NiPSysColorModifier";
	const char* GetBlockName() override { return BlockName; }

	void Sync(NiStreamReversible& stream);
	void GetChildRefs(std::set<NiRef*>& refs) override;
	void GetChildIndices(std::vector<uint32_t>& indices) override;
};

class NiPSysGrowFadeModifier : public NiCloneableStreamable<NiPSysGrowFadeModifier, NiPSysModifier> {
public:
	float growTime = 0.0f;
	uint16_t growGeneration = 0;
	float fadeTime = 0.0f;
	uint16_t fadeGeneration = 0;
	float baseScale = 0.0f;

	static constexpr const char* BlockName = "NiPSysGrowFadeModifier";
	const char* GetBlockName() override { return BlockName; }

	void Sync(NiStreamReversible& stream);
};

class NiPSysMeshUpdateModifier : public NiCloneableStreamable<NiPSysMeshUpdateModifier, NiPSysModifier> {
public:
	NiBlockRefArray<NiAVObject> meshRefs;

	static constexpr const char* BlockName = "NiPSysMeshUpdateModifier";
	const char* GetBlockName() override { return BlockName; }

	void Sync(NiStreamReversible& stream);
	void GetChildRefs(std::set<NiRef*>& refs) override;
	void GetChildIndices(std::vector<uint32_t>& indices) override;
};

class NiPSysFieldModifier : public NiCloneableStreamable<NiPSysFieldModifier, NiPSysModifier> {
public:
	NiBlockRef<NiAVObject> fieldObjectRef;
	float magnitude = 0.0f;
	float attenuation = 0.0f;
	bool useMaxDistance = false;
	float maxDistance = 0.0f;

	void Sync(NiStreamReversible& stream);
	void GetChildRefs(std::set<NiRef*>& refs) override;
	void GetChildIndices(std::vector<uint32_t>& indices) override;
};

class NiPSysVortexFieldModifier
	: public NiCloneableStreamable<NiPSysVortexFieldModifier, NiPSysFieldModifier> {
public:
	Vector3 direction;

	static constexpr const char* BlockName = "NiPSysVortexFieldModifier";
	const char* GetBlockName() override { return BlockName; }

	void Sync(NiStreamReversible& stream);
};

class NiPSysGravityFieldModifier
	: public NiCloneableStreamable<NiPSysGravityFieldModifier, NiPSysFieldModifier> {
public:
	Vector3 direction;

	static constexpr const char* BlockName = "NiPSysGravityFieldModifier";
	const char* GetBlockName() override { return BlockName; }

	void Sync(NiStreamReversible& stream);
};

class NiPSysDragFieldModifier : public NiCloneableStreamable<NiPSysDragFieldModifier, NiPSysFieldModifier> {
public:
	bool useDirection = false;
	Vector3 direction;

	static constexpr const char* BlockName = "NiPSysDragFieldModifier";
	const char* GetBlockName() override { return BlockName; }

	void Sync(NiStreamReversible& stream);
};

class NiPSysTurbulenceFieldModifier
	: public NiCloneableStreamable<NiPSysTurbulenceFieldModifier, NiPSysFieldModifier> {
public:
	float frequency = 0.0f;

	static constexpr const char* BlockName = "NiPSysTurbulenceFieldModifier";
	const char* GetBlockName() override { return BlockName; }

	void Sync(NiStreamReversible& stream);
};

class NiPSysAirFieldModifier : public NiCloneableStreamable<NiPSysAirFieldModifier, NiPSysFieldModifier> {
public:
	Vector3 direction;
	float airFriction = 0.0f;
	float inheritVelocity = 0.0f;
	bool inheritRotation = false;
	bool componentOnly = false;
	bool enableSpread = false;
	float spread = 0.0f;

	static constexpr const char* BlockName = "NiPSysAirFieldModifier";
	const char* GetBlockName() override { return BlockName; }

	void Sync(NiStreamReversible& stream);
};

class NiPSysRadialFieldModifier
	: public NiCloneableStreamable<NiPSysRadialFieldModifier, NiPSysFieldModifier> {
public:
	uint32_t radialType = 0;

	static constexpr const char* BlockName = "NiPSysRadialFieldModifier";
	const char* GetBlockName() override { return BlockName; }

	void Sync(NiStreamReversible& stream);
};

class BSWindModifier : public NiCloneableStreamable<BSWindModifier, NiPSysModifier> {
public:
	float strength = 0.0f;

	static constexpr const char* BlockName = "BSWindModifier";
	const char* GetBlockName() override { return BlockName; }

	void Sync(NiStreamReversible& stream);
};

class BSPSysRecycleBoundModifier : public NiCloneableStreamable<BSPSysRecycleBoundModifier, NiPSysModifier> {
public:
	Vector3 boundOffset;
	Vector3 boundExtent;
	NiBlockPtr<NiNode> targetNodeRef;

	static constexpr const char* BlockName = "BSPSysRecycleBoundModifier";
	const char* GetBlockName() override { return BlockName; }

	void Sync(NiStreamReversible& stream);
	void GetPtrs(std::set<NiPtr*>& ptrs) override;
};

class BSPSysHavokUpdateModifier : public NiCloneableStreamable<BSPSysHavokUpdateModifier, NiPSysModifier> {
public:
	NiBlockRefArray<NiNode> nodeRefs;
	NiBlockRef<NiPSysModifier> modifierRef;

	static constexpr const char* BlockName = "BSPSysHavokUpdateModifier";
	const char* GetBlockName() override { return BlockName; }

	void Sync(NiStreamReversible& stream);
	void GetChildRefs(std::set<NiRef*>& refs) override;
	void GetChildIndices(std::vector<uint32_t>& indices) override;
};

class BSParentVelocityModifier : public NiCloneableStreamable<BSParentVelocityModifier, NiPSysModifier> {
public:
	float damping = 0.0f;

	static constexpr const char* BlockName = "BSParentVelocityModifier";
	const char* GetBlockName() override { return BlockName; }

	void Sync(NiStreamReversible& stream);
};

class BSMasterParticleSystem : public NiCloneableStreamable<BSMasterParticleSystem, NiNode> {
public:
	uint16_t maxEmitterObjs = 0;
	NiBlockRefArray<NiAVObject> particleSysRefs;

	static constexpr const char* BlockName = "BSMasterParticleSystem";
	const char* GetBlockName() override { return BlockName; }

	void Sync(NiStreamReversible& stream);

	void GetChildRefs(std::set<NiRef*>& refs) override;
	void GetChildIndices(std::vector<uint32_t>& indices) override;
};

class NiParticleSystem : public NiCloneableStreamable<NiParticleSystem, NiAVObject> {
public:
	NiBlockRef<NiGeometryData> dataRef;
	NiBlockRef<NiObject> skinInstanceRef;
	NiBlockRef<NiProperty> shaderPropertyRef;
	NiBlockRef<NiProperty> alphaPropertyRef;

	bool hasShader = false;
	NiStringRef shaderName;
	int shaderExtraData = 0;

	NiSyncVector<NiStringRef> materialNames;
	NiVector<uint32_t> materialExtraData;

	uint32_t activeMaterial = 0;
	uint8_t defaultMatNeedsUpdate = 0;

	uint8_t vertFlags1 = 81;
	uint8_t vertFlags2 = 0;
	uint8_t vertFlags3 = 0;
	uint8_t vertFlags4 = 4;
	uint8_t vertFlags5 = 0;
	uint8_t vertFlags6 = 32;
	uint8_t vertFlags7 = 64;
	uint8_t vertFlags8 = 8;

	BoundingSphere bounds;
	float boundMinMax[6]{};

	uint16_t farBegin = 0;
	uint16_t farEnd = 0;
	uint16_t nearBegin = 0;
	uint16_t nearEnd = 0;

	NiBlockRef<NiPSysData> psysDataRef;

	bool isWorldSpace = false;
	NiBlockRefArray<NiPSysModifier> modifierRefs;

	static constexpr const char* BlockName = "NiParticleSystem";
	const char* GetBlockName() override { return BlockName; }

	void Sync(NiStreamReversible& stream);
	void GetStringRefs(std::vector<NiStringRef*>& refs) override;
	void GetChildRefs(std::set<NiRef*>& refs) override;
	void GetChildIndices(std::vector<uint32_t>& indices) override;
};

class NiMeshParticleSystem : public NiCloneable<NiMeshParticleSystem, NiParticleSystem> {
public:
	static constexpr const char* BlockName = "NiMeshParticleSystem";
	const char* GetBlockName() override { return BlockName; }
};

class BSStripParticleSystem : public NiCloneable<BSStripParticleSystem, NiParticleSystem> {
public:
	static constexpr const char* BlockName = "BSStripParticleSystem";
	const char* GetBlockName() override { return BlockName; }
};

class NiPSysColliderManager;

class NiPSysCollider : public NiCloneableStreamable<NiPSysCollider, NiObject> {
public:
	float bounce = 0.0f;
	bool spawnOnCollide = false;
	bool dieOnCollide = false;
	NiBlockRef<NiPSysSpawnModifier> spawnModifierRef;
	NiBlockPtr<NiPSysColliderManager> managerRef;
	NiBlockRef<NiPSysCollider> nextColliderRef;
	NiBlockPtr<NiNode> colliderNodeRef;

	void Sync(NiStreamReversible& stream);
	void GetChildRefs(std::set<NiRef*>& refs) override;
	void GetChildIndices(std::vector<uint32_t>& indices) override;
	void GetPtrs(std::set<NiPtr*>& ptrs) override;
};

class NiPSysSphericalCollider : public NiCloneableStreamable<NiPSysSphericalCollider, NiPSysCollider> {
public:
	float radius = 0.0f;

	static constexpr const char* BlockName = "NiPSysSphericalCollider";
	const char* GetBlockName() override { return BlockName; }

	void Sync(NiStreamReversible& stream);
};

class NiPSysPlanarCollider : public NiCloneableStreamable<NiPSysPlanarCollider, NiPSysCollider> {
public:
	float width = 0.0f;
	float height = 0.0f;
	Vector3 xAxis;
	Vector3 yAxis;

	static constexpr const char* BlockName = "NiPSysPlanarCollider";
	const char* GetBlockName() override { return BlockName; }

	void Sync(NiStreamReversible& stream);
};

class NiPSysColliderManager : public NiCloneableStreamable<NiPSysColliderManager, NiPSysModifier> {
public:
	NiBlockRef<NiPSysCollider> colliderRef;

	static constexpr const char* BlockName = "NiPSysColliderManager";
	const char* GetBlockName() override { return BlockName; }

	void Sync(NiStreamReversible& stream);
	void GetChildRefs(std::set<NiRef*>& refs) override;
	void GetChildIndices(std::vector<uint32_t>& indices) override;
};

class NiPSysEmitter : public NiCloneableStreamable<NiPSysEmitter, NiPSysModifier> {
public:
	float speed = 0.0f;
	float speedVariation = 0.0f;
	float declination = 0.0f;
	float declinationVariation = 0.0f;
	float planarAngle = 0.0f;
	float planarAngleVariation = 0.0f;
	Color4 color;
	float radius = 0.0f;
	float radiusVariation = 0.0f;
	float lifeSpan = 0.0f;
	float lifeSpanVariation = 0.0f;

	void Sync(NiStreamReversible& stream);
};

class NiPSysVolumeEmitter : public NiCloneableStreamable<NiPSysVolumeEmitter, NiPSysEmitter> {
public:
	NiBlockPtr<NiNode> emitterNodeRef;

	void Sync(NiStreamReversible& stream);
	void GetPtrs(std::set<NiPtr*>& ptrs) override;
};

class NiPSysSphereEmitter : public NiCloneableStreamable<NiPSysSphereEmitter, NiPSysVolumeEmitter> {
public:
	float radius = 0.0f;

	static constexpr const char* BlockName = "NiPSysSphereEmitter";
	const char* GetBlockName() override { return BlockName; }

	void Sync(NiStreamReversible& stream);
};

class NiPSysCylinderEmitter : public NiCloneableStreamable<NiPSysCylinderEmitter, NiPSysVolumeEmitter> {
public:
	float radius = 0.0f;
	float height = 0.0f;

	static constexpr const char* BlockName = "NiPSysCylinderEmitter";
	const char* GetBlockName() override { return BlockName; }

	void Sync(NiStreamReversible& stream);
};

class NiPSysBoxEmitter : public NiCloneableStreamable<NiPSysBoxEmitter, NiPSysVolumeEmitter> {
public:
	float width = 0.0f;
	float height = 0.0f;
	float depth = 0.0f;

	static constexpr const char* BlockName = "NiPSysBoxEmitter";
	const char* GetBlockName() override { return BlockName; }

	void Sync(NiStreamReversible& stream);
};

class BSPSysArrayEmitter : public NiCloneable<BSPSysArrayEmitter, NiPSysVolumeEmitter> {
public:
	static constexpr const char* BlockName = "BSPSysArrayEmitter";
	const char* GetBlockName() override { return BlockName; }
};

enum VelocityType : uint32_t { VELOCITY_USE_NORMALS, VELOCITY_USE_RANDOM, VELOCITY_USE_DIRECTION };

enum EmitFrom : uint32_t {
	EMIT_FROM_VERTICES,
	EMIT_FROM_FACE_CENTER,
	EMIT_FROM_EDGE_CENTER,
	EMIT_FROM_FACE_SURFACE,
	EMIT_FROM_EDGE_SURFACE
};

class NiPSysMeshEmitter : public NiCloneableStreamable<NiPSysMeshEmitter, NiPSysEmitter> {
public:
	NiBlockPtrArray<NiAVObject> meshRefs;
	VelocityType velocityType = VELOCITY_USE_NORMALS;
	EmitFrom emissionType = EMIT_FROM_VERTICES;
	Vector3 emissionAxis;

	static constexpr const char* BlockName = "NiPSysMeshEmitter";
	const char* GetBlockName() override { return BlockName; }

	void Sync(NiStreamReversible& stream);
	void GetPtrs(std::set<NiPtr*>& ptrs) override;
};
} // namespace nifly
