/*
nifly
C++ NIF library for the Gamebryo/NetImmerse File Format
See the included GPLv3 LICENSE file
*/

#pragma once

#include "BasicTypes.hpp"
#include "Keys.hpp"
#include "VertexData.hpp"
#include "half.hpp"

namespace nifly {
class NiExtraData : public NiCloneableStreamable<NiExtraData, NiObject> {
public:
	NiStringRef name;

	static constexpr const char* BlockName = "NiExtraData";
	const char* GetBlockName() override { return BlockName; }

	void Sync(NiStreamReversible& stream);
	void GetStringRefs(std::vector<NiStringRef*>& refs) override;
};

class NiBinaryExtraData : public NiCloneableStreamable<NiBinaryExtraData, NiExtraData> {
public:
	NiVector<uint8_t> data;

	static constexpr const char* BlockName = "NiBinaryExtraData";
	const char* GetBlockName() override { return BlockName; }

	void Sync(NiStreamReversible& stream);
};

class NiFloatExtraData : public NiCloneableStreamable<NiFloatExtraData, NiExtraData> {
public:
	float floatData = 0.0f;

	static constexpr const char* BlockName = "NiFloatExtraData";
	const char* GetBlockName() override { return BlockName; }

	void Sync(NiStreamReversible& stream);
};

class NiFloatsExtraData : public NiCloneableStreamable<NiFloatsExtraData, NiExtraData> {
public:
	NiVector<float> floatsData;

	static constexpr const char* BlockName = "NiFloatsExtraData";
	const char* GetBlockName() override { return BlockName; }

	void Sync(NiStreamReversible& stream);
};

class NiStringExtraData : public NiCloneableStreamable<NiStringExtraData, NiExtraData> {
public:
	NiStringRef stringData;

	static constexpr const char* BlockName = "NiStringExtraData";
	const char* GetBlockName() override { return BlockName; }

	void Sync(NiStreamReversible& stream);
	void GetStringRefs(std::vector<NiStringRef*>& refs) override;
};

class NiStringsExtraData : public NiCloneableStreamable<NiStringsExtraData, NiExtraData> {
public:
	NiStringVector<> stringsData;

	static constexpr const char* BlockName = "NiStringsExtraData";
	const char* GetBlockName() override { return BlockName; }

	void Sync(NiStreamReversible& stream);
};

class NiBooleanExtraData : public NiCloneableStreamable<NiBooleanExtraData, NiExtraData> {
public:
	bool booleanData = false;

	static constexpr const char* BlockName = "NiBooleanExtraData";
	const char* GetBlockName() override { return BlockName; }

	void Sync(NiStreamReversible& stream);
};

class NiIntegerExtraData : public NiCloneableStreamable<NiIntegerExtraData, NiExtraData> {
public:
	uint32_t integerData = 0;

	static constexpr const char* BlockName = "NiIntegerExtraData";
	const char* GetBlockName() override { return BlockName; }

	void Sync(NiStreamReversible& stream);
};

class NiIntegersExtraData : public NiCloneableStreamable<NiIntegersExtraData, NiExtraData> {
public:
	NiVector<uint32_t> integersData;

	static constexpr const char* BlockName = "NiIntegersExtraData";
	const char* GetBlockName() override { return BlockName; }

	void Sync(NiStreamReversible& stream);
};

class NiVectorExtraData : public NiCloneableStreamable<NiVectorExtraData, NiExtraData> {
public:
	Vector4 vectorData;

	static constexpr const char* BlockName = "NiVectorExtraData";
	const char* GetBlockName() override { return BlockName; }

	void Sync(NiStreamReversible& stream);
};

class NiColorExtraData : public NiCloneableStreamable<NiColorExtraData, NiExtraData> {
public:
	Color4 colorData;

	static constexpr const char* BlockName = "NiColorExtraData";
	const char* GetBlockName() override { return BlockName; }

	void Sync(NiStreamReversible& stream);
};

enum BSXFlagsEnum : uint32_t {
	BSX_ANIMATED = 1 << 0,
	BSX_HAVOK = 1 << 1,
	BSX_RAGDOLL = 1 << 2,
	BSX_COMPLEX = 1 << 3,
	BSX_ADDON = 1 << 4,
	BSX_EDITOR_MARKER = 1 << 5,
	BSX_DYNAMIC = 1 << 6,
	BSX_ARTICULATED = 1 << 7,
	BSX_NEEDS_TRANSFORM_UPDATES = 1 << 8,
	BSX_EXTERNAL_EMITTANCE = 1 << 9
};

class BSXFlags : public NiCloneable<BSXFlags, NiIntegerExtraData> {
public:
	static constexpr const char* BlockName = "BSXFlags";
	const char* GetBlockName() override { return BlockName; }
};

class BSWArray : public NiCloneableStreamable<BSWArray, NiExtraData> {
public:
	NiVector<uint32_t> data;

	static constexpr const char* BlockName = "BSWArray";
	const char* GetBlockName() override { return BlockName; }

	void Sync(NiStreamReversible& stream);
};

class BSPositionData : public NiCloneableStreamable<BSPositionData, NiExtraData> {
public:
	NiVector<half_float::half> data;

	static constexpr const char* BlockName = "BSPositionData";
	const char* GetBlockName() override { return BlockName; }

	void Sync(NiStreamReversible& stream);
};

class BSEyeCenterExtraData : public NiCloneableStreamable<BSEyeCenterExtraData, NiExtraData> {
public:
	NiVector<float> data;

	static constexpr const char* BlockName = "BSEyeCenterExtraData";
	const char* GetBlockName() override { return BlockName; }

	void Sync(NiStreamReversible& stream);
};

struct BSPackedGeomObject {
	uint32_t fileNameHash = 0;
	uint32_t dataOffset = 0;
};

struct BSPackedGeomDataCombined {
	float grayscaleToPaletteScale = 1.0f;
	Matrix3 rotation;
	Vector3 translation;
	float scale = 1.0f;
	BoundingSphere bounds;
};

struct BSPackedGeomData {
	uint32_t numVertices = 0;
	uint32_t lodLevels = 0;
	uint32_t triCountLod0 = 0;
	uint32_t triOffsetLod0 = 0;
	uint32_t triCountLod1 = 0;
	uint32_t triOffsetLod1 = 0;
	uint32_t triCountLod2 = 0;
	uint32_t triOffsetLod2 = 0;
	NiVector<BSPackedGeomDataCombined> combined;
	VertexDesc vertexDesc;
	std::vector<BSVertexData> vertData;
	std::vector<Triangle> triangles;

	void Sync(NiStreamReversible& stream);

	void SetVertices(const bool enable);
	bool HasVertices() const { return vertexDesc.HasFlag(VF_VERTEX); }

	void SetUVs(const bool enable);
	bool HasUVs() const { return vertexDesc.HasFlag(VF_UV); }

	void SetSecondUVs(const bool enable);
	bool HasSecondUVs() { return vertexDesc.HasFlag(VF_UV_2); }

	void SetNormals(const bool enable);
	bool HasNormals() const { return vertexDesc.HasFlag(VF_NORMAL); }

	void SetTangents(const bool enable);
	bool HasTangents() const { return vertexDesc.HasFlag(VF_TANGENT); }

	void SetVertexColors(const bool enable);
	bool HasVertexColors() const { return vertexDesc.HasFlag(VF_COLORS); }

	void SetSkinned(const bool enable);
	bool IsSkinned() const { return vertexDesc.HasFlag(VF_SKINNED); }

	void SetEyeData(const bool enable);
	bool HasEyeData() const { return vertexDesc.HasFlag(VF_EYEDATA); }

	void SetFullPrecision(const bool enable);
	bool IsFullPrecision() const { return vertexDesc.HasFlag(VF_FULLPREC); }
	bool CanChangePrecision() const { return (HasVertices()); }
};

class BSPackedCombinedSharedGeomDataExtra
	: public NiCloneableStreamable<BSPackedCombinedSharedGeomDataExtra, NiExtraData> {
public:
	VertexDesc vertexDesc;
	uint32_t numVertices = 0;
	uint32_t numTriangles = 0;
	uint32_t unkFlags1 = 0;
	uint32_t unkFlags2 = 0;
	uint32_t numData = 0;
	std::vector<BSPackedGeomObject> objects;
	std::vector<BSPackedGeomData> data;

	static constexpr const char* BlockName = "BSPackedCombinedSharedGeomDataExtra";
	const char* GetBlockName() override { return BlockName; }

	void Sync(NiStreamReversible& stream);
};

class BSInvMarker : public NiCloneableStreamable<BSInvMarker, NiExtraData> {
public:
	uint16_t rotationX = 4712;
	uint16_t rotationY = 6283;
	uint16_t rotationZ = 0;
	float zoom = 1.0f;

	static constexpr const char* BlockName = "BSInvMarker";
	const char* GetBlockName() override { return BlockName; }

	void Sync(NiStreamReversible& stream);
};

class FurniturePosition {
public:
	Vector3 offset;

	uint16_t orientation = 0; // User Version <= 11
	uint8_t posRef1 = 0;	  // User Version <= 11
	uint8_t posRef2 = 0;	  // User Version <= 11

	float heading = 0.0f;		// User Version >= 12
	uint16_t animationType = 0; // User Version >= 12
	uint16_t entryPoints = 0;	// User Version >= 12

	void Sync(NiStreamReversible& stream);
};

class BSFurnitureMarker : public NiCloneableStreamable<BSFurnitureMarker, NiExtraData> {
public:
	NiSyncVector<FurniturePosition> positions;

	static constexpr const char* BlockName = "BSFurnitureMarker";
	const char* GetBlockName() override { return BlockName; }

	void Sync(NiStreamReversible& stream);
};

class BSFurnitureMarkerNode : public NiCloneable<BSFurnitureMarkerNode, BSFurnitureMarker> {
public:
	static constexpr const char* BlockName = "BSFurnitureMarkerNode";
	const char* GetBlockName() override { return BlockName; }
};

class DecalVectorBlock {
public:
	NiVector<Vector3, uint16_t> points;
	NiVector<Vector3, uint16_t> normals;

	void Sync(NiStreamReversible&);
};

class BSDecalPlacementVectorExtraData
	: public NiCloneableStreamable<BSDecalPlacementVectorExtraData, NiFloatExtraData> {
public:
	NiSyncVector<DecalVectorBlock, uint16_t> decalVectorBlocks;

	static constexpr const char* BlockName = "BSDecalPlacementVectorExtraData";
	const char* GetBlockName() override { return BlockName; }

	void Sync(NiStreamReversible& stream);
};

class BSBehaviorGraphExtraData : public NiCloneableStreamable<BSBehaviorGraphExtraData, NiExtraData> {
public:
	NiStringRef behaviorGraphFile;
	bool controlsBaseSkel = false;

	static constexpr const char* BlockName = "BSBehaviorGraphExtraData";
	const char* GetBlockName() override { return BlockName; }

	void Sync(NiStreamReversible& stream);
	void GetStringRefs(std::vector<NiStringRef*>& refs) override;
};

class BSBound : public NiCloneableStreamable<BSBound, NiExtraData> {
public:
	Vector3 center;
	Vector3 halfExtents;

	static constexpr const char* BlockName = "BSBound";
	const char* GetBlockName() override { return BlockName; }

	void Sync(NiStreamReversible& stream);
};

class BoneLOD {
public:
	uint32_t distance = 0;
	NiStringRef boneName;

	void Sync(NiStreamReversible& stream);
	void GetStringRefs(std::vector<NiStringRef*>& refs);
};

class BSBoneLODExtraData : public NiCloneableStreamable<BSBoneLODExtraData, NiExtraData> {
public:
	NiSyncVector<BoneLOD> boneLODs;

	static constexpr const char* BlockName = "BSBoneLODExtraData";
	const char* GetBlockName() override { return BlockName; }

	void Sync(NiStreamReversible& stream);
	void GetStringRefs(std::vector<NiStringRef*>& refs) override;
};

class NiTextKeyExtraData : public NiCloneableStreamable<NiTextKeyExtraData, NiExtraData> {
public:
	NiSyncVector<NiTextKey> textKeys;

	static constexpr const char* BlockName = "NiTextKeyExtraData";
	const char* GetBlockName() override { return BlockName; }

	void Sync(NiStreamReversible& stream);
	void GetStringRefs(std::vector<NiStringRef*>& refs) override;
};

class BSDistantObjectLargeRefExtraData
	: public NiCloneableStreamable<BSDistantObjectLargeRefExtraData, NiExtraData> {
public:
	bool largeRef = true;

	static constexpr const char* BlockName = "BSDistantObjectLargeRefExtraData";
	const char* GetBlockName() override { return BlockName; }

	void Sync(NiStreamReversible& stream);
};

class BSDistantObjectExtraData
	: public NiCloneableStreamable<BSDistantObjectExtraData, NiExtraData> {
public:
	uint32_t distantObjectFlags = 0;

	static constexpr const char* BlockName = "BSDistantObjectExtraData";
	const char* GetBlockName() override { return BlockName; }

	void Sync(NiStreamReversible& stream);
};

class BSConnectPoint {
public:
	NiString root;
	NiString variableName;
	Quaternion rotation;
	Vector3 translation;
	float scale = 1.0f;

	void Sync(NiStreamReversible& stream);
};

class BSConnectPointParents : public NiCloneableStreamable<BSConnectPointParents, NiExtraData> {
public:
	NiSyncVector<BSConnectPoint> connectPoints;

	static constexpr const char* BlockName = "BSConnectPoint::Parents";
	const char* GetBlockName() override { return BlockName; }

	void Sync(NiStreamReversible& stream);
};

class BSConnectPointChildren : public NiCloneableStreamable<BSConnectPointChildren, NiExtraData> {
public:
	bool skinned = true;
	NiStringVector<> targets;

	static constexpr const char* BlockName = "BSConnectPoint::Children";
	const char* GetBlockName() override { return BlockName; }

	void Sync(NiStreamReversible& stream);
};

class BSExtraData : public NiCloneable<BSExtraData, NiObject> {};

class BSClothExtraData : public NiCloneableStreamable<BSClothExtraData, BSExtraData> {
public:
	NiVector<char> data;

	BSClothExtraData() {}
	BSClothExtraData(const uint32_t size);

	static constexpr const char* BlockName = "BSClothExtraData";
	const char* GetBlockName() override { return BlockName; }

	void Sync(NiStreamReversible& stream);

	bool ToHKX(const std::string& fileName);
	bool FromHKX(const std::string& fileName);
};

class BSCollisionQueryProxyExtraData : public NiCloneableStreamable<BSCollisionQueryProxyExtraData, BSExtraData> {
public:
	NiVector<char> data;

	static constexpr const char* BlockName = "BSCollisionQueryProxyExtraData";
	const char* GetBlockName() override { return BlockName; }

	void Sync(NiStreamReversible& stream);
};

class SkinAttach : public NiCloneableStreamable<SkinAttach, NiExtraData> {
public:
	NiStringVector<> bones;

	static constexpr const char* BlockName = "SkinAttach";
	const char* GetBlockName() override { return BlockName; }

	void Sync(NiStreamReversible& stream);
};

struct BoneTranslation {
	NiString bone;
	Vector3 trans;
};

class BoneTranslations : public NiCloneableStreamable<BoneTranslations, NiExtraData> {
public:
	uint32_t numTranslations = 0;
	std::vector<BoneTranslation> translations;

	static constexpr const char* BlockName = "BoneTranslations";
	const char* GetBlockName() override { return BlockName; }

	void Sync(NiStreamReversible& stream);
};
} // namespace nifly
