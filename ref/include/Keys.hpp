/*
nifly
C++ NIF library for the Gamebryo/NetImmerse File Format
See the included GPLv3 LICENSE file
*/

#pragma once

#include "BasicTypes.hpp"

namespace nifly {
class NiTextKey {
public:
	float time = 0.0f;
	NiStringRef value;

	void Sync(NiStreamReversible& stream) {
		stream.Sync(time);
		value.Sync(stream);
	}

	void GetStringRefs(std::vector<NiStringRef*>& refs) { refs.emplace_back(&value); }
};

enum NiKeyType : uint32_t { NO_INTERP, LINEAR_KEY, QUADRATIC_KEY, TBC_KEY, XYZ_ROTATION_KEY, CONST_KEY };

struct TBC {
	float tension = 0.0f;
	float bias = 0.0f;
	float continuity = 0.0f;
};

template<typename T>
class NiAnimationKey {
public:
	NiKeyType type = NiKeyType::NO_INTERP; // no IO, used for Sync condition only

	float time = 0.0f;
	T value{};
	T forward{};
	T backward{};
	TBC tbc;

	void Sync(NiStreamReversible& stream) {
		stream.Sync(time);
		stream.Sync(value);

		switch (type) {
			case NiKeyType::QUADRATIC_KEY:
				stream.Sync(forward);
				stream.Sync(backward);
				break;
			case NiKeyType::TBC_KEY: stream.Sync(tbc); break;
			default: break;
		}
	}
};

template<typename T>
class NiAnimationKeyGroup {
private:
	uint32_t numKeys = 0;
	NiKeyType interpolation = NO_INTERP;
	std::vector<NiAnimationKey<T>> keys;

public:
	void Sync(NiStreamReversible& stream) {
		stream.Sync(numKeys);
		keys.resize(numKeys);

		if (numKeys > 0) {
			stream.Sync(interpolation);

			for (uint32_t i = 0; i < numKeys; i++) {
				auto& key = keys[i];
				key.type = interpolation;
				key.Sync(stream);
			}
		}
	}

	NiKeyType GetInterpolationType() const { return interpolation; }

	void SetInterpolationType(const NiKeyType interp) { interpolation = interp; }

	uint32_t GetNumKeys() const { return numKeys; }

	NiAnimationKey<T> GetKey(const int id) const { return keys[id]; }

	void SetKey(const int id, const NiAnimationKey<T>& key) { keys[id] = key; }

	void AddKey(const NiAnimationKey<T>& key) {
		keys.push_back(key);
		numKeys++;
	}

	void RemoveKey(const int id) {
		keys.erase(keys.begin() + id);
		numKeys--;
	}

	void ClearKeys() {
		keys.clear();
		numKeys = 0;
	}
};
} // namespace nifly
