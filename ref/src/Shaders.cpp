/*
nifly
C++ NIF library for the Gamebryo/NetImmerse File Format
See the included GPLv3 LICENSE file
*/

#include "Shaders.hpp"

using namespace nifly;

void NiShadeProperty::Sync(NiStreamReversible& stream) {
	stream.Sync(flags);
}


void NiSpecularProperty::Sync(NiStreamReversible& stream) {
	stream.Sync(flags);
}


void NiTexturingProperty::Sync(NiStreamReversible& stream) {
	const NiFileVersion fileVersion = stream.GetVersion().File();

	if (fileVersion <= NiFileVersion::V10_0_1_2)
		stream.Sync(flags);

	if (fileVersion >= NiVersion::ToFile(20, 1, 0, 2))
		stream.Sync(flags); // TexturingFlags

	if (fileVersion >= NiFileVersion::V3_3_0_13 && fileVersion <= NiFileVersion::V20_1_0_1)
		stream.Sync(applyMode);

	stream.Sync(textureCount);

	stream.Sync(hasBaseTex);
	if (hasBaseTex)
		baseTex.Sync(stream);

	stream.Sync(hasDarkTex);
	if (hasDarkTex)
		darkTex.Sync(stream);

	stream.Sync(hasDetailTex);
	if (hasDetailTex)
		detailTex.Sync(stream);

	stream.Sync(hasGlossTex);
	if (hasGlossTex)
		glossTex.Sync(stream);

	stream.Sync(hasGlowTex);
	if (hasGlowTex)
		glowTex.Sync(stream);

	if (textureCount > 5 && fileVersion >= NiFileVersion::V3_3_0_13) {
		stream.Sync(hasBumpTex);
		if (hasBumpTex) {
			bumpTex.Sync(stream);
			stream.Sync(lumaScale);
			stream.Sync(lumaOffset);
			stream.Sync(bumpMatrix);
		}
	}

	if (fileVersion >= NiFileVersion::V20_2_0_5) {
		if (textureCount > 6) {
			stream.Sync(hasNormalTex);
			if (hasNormalTex)
				normalTex.Sync(stream);
		}

		if (textureCount > 7) {
			stream.Sync(hasParallaxTex);
			if (hasParallaxTex) {
				parallaxTex.Sync(stream);
				stream.Sync(parallaxOffset);
			}
		}

		if (textureCount > 8) {
			stream.Sync(hasDecalTex0);
			if (hasDecalTex0)
				decalTex0.Sync(stream);
		}

		if (textureCount > 9) {
			stream.Sync(hasDecalTex1);
			if (hasDecalTex1)
				decalTex1.Sync(stream);
		}

		if (textureCount > 10) {
			stream.Sync(hasDecalTex2);
			if (hasDecalTex2)
				decalTex2.Sync(stream);
		}

		if (textureCount > 11) {
			stream.Sync(hasDecalTex3);
			if (hasDecalTex3)
				decalTex3.Sync(stream);
		}
	}
	else {
		if (textureCount > 6) {
			stream.Sync(hasDecalTex0);
			if (hasDecalTex0)
				decalTex0.Sync(stream);
		}

		if (textureCount > 7) {
			stream.Sync(hasDecalTex1);
			if (hasDecalTex1)
				decalTex1.Sync(stream);
		}

		if (textureCount > 8) {
			stream.Sync(hasDecalTex2);
			if (hasDecalTex2)
				decalTex2.Sync(stream);
		}

		if (textureCount > 9) {
			stream.Sync(hasDecalTex3);
			if (hasDecalTex3)
				decalTex3.Sync(stream);
		}
	}

	if (fileVersion >= NiFileVersion::V10_0_1_0)
		shaderTex.Sync(stream);
}

void NiTexturingProperty::GetChildRefs(std::set<NiRef*>& refs) {
	NiProperty::GetChildRefs(refs);

	baseTex.GetChildRefs(refs);
	darkTex.GetChildRefs(refs);
	detailTex.GetChildRefs(refs);
	glossTex.GetChildRefs(refs);
	glowTex.GetChildRefs(refs);
	bumpTex.GetChildRefs(refs);
	normalTex.GetChildRefs(refs);
	parallaxTex.GetChildRefs(refs);
	decalTex0.GetChildRefs(refs);
	decalTex1.GetChildRefs(refs);
	decalTex2.GetChildRefs(refs);
	decalTex3.GetChildRefs(refs);
	shaderTex.GetChildRefs(refs);
}

void NiTexturingProperty::GetChildIndices(std::vector<uint32_t>& indices) {
	NiProperty::GetChildIndices(indices);

	baseTex.GetChildIndices(indices);
	darkTex.GetChildIndices(indices);
	detailTex.GetChildIndices(indices);
	glossTex.GetChildIndices(indices);
	glowTex.GetChildIndices(indices);
	bumpTex.GetChildIndices(indices);
	normalTex.GetChildIndices(indices);
	parallaxTex.GetChildIndices(indices);
	decalTex0.GetChildIndices(indices);
	decalTex1.GetChildIndices(indices);
	decalTex2.GetChildIndices(indices);
	decalTex3.GetChildIndices(indices);
	shaderTex.GetChildIndices(indices);
}


void NiVertexColorProperty::Sync(NiStreamReversible& stream) {
	stream.Sync(flags);

	if (stream.GetVersion().File() <= NiFileVersion::V20_0_0_5) {
		stream.Sync(vertexMode);
		stream.Sync(lightingMode);
	}
}


void NiDitherProperty::Sync(NiStreamReversible& stream) {
	stream.Sync(flags);
}


void NiFogProperty::Sync(NiStreamReversible& stream) {
	stream.Sync(flags);
	stream.Sync(fogDepth);
	stream.Sync(fogColor);
}


void NiWireframeProperty::Sync(NiStreamReversible& stream) {
	stream.Sync(flags);
}


void NiZBufferProperty::Sync(NiStreamReversible& stream) {
	stream.Sync(flags);

	if (stream.GetVersion().File() >= V4_1_0_12 && stream.GetVersion().File() <= V20_0_0_5)
		stream.Sync(testFunction);
}


void BSShaderProperty::Sync(NiStreamReversible& stream) {
	if (stream.GetVersion().User() == 12 && stream.GetVersion().Stream() > 139) {
		std::string nameStr = stream.GetHeader().GetStringById(name.GetIndex());
		if (!nameStr.empty())
			return;
	}

	if (stream.GetVersion().User() <= 11) {
		stream.Sync(shaderFlags);
		stream.Sync(shaderType);
		stream.Sync(shaderFlags1);
		stream.Sync(shaderFlags2);
		stream.Sync(environmentMapScale);
	}
	else {
		if (stream.GetVersion().Stream() < 132) {
			stream.Sync(shaderFlags1);
			stream.Sync(shaderFlags2);
			stream.Sync(uvOffset);
			stream.Sync(uvScale);
		}
	}
}

uint32_t BSShaderProperty::GetShaderType() const {
	return shaderType;
}

void BSShaderProperty::SetShaderType(uint32_t type) {
	shaderType = static_cast<BSShaderType>(type);
}

bool BSShaderProperty::IsSkinTinted() const {
	return shaderType == SHADER_SKIN;
}

bool BSShaderProperty::IsFaceTinted() const {
	return shaderType == SHADER_SKIN;
}

bool BSShaderProperty::IsSkinned() const {
	return (shaderFlags1 & (1 << 1)) != 0;
}

void BSShaderProperty::SetSkinned(const bool enable) {
	if (enable)
		shaderFlags1 |= 1 << 1;
	else
		shaderFlags1 &= ~(1 << 1);
}

bool BSShaderProperty::IsDoubleSided() const {
	return (shaderFlags2 & (1 << 4)) != 0;
}

void BSShaderProperty::SetDoubleSided(const bool enable) {
	if (enable)
		shaderFlags2 |= 1 << 4;
	else
		shaderFlags2 &= ~(1 << 4);
}

bool BSShaderProperty::IsModelSpace() const {
	return (shaderFlags1 & (1 << 12)) != 0;
}

bool BSShaderProperty::IsEmissive() const {
	return (shaderFlags1 & (1 << 22)) != 0;
}

bool BSShaderProperty::HasSpecular() const {
	return (shaderFlags1 & (1 << 0)) != 0;
}

bool BSShaderProperty::HasVertexColors() const {
	return (shaderFlags2 & (1 << 5)) != 0;
}

void BSShaderProperty::SetVertexColors(const bool enable) {
	if (enable)
		shaderFlags2 |= 1 << 5;
	else
		shaderFlags2 &= ~(1 << 5);
}

bool BSShaderProperty::HasVertexAlpha() const {
	return (shaderFlags1 & (1 << 3)) != 0;
}

void BSShaderProperty::SetVertexAlpha(const bool enable) {
	if (enable)
		shaderFlags1 |= 1 << 3;
	else
		shaderFlags1 &= ~(1 << 3);
}

bool BSShaderProperty::HasBacklight() const {
	// Skyrim
	return (shaderFlags2 & (1 << 27)) != 0;
}

bool BSShaderProperty::HasRimlight() const {
	// Skyrim
	return (shaderFlags2 & (1 << 26)) != 0;
}

bool BSShaderProperty::HasSoftlight() const {
	// Skyrim
	return (shaderFlags2 & (1 << 25)) != 0;
}

bool BSShaderProperty::HasGlowmap() const {
	return (shaderFlags2 & (1 << 6)) != 0;
}

bool BSShaderProperty::HasGreyscaleColor() const {
	return (shaderFlags1 & (1 << 3)) != 0;
}

bool BSShaderProperty::HasEnvironmentMapping() const {
	return (shaderFlags1 & (1 << 7)) != 0;
}

void BSShaderProperty::SetEnvironmentMapping(const bool enable) {
	if (enable)
		shaderFlags1 |= 1 << 7;
	else
		shaderFlags1 &= ~(1 << 7);
}

float BSShaderProperty::GetEnvironmentMapScale() const {
	return environmentMapScale;
}

Vector2 BSShaderProperty::GetUVOffset() const {
	return uvOffset;
}

Vector2 BSShaderProperty::GetUVScale() const {
	return uvScale;
}


void TallGrassShaderProperty::Sync(NiStreamReversible& stream) {
	fileName.Sync(stream, 4);
}


void SkyShaderProperty::Sync(NiStreamReversible& stream) {
	fileName.Sync(stream, 4);
	stream.Sync(skyObjectType);
}


void TileShaderProperty::Sync(NiStreamReversible& stream) {
	fileName.Sync(stream, 4);
}


BSShaderTextureSet::BSShaderTextureSet(NiVersion& version) {
	if (version.User() == 12 && version.Stream() == 155)
		textures.resize(13);
	else if (version.User() == 12 && version.Stream() == 130)
		textures.resize(10);
	else if (version.User() == 12)
		textures.resize(9);
	else
		textures.resize(6);
}

void BSShaderTextureSet::Sync(NiStreamReversible& stream) {
	textures.Sync(stream);
}

BSLightingShaderProperty::BSLightingShaderProperty() {
	NiObjectNET::bBSLightingShaderProperty = true;

	shaderFlags1 = 0x80400203;
	shaderFlags2 = 0x00000081;
}

BSLightingShaderProperty::BSLightingShaderProperty(NiVersion& version)
	: BSLightingShaderProperty() {
	if (version.User() == 12 && version.Stream() >= 120) {
		shaderFlags1 = 0x80400203;
		shaderFlags2 = 0x00000081;
	}
	else {
		shaderFlags1 = 0x82400303;
		shaderFlags2 = 0x00008001;
	}

	if (version.User() == 12 && version.Stream() >= 120)
		glossiness = 1.0f;
	else
		glossiness = 20.0f;
}

void BSLightingShaderProperty::Sync(NiStreamReversible& stream) {
	if (stream.GetVersion().User() == 12 && stream.GetVersion().Stream() > 139) {
		std::string nameStr = stream.GetHeader().GetStringById(name.GetIndex());
		if (!nameStr.empty())
			return;
	}

	if (stream.GetVersion().Stream() > 139) {
		// Adjust shader type to old value internally due to removed Height/Parallax enum value (3)
		if (stream.GetMode() == NiStreamReversible::Mode::Reading) {
			stream.Sync(bslspShaderType);

			if (bslspShaderType > 3)
				bslspShaderType += 1;
		}
		else {
			// Write the file value (inverse of the adjustment made when reading) without altering the in-memory value
			uint32_t fileShaderType = bslspShaderType;
			if (fileShaderType > 3)
				fileShaderType -= 1;

			stream.Sync(fileShaderType);
		}
	}

	if (stream.GetVersion().Stream() >= 132) {
		stream.Sync(numSF1);
		SF1.resize(numSF1);
	}

	if (stream.GetVersion().Stream() >= 152) {
		stream.Sync(numSF2);
		SF2.resize(numSF2);
	}

	if (stream.GetVersion().Stream() >= 132) {
		for (uint32_t i = 0; i < numSF1; i++)
			stream.Sync(SF1[i]);
	}

	if (stream.GetVersion().Stream() >= 152) {
		for (uint32_t i = 0; i < numSF2; i++)
			stream.Sync(SF2[i]);
	}

	if (stream.GetVersion().Stream() >= 132) {
		stream.Sync(uvOffset);
		stream.Sync(uvScale);
	}

	textureSetRef.Sync(stream);

	stream.Sync(emissiveColor);
	stream.Sync(emissiveMultiple);

	if (stream.GetVersion().User() == 12 && stream.GetVersion().Stream() >= 130)
		rootMaterialName.Sync(stream);

	if (stream.GetVersion().User() == 12 && stream.GetVersion().Stream() >= 172)
		stream.Sync(unkFloat);

	stream.Sync(textureClampMode);
	stream.Sync(alpha);
	stream.Sync(refractionStrength);
	stream.Sync(glossiness);
	stream.Sync(specularColor);
	stream.Sync(specularStrength);

	if (stream.GetVersion().User() <= 12 && stream.GetVersion().Stream() < 130) {
		stream.Sync(softlighting);
		stream.Sync(rimlightPower);
	}

	if (stream.GetVersion().IsFO4()) {
		stream.Sync(subsurfaceRolloff);
		stream.Sync(rimlightPower2);

		if (rimlightPower2 >= NiFloatMax && rimlightPower2 < NiFloatInf)
			stream.Sync(backlightPower);
	}

	if (stream.GetVersion().User() == 12 && stream.GetVersion().Stream() >= 130) {
		stream.Sync(grayscaleToPaletteScale);
		stream.Sync(fresnelPower);
		stream.Sync(wetnessSpecScale);
		stream.Sync(wetnessSpecPower);
		stream.Sync(wetnessMinVar);

		if (stream.GetVersion().Stream() == 130)
			stream.Sync(wetnessEnvmapScale);

		stream.Sync(wetnessFresnelPower);
		stream.Sync(wetnessMetalness);

		if (stream.GetVersion().Stream() > 130)
			stream.Sync(wetnessUnknown1);
		if (stream.GetVersion().Stream() >= 155)
			stream.Sync(wetnessUnknown2);
	}

	if (stream.GetVersion().User() == 12 && stream.GetVersion().Stream() > 139) {
		stream.Sync(lumEmittance);
		stream.Sync(exposureOffset);
		stream.Sync(finalExposureMin);
		stream.Sync(finalExposureMax);

		if (stream.GetVersion().Stream() < 172) {
			stream.Sync(doTranslucency);
			if (doTranslucency) {
				stream.Sync(subsurfaceColor);
				stream.Sync(transmissiveScale);
				stream.Sync(turbulence);
				stream.Sync(thickObject);
				stream.Sync(mixAlbedo);
			}

			stream.Sync(hasTextureArrays);

			if (hasTextureArrays) {
				stream.Sync(numTextureArrays);

				textureArrays.resize(numTextureArrays);

				for (uint32_t i = 0; i < numTextureArrays; i++)
					textureArrays[i].Sync(stream);
			}
		}
		else {
			stream.Sync(unkFloat1);
			stream.Sync(unkFloat2);
			stream.Sync(unkShort1);
		}
	}

	switch (bslspShaderType) {
		case 1:
			stream.Sync(environmentMapScale);

			if (stream.GetVersion().IsFO4()) {
				stream.Sync(useSSR);
				stream.Sync(wetnessUseSSR);
			}
			break;
		case 5:
			stream.Sync(skinTintColor);

			if (stream.GetVersion().User() == 12 && stream.GetVersion().Stream() >= 130)
				stream.Sync(skinTintAlpha);
			break;
		case 6:
			stream.Sync(hairTintColor);
			break;
		case 7:
			stream.Sync(maxPasses);
			stream.Sync(scale);
			break;
		case 11:
			stream.Sync(parallaxInnerLayerThickness);
			stream.Sync(parallaxRefractionScale);
			stream.Sync(parallaxInnerLayerTextureScale);
			stream.Sync(parallaxEnvmapStrength);
			break;
		case 14: stream.Sync(sparkleParameters); break;
		case 16:
			stream.Sync(eyeCubemapScale);
			stream.Sync(eyeLeftReflectionCenter);
			stream.Sync(eyeRightReflectionCenter);
			break;
	}
}

void BSLightingShaderProperty::GetStringRefs(std::vector<NiStringRef*>& refs) {
	BSShaderProperty::GetStringRefs(refs);

	refs.emplace_back(&rootMaterialName);
}

void BSLightingShaderProperty::GetChildRefs(std::set<NiRef*>& refs) {
	BSShaderProperty::GetChildRefs(refs);

	refs.insert(&textureSetRef);
}

void BSLightingShaderProperty::GetChildIndices(std::vector<uint32_t>& indices) {
	BSShaderProperty::GetChildIndices(indices);

	indices.push_back(textureSetRef.index);
}

bool BSLightingShaderProperty::IsSkinTinted() const {
	return bslspShaderType == BSLSP_SKINTINT;
}

bool BSLightingShaderProperty::IsFaceTinted() const {
	return bslspShaderType == BSLSP_FACE;
}

bool BSLightingShaderProperty::HasGlowmap() const {
	return bslspShaderType == BSLSP_GLOWMAP && BSShaderProperty::HasGlowmap();
}

bool BSLightingShaderProperty::HasEnvironmentMapping() const {
	return bslspShaderType == BSLSP_ENVMAP && BSShaderProperty::HasEnvironmentMapping();
}

uint32_t BSLightingShaderProperty::GetShaderType() const {
	return bslspShaderType;
}

void BSLightingShaderProperty::SetShaderType(const uint32_t type) {
	bslspShaderType = type;
}

Vector3 BSLightingShaderProperty::GetSpecularColor() const {
	return specularColor;
}

void BSLightingShaderProperty::SetSpecularColor(const Vector3& color) {
	specularColor = color;
}

float BSLightingShaderProperty::GetSpecularStrength() const {
	return specularStrength;
}

void BSLightingShaderProperty::SetSpecularStrength(const float strength) {
	specularStrength = strength;
}

float BSLightingShaderProperty::GetGlossiness() const {
	return glossiness;
}

void BSLightingShaderProperty::SetGlossiness(const float gloss) {
	glossiness = gloss;
}

Color4 BSLightingShaderProperty::GetEmissiveColor() const {
	Color4 color;
	color.r = emissiveColor.x;
	color.g = emissiveColor.y;
	color.b = emissiveColor.z;
	return color;
}

void BSLightingShaderProperty::SetEmissiveColor(const Color4& color) {
	emissiveColor.x = color.r;
	emissiveColor.y = color.g;
	emissiveColor.z = color.b;
}

float BSLightingShaderProperty::GetEmissiveMultiple() const {
	return emissiveMultiple;
}

void BSLightingShaderProperty::SetEmissiveMultiple(const float emissive) {
	emissiveMultiple = emissive;
}

float BSLightingShaderProperty::GetAlpha() const {
	return alpha;
}

void BSLightingShaderProperty::SetAlpha(const float alphaValue) {
	alpha = alphaValue;
}

float BSLightingShaderProperty::GetBacklightPower() const {
	return backlightPower;
}

float BSLightingShaderProperty::GetRimlightPower() const {
	return rimlightPower;
}

float BSLightingShaderProperty::GetSoftlight() const {
	return softlighting;
}

float BSLightingShaderProperty::GetSubsurfaceRolloff() const {
	return subsurfaceRolloff;
}

float BSLightingShaderProperty::GetGrayscaleToPaletteScale() const {
	return grayscaleToPaletteScale;
}

float BSLightingShaderProperty::GetFresnelPower() const {
	return fresnelPower;
}

std::string BSLightingShaderProperty::GetWetMaterialName() const {
	return rootMaterialName.get();
}

void BSLightingShaderProperty::SetWetMaterialName(const std::string& matName) {
	rootMaterialName.get() = matName;
}


void BSEffectShaderProperty::Sync(NiStreamReversible& stream) {
	if (stream.GetVersion().User() == 12 && stream.GetVersion().Stream() > 130) {
		std::string nameStr = stream.GetHeader().GetStringById(name.GetIndex());
		if (!nameStr.empty())
			return;
	}

	if (stream.GetVersion().Stream() >= 132) {
		stream.Sync(numSF1);
		SF1.resize(numSF1);
	}

	if (stream.GetVersion().Stream() >= 152) {
		stream.Sync(numSF2);
		SF2.resize(numSF2);
	}

	if (stream.GetVersion().Stream() >= 132) {
		for (uint32_t i = 0; i < numSF1; i++)
			stream.Sync(SF1[i]);
	}

	if (stream.GetVersion().Stream() >= 152) {
		for (uint32_t i = 0; i < numSF2; i++)
			stream.Sync(SF2[i]);
	}

	if (stream.GetVersion().Stream() >= 132) {
		stream.Sync(uvOffset);
		stream.Sync(uvScale);
	}

	sourceTexture.Sync(stream, 4);

	if (stream.GetVersion().Stream() >= 172)
		stream.Sync(unkFloat);

	stream.Sync(textureClampMode);

	stream.Sync(falloffStartAngle);
	stream.Sync(falloffStopAngle);
	stream.Sync(falloffStartOpacity);
	stream.Sync(falloffStopOpacity);

	if (stream.GetVersion().User() == 12 && stream.GetVersion().Stream() > 139 && stream.GetVersion().Stream() < 172)
		stream.Sync(refractionPower);

	stream.Sync(baseColor);
	stream.Sync(baseColorScale);
	stream.Sync(softFalloffDepth);
	greyscaleTexture.Sync(stream, 4);

	if (stream.GetVersion().User() == 12 && stream.GetVersion().Stream() >= 130) {
		envMapTexture.Sync(stream, 4);
		normalTexture.Sync(stream, 4);
		envMaskTexture.Sync(stream, 4);
		stream.Sync(envMapScale);
	}

	if (stream.GetVersion().User() == 12 && stream.GetVersion().Stream() > 139) {
		reflectanceTexture.Sync(stream, 4);
		lightingTexture.Sync(stream, 4);
		stream.Sync(emittanceColor);
		emitGradientTexture.Sync(stream, 4);

		stream.Sync(lumEmittance);
		stream.Sync(exposureOffset);
		stream.Sync(finalExposureMin);
		stream.Sync(finalExposureMax);
	}

	if (stream.GetVersion().User() == 12 && stream.GetVersion().Stream() >= 172) {
		for (uint8_t& b : unkBytes)
			stream.Sync(b);

		for (float& f : unkFloats)
			stream.Sync(f);

		stream.Sync(unkByte1);
	}
}

float BSEffectShaderProperty::GetEnvironmentMapScale() const {
	return envMapScale;
}

Color4 BSEffectShaderProperty::GetEmissiveColor() const {
	return baseColor;
}

void BSEffectShaderProperty::SetEmissiveColor(const Color4& color) {
	baseColor = color;
}

float BSEffectShaderProperty::GetEmissiveMultiple() const {
	return baseColorScale;
}

void BSEffectShaderProperty::SetEmissiveMultiple(const float emissive) {
	baseColorScale = emissive;
}


void BSWaterShaderProperty::Sync(NiStreamReversible& stream) {
	if (stream.GetVersion().User() == 12 && stream.GetVersion().Stream() > 139) {
		std::string nameStr = stream.GetHeader().GetStringById(name.GetIndex());
		if (!nameStr.empty())
			return;
	}

	if (stream.GetVersion().Stream() >= 132) {
		stream.Sync(numSF1);
		SF1.resize(numSF1);
	}

	if (stream.GetVersion().Stream() >= 152) {
		stream.Sync(numSF2);
		SF2.resize(numSF2);
	}

	if (stream.GetVersion().Stream() >= 132) {
		for (uint32_t i = 0; i < numSF1; i++)
			stream.Sync(SF1[i]);
	}

	if (stream.GetVersion().Stream() >= 152) {
		for (uint32_t i = 0; i < numSF2; i++)
			stream.Sync(SF2[i]);
	}

	if (stream.GetVersion().Stream() >= 132) {
		stream.Sync(uvOffset);
		stream.Sync(uvScale);
	}

	stream.Sync(waterFlags);
}


void BSSkyShaderProperty::Sync(NiStreamReversible& stream) {
	if (stream.GetVersion().User() == 12 && stream.GetVersion().Stream() > 139) {
		std::string nameStr = stream.GetHeader().GetStringById(name.GetIndex());
		if (!nameStr.empty())
			return;
	}

	if (stream.GetVersion().Stream() >= 132) {
		stream.Sync(numSF1);
		SF1.resize(numSF1);
	}

	if (stream.GetVersion().Stream() >= 152) {
		stream.Sync(numSF2);
		SF2.resize(numSF2);
	}

	if (stream.GetVersion().Stream() >= 132) {
		for (uint32_t i = 0; i < numSF1; i++)
			stream.Sync(SF1[i]);
	}

	if (stream.GetVersion().Stream() >= 152) {
		for (uint32_t i = 0; i < numSF2; i++)
			stream.Sync(SF2[i]);
	}

	if (stream.GetVersion().Stream() >= 132) {
		stream.Sync(uvOffset);
		stream.Sync(uvScale);
	}

	baseTexture.Sync(stream, 4);
	stream.Sync(skyFlags);
}


void BSShaderLightingProperty::Sync(NiStreamReversible& stream) {
	if (stream.GetVersion().User() <= 11)
		stream.Sync(textureClampMode);
}


void BSShaderPPLightingProperty::Sync(NiStreamReversible& stream) {
	textureSetRef.Sync(stream);

	if (stream.GetVersion().User() == 11 && stream.GetVersion().Stream() > 14) {
		stream.Sync(refractionStrength);
		stream.Sync(refractionFirePeriod);
	}

	if (stream.GetVersion().User() == 11 && stream.GetVersion().Stream() > 24) {
		stream.Sync(parallaxMaxPasses);
		stream.Sync(parallaxScale);
	}

	if (stream.GetVersion().User() >= 12)
		stream.Sync(emissiveColor);
}

void BSShaderPPLightingProperty::GetChildRefs(std::set<NiRef*>& refs) {
	BSShaderLightingProperty::GetChildRefs(refs);

	refs.insert(&textureSetRef);
}

void BSShaderPPLightingProperty::GetChildIndices(std::vector<uint32_t>& indices) {
	BSShaderLightingProperty::GetChildIndices(indices);

	indices.push_back(textureSetRef.index);
}

bool BSShaderPPLightingProperty::IsSkinned() const {
	return (shaderFlags1 & (1 << 1)) != 0;
}

void BSShaderPPLightingProperty::SetSkinned(const bool enable) {
	if (enable)
		shaderFlags1 |= 1 << 1;
	else
		shaderFlags1 &= ~(1 << 1);
}


void BSShaderNoLightingProperty::Sync(NiStreamReversible& stream) {
	baseTexture.Sync(stream, 4);

	if (stream.GetVersion().Stream() > 26) {
		stream.Sync(falloffStartAngle);
		stream.Sync(falloffStopAngle);
		stream.Sync(falloffStartOpacity);
		stream.Sync(falloffStopOpacity);
	}
}

bool BSShaderNoLightingProperty::IsSkinned() const {
	return (shaderFlags1 & (1 << 1)) != 0;
}

void BSShaderNoLightingProperty::SetSkinned(const bool enable) {
	if (enable)
		shaderFlags1 |= 1 << 1;
	else
		shaderFlags1 &= ~(1 << 1);
}


void NiAlphaProperty::Sync(NiStreamReversible& stream) {
	stream.Sync(flags);
	stream.Sync(threshold);
}


void NiMaterialProperty::Sync(NiStreamReversible& stream) {
	const NiFileVersion fileVersion = stream.GetVersion().File();

	if (fileVersion >= NiFileVersion::V3_0 && fileVersion <= NiFileVersion::V10_0_1_2)
		stream.Sync(legacyFlags);

	if (stream.GetVersion().Stream() < 26) {
		stream.Sync(colorAmbient);
		stream.Sync(colorDiffuse);
	}

	stream.Sync(colorSpecular);
	stream.Sync(colorEmissive);
	stream.Sync(glossiness);
	stream.Sync(alpha);

	if (stream.GetVersion().Stream() > 21)
		stream.Sync(emitMulti);
}

bool NiMaterialProperty::IsEmissive() const {
	return !colorEmissive.IsZero();
}

bool NiMaterialProperty::HasSpecular() const {
	return !colorSpecular.IsZero();
}

void NiMaterialProperty::SetSpecularColor(const Vector3& color) {
	colorSpecular = color;
}

Vector3 NiMaterialProperty::GetSpecularColor() const {
	return colorSpecular;
}

float NiMaterialProperty::GetGlossiness() const {
	return glossiness;
}

void NiMaterialProperty::SetGlossiness(const float gloss) {
	glossiness = gloss;
}

Color4 NiMaterialProperty::GetEmissiveColor() const {
	Color4 color;
	color.r = colorEmissive.x;
	color.g = colorEmissive.y;
	color.b = colorEmissive.z;
	return color;
}

void NiMaterialProperty::SetEmissiveColor(const Color4& color) {
	colorEmissive.x = color.r;
	colorEmissive.y = color.g;
	colorEmissive.z = color.b;
}

float NiMaterialProperty::GetEmissiveMultiple() const {
	return emitMulti;
}

void NiMaterialProperty::SetEmissiveMultiple(const float emissive) {
	emitMulti = emissive;
}

float NiMaterialProperty::GetAlpha() const {
	return alpha;
}

void NiMaterialProperty::SetAlpha(const float alphaValue) {
	alpha = alphaValue;
}


void NiStencilProperty::Sync(NiStreamReversible& stream) {
	const NiFileVersion fileVersion = stream.GetVersion().File();

	if (fileVersion >= NiFileVersion::V3_0 && fileVersion <= NiFileVersion::V10_0_1_2)
		stream.Sync(legacyFlags);

	if (fileVersion <= NiFileVersion::V20_0_0_5) {
		stream.Sync(stencilEnabled);
		stream.Sync(stencilFunction);
		stream.Sync(stencilRef);
		stream.Sync(stencilMask);
		stream.Sync(failAction);
		stream.Sync(zFailAction);
		stream.Sync(passAction);
		stream.Sync(drawMode);
	}
	else if (fileVersion >= NiFileVersion::V20_1_0_3) {
		stream.Sync(flags);
		stream.Sync(stencilRef);
		stream.Sync(stencilMask);
	}
}
