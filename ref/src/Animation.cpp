/*
nifly
C++ NIF library for the Gamebryo/NetImmerse File Format
See the included GPLv3 LICENSE file
*/

#include "Animation.hpp"

using namespace nifly;

void NiKeyframeData::Sync(NiStreamReversible& stream) {
	uint32_t numRotationKeys = 0;

	if (stream.GetMode() == NiStreamReversible::Mode::Writing) {
		if (rotationType == XYZ_ROTATION_KEY)
			numRotationKeys = 1;
		else
			numRotationKeys = static_cast<uint32_t>(quaternionKeys.size());
	}

	stream.Sync(numRotationKeys);

	if (numRotationKeys > 0) {
		stream.Sync(rotationType);

		if (rotationType != XYZ_ROTATION_KEY) {
			quaternionKeys.resize(numRotationKeys);

			for (uint32_t i = 0; i < numRotationKeys; i++) {
				stream.Sync(quaternionKeys[i].time);
				stream.Sync(quaternionKeys[i].value);

				if (rotationType == TBC_KEY)
					stream.Sync(quaternionKeys[i].tbc);
			}
		}
		else {
			xRotations.Sync(stream);
			yRotations.Sync(stream);
			zRotations.Sync(stream);
		}
	}

	translations.Sync(stream);
	scales.Sync(stream);
}


void NiPosData::Sync(NiStreamReversible& stream) {
	data.Sync(stream);
}


void NiBoolData::Sync(NiStreamReversible& stream) {
	data.Sync(stream);
}


void NiFloatData::Sync(NiStreamReversible& stream) {
	data.Sync(stream);
}


void NiBSplineData::Sync(NiStreamReversible& stream) {
	floatControlPoints.Sync(stream);
	shortControlPoints.Sync(stream);
}


void NiBSplineBasisData::Sync(NiStreamReversible& stream) {
	stream.Sync(numControlPoints);
}


void NiTimeController::Sync(NiStreamReversible& stream) {
	nextControllerRef.Sync(stream);
	stream.Sync(flags);
	stream.Sync(frequency);
	stream.Sync(phase);
	stream.Sync(startTime);
	stream.Sync(stopTime);
	targetRef.Sync(stream);
}

void NiTimeController::GetChildRefs(std::set<NiRef*>& refs) {
	NiObject::GetChildRefs(refs);

	refs.insert(&nextControllerRef);
}

void NiTimeController::GetChildIndices(std::vector<uint32_t>& indices) {
	NiObject::GetChildIndices(indices);

	indices.push_back(nextControllerRef.index);
}

void NiTimeController::GetPtrs(std::set<NiPtr*>& ptrs) {
	NiObject::GetPtrs(ptrs);

	ptrs.insert(&targetRef);
}


void NiLookAtController::Sync(NiStreamReversible& stream) {
	stream.Sync(lookAtFlags);
	lookAtNodePtr.Sync(stream);
}

void NiLookAtController::GetPtrs(std::set<NiPtr*>& ptrs) {
	NiTimeController::GetPtrs(ptrs);

	ptrs.insert(&lookAtNodePtr);
}


void NiPathController::Sync(NiStreamReversible& stream) {
	stream.Sync(pathFlags);
	stream.Sync(bankDir);
	stream.Sync(maxBankAngle);
	stream.Sync(smoothing);
	stream.Sync(followAxis);
	pathDataRef.Sync(stream);
	percentDataRef.Sync(stream);
}

void NiPathController::GetChildRefs(std::set<NiRef*>& refs) {
	NiTimeController::GetChildRefs(refs);

	refs.insert(&pathDataRef);
	refs.insert(&percentDataRef);
}

void NiPathController::GetChildIndices(std::vector<uint32_t>& indices) {
	NiTimeController::GetChildIndices(indices);

	indices.push_back(pathDataRef.index);
	indices.push_back(percentDataRef.index);
}


void NiUVData::Sync(NiStreamReversible& stream) {
	uTrans.Sync(stream);
	vTrans.Sync(stream);
	uScale.Sync(stream);
	vScale.Sync(stream);
}


void NiUVController::Sync(NiStreamReversible& stream) {
	stream.Sync(textureSet);
	dataRef.Sync(stream);
}

void NiUVController::GetChildRefs(std::set<NiRef*>& refs) {
	NiTimeController::GetChildRefs(refs);

	refs.insert(&dataRef);
}

void NiUVController::GetChildIndices(std::vector<uint32_t>& indices) {
	NiTimeController::GetChildIndices(indices);

	indices.push_back(dataRef.index);
}


void BSFrustumFOVController::Sync(NiStreamReversible& stream) {
	interpolatorRef.Sync(stream);
}

void BSFrustumFOVController::GetChildRefs(std::set<NiRef*>& refs) {
	NiTimeController::GetChildRefs(refs);

	refs.insert(&interpolatorRef);
}

void BSFrustumFOVController::GetChildIndices(std::vector<uint32_t>& indices) {
	NiTimeController::GetChildIndices(indices);

	indices.push_back(interpolatorRef.index);
}


void BSLagBoneController::Sync(NiStreamReversible& stream) {
	stream.Sync(linearVelocity);
	stream.Sync(linearRotation);
	stream.Sync(maxDistance);
}


void BSProceduralLightningController::Sync(NiStreamReversible& stream) {
	generationInterpRef.Sync(stream);
	mutationInterpRef.Sync(stream);
	subdivisionInterpRef.Sync(stream);
	numBranchesInterpRef.Sync(stream);
	numBranchesVarInterpRef.Sync(stream);
	lengthInterpRef.Sync(stream);
	lengthVarInterpRef.Sync(stream);
	widthInterpRef.Sync(stream);
	arcOffsetInterpRef.Sync(stream);

	stream.Sync(subdivisions);
	stream.Sync(numBranches);
	stream.Sync(numBranchesPerVariation);

	stream.Sync(length);
	stream.Sync(lengthVariation);
	stream.Sync(width);
	stream.Sync(childWidthMult);
	stream.Sync(arcOffset);

	stream.Sync(fadeMainBolt);
	stream.Sync(fadeChildBolts);
	stream.Sync(animateArcOffset);

	shaderPropertyRef.Sync(stream);
}

void BSProceduralLightningController::GetChildRefs(std::set<NiRef*>& refs) {
	NiTimeController::GetChildRefs(refs);

	refs.insert(&generationInterpRef);
	refs.insert(&mutationInterpRef);
	refs.insert(&subdivisionInterpRef);
	refs.insert(&numBranchesInterpRef);
	refs.insert(&numBranchesVarInterpRef);
	refs.insert(&lengthInterpRef);
	refs.insert(&lengthVarInterpRef);
	refs.insert(&widthInterpRef);
	refs.insert(&arcOffsetInterpRef);
	refs.insert(&shaderPropertyRef);
}

void BSProceduralLightningController::GetChildIndices(std::vector<uint32_t>& indices) {
	NiTimeController::GetChildIndices(indices);

	indices.push_back(generationInterpRef.index);
	indices.push_back(mutationInterpRef.index);
	indices.push_back(subdivisionInterpRef.index);
	indices.push_back(numBranchesInterpRef.index);
	indices.push_back(numBranchesVarInterpRef.index);
	indices.push_back(lengthInterpRef.index);
	indices.push_back(lengthVarInterpRef.index);
	indices.push_back(widthInterpRef.index);
	indices.push_back(arcOffsetInterpRef.index);
	indices.push_back(shaderPropertyRef.index);
}


void NiBoneLODController::Sync(NiStreamReversible& stream) {
	stream.Sync(lod);
	stream.Sync(numLODs);

	boneArrays.Sync(stream);
}

void NiBoneLODController::GetPtrs(std::set<NiPtr*>& ptrs) {
	NiTimeController::GetPtrs(ptrs);

	for (auto& bp : boneArrays)
		bp.GetIndexPtrs(ptrs);
}


void NiMorphData::Sync(NiStreamReversible& stream) {
	stream.Sync(numMorphs);
	stream.Sync(numVertices);
	stream.Sync(relativeTargets);

	morphs.resize(numMorphs);
	for (uint32_t i = 0; i < numMorphs; i++)
		morphs[i].Sync(stream, numVertices);
}

void NiMorphData::GetStringRefs(std::vector<NiStringRef*>& refs) {
	NiObject::GetStringRefs(refs);

	for (auto& m : morphs)
		m.GetStringRefs(refs);
}

std::vector<Morph> NiMorphData::GetMorphs() const {
	return morphs;
}

void NiMorphData::SetMorphs(const uint32_t numVerts, const std::vector<Morph>& m) {
	numVertices = numVerts;
	numMorphs = static_cast<uint32_t>(m.size());
	morphs = m;

	for (auto& morph : morphs)
		morph.vectors.resize(numVertices);
}


void NiInterpController::Sync(NiStreamReversible& stream) {
	if (stream.GetVersion().File() >= V10_1_0_104 && stream.GetVersion().File() <= V10_1_0_108)
		stream.Sync(managerControlled);
}


void NiGeomMorpherController::Sync(NiStreamReversible& stream) {
	stream.Sync(morpherFlags);
	dataRef.Sync(stream);
	stream.Sync(alwaysUpdate);

	if (stream.GetVersion().File() >= V10_1_0_106 && stream.GetVersion().File() <= V20_1_0_3)
		interpolatorRefs.Sync(stream);

	if (stream.GetVersion().File() >= V10_2_0_0 && stream.GetVersion().File() <= V20_0_0_5 && stream.GetVersion().Stream() > 9)
		unknownInts.Sync(stream);

	if (stream.GetVersion().File() >= V20_1_0_3)
		interpWeights.Sync(stream);
}

void NiGeomMorpherController::GetChildRefs(std::set<NiRef*>& refs) {
	NiInterpController::GetChildRefs(refs);

	refs.insert(&dataRef);

	interpolatorRefs.GetIndexPtrs(refs);

	for (auto& m : interpWeights)
		m.GetChildRefs(refs);
}

void NiGeomMorpherController::GetChildIndices(std::vector<uint32_t>& indices) {
	NiInterpController::GetChildIndices(indices);

	indices.push_back(dataRef.index);

	interpolatorRefs.GetIndices(indices);

	for (auto& m : interpWeights)
		m.GetChildIndices(indices);
}


void NiSingleInterpController::Sync(NiStreamReversible& stream) {
	if (stream.GetVersion().File() >= V10_1_0_104)
		interpolatorRef.Sync(stream);
}

void NiSingleInterpController::GetChildRefs(std::set<NiRef*>& refs) {
	NiInterpController::GetChildRefs(refs);

	refs.insert(&interpolatorRef);
}

void NiSingleInterpController::GetChildIndices(std::vector<uint32_t>& indices) {
	NiInterpController::GetChildIndices(indices);

	indices.push_back(interpolatorRef.index);
}


void NiRollController::Sync(NiStreamReversible& stream) {
	dataRef.Sync(stream);
}

void NiRollController::GetChildRefs(std::set<NiRef*>& refs) {
	NiSingleInterpController::GetChildRefs(refs);

	refs.insert(&dataRef);
}

void NiRollController::GetChildIndices(std::vector<uint32_t>& indices) {
	NiSingleInterpController::GetChildIndices(indices);

	indices.push_back(dataRef.index);
}


void NiPoint3InterpController::Sync(NiStreamReversible& stream) {
	stream.Sync(targetColor);
}


void NiFloatExtraDataController::Sync(NiStreamReversible& stream) {
	extraData.Sync(stream);
}

void NiFloatExtraDataController::GetStringRefs(std::vector<NiStringRef*>& refs) {
	NiExtraDataController::GetStringRefs(refs);

	refs.emplace_back(&extraData);
}


void NiVisData::Sync(NiStreamReversible& stream) {
	keys.Sync(stream);
}


void NiFlipController::Sync(NiStreamReversible& stream) {
	stream.Sync(textureSlot);
	sourceRefs.Sync(stream);
}

void NiFlipController::GetChildRefs(std::set<NiRef*>& refs) {
	NiFloatInterpController::GetChildRefs(refs);

	sourceRefs.GetIndexPtrs(refs);
}

void NiFlipController::GetChildIndices(std::vector<uint32_t>& indices) {
	NiFloatInterpController::GetChildIndices(indices);

	sourceRefs.GetIndices(indices);
}


void NiTextureTransformController::Sync(NiStreamReversible& stream) {
	stream.Sync(shaderMap);
	stream.Sync(textureSlot);
	stream.Sync(operation);
}


void NiKeyframeController::Sync(NiStreamReversible& stream) {
	if (stream.GetVersion().File() < V10_1_0_104)
		dataRef.Sync(stream);
}

void NiKeyframeController::GetChildRefs(std::set<NiRef*>& refs) {
	NiSingleInterpController::GetChildRefs(refs);

	refs.insert(&dataRef);
}

void NiKeyframeController::GetChildIndices(std::vector<uint32_t>& indices) {
	NiSingleInterpController::GetChildIndices(indices);

	indices.push_back(dataRef.index);
}


void BSLightingShaderPropertyColorController::Sync(NiStreamReversible& stream) {
	stream.Sync(typeOfControlledColor);
}


void BSLightingShaderPropertyFloatController::Sync(NiStreamReversible& stream) {
	stream.Sync(typeOfControlledVariable);
}


void BSLightingShaderPropertyUShortController::Sync(NiStreamReversible& stream) {
	stream.Sync(typeOfControlledVariable);
}


void BSEffectShaderPropertyColorController::Sync(NiStreamReversible& stream) {
	stream.Sync(typeOfControlledColor);
}


void BSEffectShaderPropertyFloatController::Sync(NiStreamReversible& stream) {
	stream.Sync(typeOfControlledVariable);
}


void NiMultiTargetTransformController::Sync(NiStreamReversible& stream) {
	targetRefs.SetKeepEmptyRefs();
	targetRefs.Sync(stream);
}

void NiMultiTargetTransformController::GetPtrs(std::set<NiPtr*>& ptrs) {
	NiInterpController::GetPtrs(ptrs);

	targetRefs.GetIndexPtrs(ptrs);
}


void NiPSysModifierCtlr::Sync(NiStreamReversible& stream) {
	modifierName.Sync(stream);
}

void NiPSysModifierCtlr::GetStringRefs(std::vector<NiStringRef*>& refs) {
	NiSingleInterpController::GetStringRefs(refs);

	refs.emplace_back(&modifierName);
}


void NiBSplineInterpolator::Sync(NiStreamReversible& stream) {
	stream.Sync(startTime);
	stream.Sync(stopTime);
	splineDataRef.Sync(stream);
	basisDataRef.Sync(stream);
}

void NiBSplineInterpolator::GetChildRefs(std::set<NiRef*>& refs) {
	NiInterpolator::GetChildRefs(refs);

	refs.insert(&splineDataRef);
	refs.insert(&basisDataRef);
}

void NiBSplineInterpolator::GetChildIndices(std::vector<uint32_t>& indices) {
	NiInterpolator::GetChildIndices(indices);

	indices.push_back(splineDataRef.index);
	indices.push_back(basisDataRef.index);
}


void NiBSplineCompFloatInterpolator::Sync(NiStreamReversible& stream) {
	stream.Sync(base);
	stream.Sync(offset);
	stream.Sync(bias);
	stream.Sync(multiplier);
}


void NiBSplinePoint3Interpolator::Sync(NiStreamReversible& stream) {
	stream.Sync(value);
	stream.Sync(handle);
}


void NiBSplineCompPoint3Interpolator::Sync(NiStreamReversible& stream) {
	stream.Sync(positionOffset);
	stream.Sync(positionHalfRange);
}


void NiBSplineTransformInterpolator::Sync(NiStreamReversible& stream) {
	stream.Sync(translation);
	stream.Sync(rotation);
	stream.Sync(scale);

	stream.Sync(translationOffset);
	stream.Sync(rotationOffset);
	stream.Sync(scaleOffset);
}


void NiBSplineCompTransformInterpolator::Sync(NiStreamReversible& stream) {
	stream.Sync(translationBias);
	stream.Sync(translationMultiplier);
	stream.Sync(rotationBias);
	stream.Sync(rotationMultiplier);
	stream.Sync(scaleBias);
	stream.Sync(scaleMultiplier);
}


void InterpBlendItem::Sync(NiStreamReversible& stream) {
	interpolatorRef.Sync(stream);
	stream.Sync(weight);
	stream.Sync(normalizedWeight);
	if (stream.GetVersion().File() < V10_1_0_110)
		stream.Sync(priorityInt);
	else
		stream.Sync(priority);
	stream.Sync(easeSpinner);
}


void NiBlendInterpolator::Sync(NiStreamReversible& stream) {
	if (stream.GetVersion().File() >= V10_1_0_112)
		stream.Sync(flags);

	if (stream.GetVersion().File() < V10_1_0_110) {
		stream.Sync(arraySize);
	}
	else {
		uint8_t arraySizeByte = 0;
		if (stream.GetMode() == NiStreamReversible::Mode::Writing)
			arraySizeByte = static_cast<uint8_t>(arraySize);

		stream.Sync(arraySizeByte);

		if (stream.GetMode() == NiStreamReversible::Mode::Reading)
			arraySize = arraySizeByte;
	}

	if (stream.GetVersion().File() < V10_1_0_110)
		stream.Sync(arrayGrowBy);

	if (stream.GetVersion().File() >= V10_1_0_112)
		stream.Sync(weightThreshold);

	if (stream.GetVersion().File() >= V10_1_0_112) {
		if ((flags & INTERP_BLEND_MANAGER_CONTROLLED) == 0) {
			uint8_t interpCountByte = 0;
			if (stream.GetMode() == NiStreamReversible::Mode::Writing)
				interpCountByte = static_cast<uint8_t>(interpCount);

			stream.Sync(interpCountByte);

			if (stream.GetMode() == NiStreamReversible::Mode::Reading)
				interpCount = interpCountByte;

			stream.Sync(singleIndex);
			stream.Sync(highPriority);
			stream.Sync(nextHighPriority);
			stream.Sync(singleTime);
			stream.Sync(highWeightsSum);
			stream.Sync(nextHighWeightsSum);
			stream.Sync(highEaseSpinner);

			interpItems.resize(arraySize);
			for (auto& item : interpItems)
				item.Sync(stream);
		}
	}
	else {
		interpItems.resize(arraySize);
		for (auto& item : interpItems)
			item.Sync(stream);

		stream.Sync(managerControlled);
		stream.Sync(weightThreshold);
		stream.Sync(onlyUseHighestWeight);
	}

	if (stream.GetVersion().File() < V10_1_0_110) {
		stream.Sync(interpCount);
		stream.Sync(singleIndexShort);
	}

	if (stream.GetVersion().File() >= V10_1_0_110 && stream.GetVersion().File() < V10_1_0_112) {
		uint8_t interpCountByte = 0;
		if (stream.GetMode() == NiStreamReversible::Mode::Writing)
			interpCountByte = static_cast<uint8_t>(interpCount);

		stream.Sync(interpCountByte);

		if (stream.GetMode() == NiStreamReversible::Mode::Reading)
			interpCount = interpCountByte;

		stream.Sync(singleIndex);
	}

	if (stream.GetVersion().File() >= V10_1_0_108 && stream.GetVersion().File() < V10_1_0_112) {
		singleInterpolatorRef.Sync(stream);
		stream.Sync(singleTime);
	}

	if (stream.GetVersion().File() < V10_1_0_110) {
		stream.Sync(highPriorityInt);
		stream.Sync(nextHighPriorityInt);
	}

	if (stream.GetVersion().File() >= V10_1_0_110 && stream.GetVersion().File() < V10_1_0_112) {
		stream.Sync(highPriority);
		stream.Sync(nextHighPriority);
	}
}

void NiBlendInterpolator::GetChildRefs(std::set<NiRef*>& refs) {
	NiInterpolator::GetChildRefs(refs);

	for (auto& item : interpItems)
		refs.insert(&item.interpolatorRef);

	refs.insert(&singleInterpolatorRef);
}

void NiBlendInterpolator::GetChildIndices(std::vector<uint32_t>& indices) {
	NiInterpolator::GetChildIndices(indices);

	for (const auto& item : interpItems)
		indices.push_back(item.interpolatorRef.index);

	indices.push_back(singleInterpolatorRef.index);
}


void NiBlendBoolInterpolator::Sync(NiStreamReversible& stream) {
	stream.Sync(value);
}


void NiBlendFloatInterpolator::Sync(NiStreamReversible& stream) {
	stream.Sync(value);
}


void NiBlendPoint3Interpolator::Sync(NiStreamReversible& stream) {
	stream.Sync(point);
}


void NiBlendTransformInterpolator::Sync(NiStreamReversible& stream) {
	if (stream.GetVersion().File() < V10_1_0_110)
		value.Sync(stream);
}


void NiBoolInterpolator::Sync(NiStreamReversible& stream) {
	stream.Sync(boolValue);
	dataRef.Sync(stream);
}

void NiBoolInterpolator::GetChildRefs(std::set<NiRef*>& refs) {
	NiKeyBasedInterpolator::GetChildRefs(refs);

	refs.insert(&dataRef);
}

void NiBoolInterpolator::GetChildIndices(std::vector<uint32_t>& indices) {
	NiKeyBasedInterpolator::GetChildIndices(indices);

	indices.push_back(dataRef.index);
}


void NiFloatInterpolator::Sync(NiStreamReversible& stream) {
	stream.Sync(floatValue);
	dataRef.Sync(stream);
}

void NiFloatInterpolator::GetChildRefs(std::set<NiRef*>& refs) {
	NiKeyBasedInterpolator::GetChildRefs(refs);

	refs.insert(&dataRef);
}

void NiFloatInterpolator::GetChildIndices(std::vector<uint32_t>& indices) {
	NiKeyBasedInterpolator::GetChildIndices(indices);

	indices.push_back(dataRef.index);
}


void NiTransformInterpolator::Sync(NiStreamReversible& stream) {
	stream.Sync(translation);
	stream.Sync(rotation);
	stream.Sync(scale);
	dataRef.Sync(stream);
}

void NiTransformInterpolator::GetChildRefs(std::set<NiRef*>& refs) {
	NiKeyBasedInterpolator::GetChildRefs(refs);

	refs.insert(&dataRef);
}

void NiTransformInterpolator::GetChildIndices(std::vector<uint32_t>& indices) {
	NiKeyBasedInterpolator::GetChildIndices(indices);

	indices.push_back(dataRef.index);
}


void NiPoint3Interpolator::Sync(NiStreamReversible& stream) {
	stream.Sync(point3Value);
	dataRef.Sync(stream);
}

void NiPoint3Interpolator::GetChildRefs(std::set<NiRef*>& refs) {
	NiKeyBasedInterpolator::GetChildRefs(refs);

	refs.insert(&dataRef);
}

void NiPoint3Interpolator::GetChildIndices(std::vector<uint32_t>& indices) {
	NiKeyBasedInterpolator::GetChildIndices(indices);

	indices.push_back(dataRef.index);
}


void NiPathInterpolator::Sync(NiStreamReversible& stream) {
	stream.Sync(pathFlags);
	stream.Sync(bankDir);
	stream.Sync(maxBankAngle);
	stream.Sync(smoothing);
	stream.Sync(followAxis);
	pathDataRef.Sync(stream);
	percentDataRef.Sync(stream);
}

void NiPathInterpolator::GetChildRefs(std::set<NiRef*>& refs) {
	NiKeyBasedInterpolator::GetChildRefs(refs);

	refs.insert(&pathDataRef);
	refs.insert(&percentDataRef);
}

void NiPathInterpolator::GetChildIndices(std::vector<uint32_t>& indices) {
	NiKeyBasedInterpolator::GetChildIndices(indices);

	indices.push_back(pathDataRef.index);
	indices.push_back(percentDataRef.index);
}


void NiLookAtInterpolator::Sync(NiStreamReversible& stream) {
	stream.Sync(flags);
	lookAtRef.Sync(stream);
	lookAtName.Sync(stream);
	transform.Sync(stream);
	translateInterpRef.Sync(stream);
	rollInterpRef.Sync(stream);
	scaleInterpRef.Sync(stream);
}

void NiLookAtInterpolator::GetStringRefs(std::vector<NiStringRef*>& refs) {
	NiInterpolator::GetStringRefs(refs);

	refs.emplace_back(&lookAtName);
}

void NiLookAtInterpolator::GetChildRefs(std::set<NiRef*>& refs) {
	NiInterpolator::GetChildRefs(refs);

	refs.insert(&translateInterpRef);
	refs.insert(&rollInterpRef);
	refs.insert(&scaleInterpRef);
}

void NiLookAtInterpolator::GetChildIndices(std::vector<uint32_t>& indices) {
	NiInterpolator::GetChildIndices(indices);

	indices.push_back(translateInterpRef.index);
	indices.push_back(rollInterpRef.index);
	indices.push_back(scaleInterpRef.index);
}

void NiLookAtInterpolator::GetPtrs(std::set<NiPtr*>& ptrs) {
	NiInterpolator::GetPtrs(ptrs);

	ptrs.insert(&lookAtRef);
}


void BSTreadTransfInterpolator::Sync(NiStreamReversible& stream) {
	treadTransforms.Sync(stream);
	dataRef.Sync(stream);
}

void BSTreadTransfInterpolator::GetStringRefs(std::vector<NiStringRef*>& refs) {
	NiInterpolator::GetStringRefs(refs);

	for (auto& tt : treadTransforms)
		tt.GetStringRefs(refs);
}

void BSTreadTransfInterpolator::GetChildRefs(std::set<NiRef*>& refs) {
	NiInterpolator::GetChildRefs(refs);

	refs.insert(&dataRef);
}

void BSTreadTransfInterpolator::GetChildIndices(std::vector<uint32_t>& indices) {
	NiInterpolator::GetChildIndices(indices);

	indices.push_back(dataRef.index);
}


void NiStringPalette::Sync(NiStreamReversible& stream) {
	palette.Sync(stream, 4);
	length = static_cast<uint32_t>(palette.length());
	stream.Sync(length);
}


void NiSequence::Sync(NiStreamReversible& stream) {
	name.Sync(stream);

	uint32_t sz = controlledBlocks.SyncSize(stream);

	if (stream.GetVersion().File() >= V10_1_0_106)
		stream.Sync(arrayGrowBy);

	controlledBlocks.SyncData(stream, sz);
}

void NiSequence::GetStringRefs(std::vector<NiStringRef*>& refs) {
	NiObject::GetStringRefs(refs);

	refs.emplace_back(&name);
	controlledBlocks.GetStringRefs(refs);
}

void NiSequence::GetChildRefs(std::set<NiRef*>& refs) {
	NiObject::GetChildRefs(refs);

	controlledBlocks.GetChildRefs(refs);
}

void NiSequence::GetChildIndices(std::vector<uint32_t>& indices) {
	NiObject::GetChildIndices(indices);

	controlledBlocks.GetChildIndices(indices);
}


void BSAnimNote::Sync(NiStreamReversible& stream) {
	stream.Sync(type);
	stream.Sync(time);

	if (type == ANT_GRABIK)
		stream.Sync(arm);

	if (type != ANT_INVALID) {
		stream.Sync(gain);
		stream.Sync(state);
	}
}


void BSAnimNotes::Sync(NiStreamReversible& stream) {
	animNoteRefs.Sync(stream);
}

void BSAnimNotes::GetChildRefs(std::set<NiRef*>& refs) {
	NiObject::GetChildRefs(refs);

	animNoteRefs.GetIndexPtrs(refs);
}

void BSAnimNotes::GetChildIndices(std::vector<uint32_t>& indices) {
	NiObject::GetChildIndices(indices);

	animNoteRefs.GetIndices(indices);
}


void NiControllerSequence::Sync(NiStreamReversible& stream) {
	if (stream.GetVersion().File() >= V10_1_0_106) {
		stream.Sync(weight);
		textKeyRef.Sync(stream);
		stream.Sync(cycleType);
		stream.Sync(frequency);

		if (stream.GetVersion().File() <= V10_4_0_1)
			stream.Sync(phase);

		stream.Sync(startTime);
		stream.Sync(stopTime);

		if (stream.GetVersion().File() == V10_1_0_106)
			stream.Sync(playBackwards);

		managerRef.Sync(stream);
		accumRootName.Sync(stream);
	}

	if (stream.GetVersion().File() >= V10_1_0_113 && stream.GetVersion().File() < V20_1_0_1)
		stringPaletteRef.Sync(stream);

	if (stream.GetVersion().Stream() >= 24 && stream.GetVersion().Stream() <= 28)
		animNotesRef.Sync(stream);
	else if (stream.GetVersion().Stream() > 28)
		animNotesRefs.Sync(stream);
}

void NiControllerSequence::GetStringRefs(std::vector<NiStringRef*>& refs) {
	NiSequence::GetStringRefs(refs);

	refs.emplace_back(&accumRootName);
}

void NiControllerSequence::GetChildRefs(std::set<NiRef*>& refs) {
	NiSequence::GetChildRefs(refs);

	refs.insert(&textKeyRef);
	refs.insert(&stringPaletteRef);
	refs.insert(&animNotesRef);
	animNotesRefs.GetIndexPtrs(refs);
}

void NiControllerSequence::GetChildIndices(std::vector<uint32_t>& indices) {
	NiSequence::GetChildIndices(indices);

	indices.push_back(textKeyRef.index);
	indices.push_back(stringPaletteRef.index);
	indices.push_back(animNotesRef.index);
	animNotesRefs.GetIndices(indices);
}

void NiControllerSequence::GetPtrs(std::set<NiPtr*>& ptrs) {
	NiSequence::GetPtrs(ptrs);

	ptrs.insert(&managerRef);
}


void NiControllerManager::Sync(NiStreamReversible& stream) {
	stream.Sync(cumulative);

	controllerSequenceRefs.Sync(stream);
	objectPaletteRef.Sync(stream);
}

void NiControllerManager::GetChildRefs(std::set<NiRef*>& refs) {
	NiTimeController::GetChildRefs(refs);

	controllerSequenceRefs.GetIndexPtrs(refs);
	refs.insert(&objectPaletteRef);
}

void NiControllerManager::GetChildIndices(std::vector<uint32_t>& indices) {
	NiTimeController::GetChildIndices(indices);

	controllerSequenceRefs.GetIndices(indices);
	indices.push_back(objectPaletteRef.index);
}
