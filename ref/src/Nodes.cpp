/*
nifly
C++ NIF library for the Gamebryo/NetImmerse File Format
See the included GPLv3 LICENSE file
*/

#include "Nodes.hpp"

using namespace nifly;

void NiNode::Sync(NiStreamReversible& stream) {
	childRefs.Sync(stream);

	if (stream.GetVersion().User() <= 12 && stream.GetVersion().Stream() < 130)
		effectRefs.Sync(stream);
}

void NiNode::GetChildRefs(std::set<NiRef*>& refs) {
	NiAVObject::GetChildRefs(refs);

	childRefs.GetIndexPtrs(refs);
	effectRefs.GetIndexPtrs(refs);
}

void NiNode::GetChildIndices(std::vector<uint32_t>& indices) {
	NiAVObject::GetChildIndices(indices);

	childRefs.GetIndices(indices);
	effectRefs.GetIndices(indices);
}


void BSValueNode::Sync(NiStreamReversible& stream) {
	stream.Sync(value);
	stream.Sync(valueFlags);
}


void BSTreeNode::Sync(NiStreamReversible& stream) {
	bones1.Sync(stream);
	bones2.Sync(stream);
}

void BSTreeNode::GetChildRefs(std::set<NiRef*>& refs) {
	NiNode::GetChildRefs(refs);

	bones1.GetIndexPtrs(refs);
	bones2.GetIndexPtrs(refs);
}

void BSTreeNode::GetChildIndices(std::vector<uint32_t>& indices) {
	NiNode::GetChildIndices(indices);

	bones1.GetIndices(indices);
	bones2.GetIndices(indices);
}


void BSOrderedNode::Sync(NiStreamReversible& stream) {
	stream.Sync(alphaSortBound);
	stream.Sync(isStaticBound);
}


void BSMultiBoundOBB::Sync(NiStreamReversible& stream) {
	stream.Sync(center);
	stream.Sync(size);
	stream.Sync(rotation);
}


void BSMultiBoundAABB::Sync(NiStreamReversible& stream) {
	stream.Sync(center);
	stream.Sync(halfExtent);
}


void BSMultiBoundSphere::Sync(NiStreamReversible& stream) {
	stream.Sync(center);
	stream.Sync(radius);
}


void BSMultiBound::Sync(NiStreamReversible& stream) {
	dataRef.Sync(stream);
}

void BSMultiBound::GetChildRefs(std::set<NiRef*>& refs) {
	NiObject::GetChildRefs(refs);

	refs.insert(&dataRef);
}

void BSMultiBound::GetChildIndices(std::vector<uint32_t>& indices) {
	NiObject::GetChildIndices(indices);

	indices.push_back(dataRef.index);
}


void BSMultiBoundNode::Sync(NiStreamReversible& stream) {
	multiBoundRef.Sync(stream);

	if (stream.GetVersion().User() >= 12)
		stream.Sync(cullingMode);
}

void BSMultiBoundNode::GetChildRefs(std::set<NiRef*>& refs) {
	NiNode::GetChildRefs(refs);

	refs.insert(&multiBoundRef);
}

void BSMultiBoundNode::GetChildIndices(std::vector<uint32_t>& indices) {
	NiNode::GetChildIndices(indices);

	indices.push_back(multiBoundRef.index);
}


void BSDistantObjectInstancedNode::Sync(NiStreamReversible& stream) {
	instances.Sync(stream);

	for (int i = 0; i < 3; i++)
		textureArrays[i].Sync(stream);
}


void BSRangeNode::Sync(NiStreamReversible& stream) {
	stream.Sync(min);
	stream.Sync(max);
	stream.Sync(current);
}


void UnkMaterialStruct::Sync(NiStreamReversible& stream) {
	stream.Sync(biomeFormID);
	stream.Sync(dirHash);
	stream.Sync(fileHash);
	stream.SyncString(mat);
}

void BSWaterReferenceStruct::Sync(NiStreamReversible& stream) {
	stream.Sync(transform);
	stream.Sync(resourceID);
	stream.Sync(unkInt1);
	material.Sync(stream, 4);
}

void BSWeakReference::Sync(NiStreamReversible& stream) {
	if (stream.GetVersion().Stream() >= 173)
		stream.Sync(formID);

	stream.Sync(resourceID);
	stream.Sync(numTransforms);
	transforms.resize(numTransforms);
	for (uint32_t i = 0; i < numTransforms; i++)
		stream.Sync(transforms[i]);

	stream.Sync(numMaterials);
	unkMaterials.resize(numMaterials);
	for (uint32_t i = 0; i < numMaterials; i++)
		unkMaterials[i].Sync(stream);
}

void BSWeakReferenceNode::Sync(NiStreamReversible& stream) {
	stream.Sync(numWeakRefs);
	weakRefs.resize(numWeakRefs);
	for (uint32_t i = 0; i < numWeakRefs; i++)
		weakRefs[i].Sync(stream);

	stream.Sync(unkInt1);
	stream.Sync(numWaterRefs);
	waterRefs.resize(numWaterRefs);
	for (uint32_t i = 0; i < numWaterRefs; i++)
		waterRefs[i].Sync(stream);
}


void BSFaceGenNiNode::Sync(NiStreamReversible& stream) {
	stream.Sync(unkShort);
}


void NiBillboardNode::Sync(NiStreamReversible& stream) {
	stream.Sync(billboardMode);
}


void NiSwitchNode::Sync(NiStreamReversible& stream) {
	stream.Sync(flags);
	stream.Sync(index);
}


void NiRangeLODData::Sync(NiStreamReversible& stream) {
	stream.Sync(lodCenter);
	lodLevels.Sync(stream);
}


void NiScreenLODData::Sync(NiStreamReversible& stream) {
	stream.Sync(boundCenter);
	stream.Sync(boundRadius);
	stream.Sync(worldCenter);
	stream.Sync(worldRadius);
	proportionLevels.Sync(stream);
}


void NiLODNode::Sync(NiStreamReversible& stream) {
	lodLevelData.Sync(stream);
}

void NiLODNode::GetChildRefs(std::set<NiRef*>& refs) {
	NiSwitchNode::GetChildRefs(refs);

	refs.insert(&lodLevelData);
}

void NiLODNode::GetChildIndices(std::vector<uint32_t>& indices) {
	NiSwitchNode::GetChildIndices(indices);

	indices.push_back(lodLevelData.index);
}


void NiSortAdjustNode::Sync(NiStreamReversible& stream) {
	stream.Sync(sortingMode);
}
