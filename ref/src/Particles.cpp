/*
nifly
C++ NIF library for the Gamebryo/NetImmerse File Format
See the included GPLv3 LICENSE file
*/

#include "Particles.hpp"

using namespace nifly;

NiParticlesData::NiParticlesData() {
	NiGeometryData::isPSys = true;
}

void NiParticlesData::Sync(NiStreamReversible& stream) {
	stream.Sync(hasRadii);
	if (hasRadii && stream.GetVersion().File() != V20_2_0_7) {
		radii.resize(numVertices);
		for (float& r : radii)
			stream.Sync(r);
	}

	stream.Sync(numActive);

	stream.Sync(hasSizes);
	if (hasSizes && stream.GetVersion().File() != V20_2_0_7) {
		sizes.resize(numVertices);
		for (float& s : sizes)
			stream.Sync(s);
	}

	stream.Sync(hasRotations);
	if (hasRotations && stream.GetVersion().File() != V20_2_0_7) {
		rotations.resize(numVertices);
		for (Quaternion& q : rotations)
			stream.Sync(q);
	}

	stream.Sync(hasRotationAngles);
	if (hasRotationAngles && stream.GetVersion().File() != V20_2_0_7) {
		rotationAngles.resize(numVertices);
		for (float& a : rotationAngles)
			stream.Sync(a);
	}

	stream.Sync(hasRotationAxes);
	if (hasRotationAxes && stream.GetVersion().File() != V20_2_0_7) {
		rotationAxes.resize(numVertices);
		for (Vector3& a : rotationAxes)
			stream.Sync(a);
	}

	if (stream.GetVersion().File() == V20_2_0_7) {
		stream.Sync(hasTextureIndices);

		uint32_t sz = 0;

		if (stream.GetVersion().User() >= 12) {
			sz = subtexOffsets.SyncSize(stream);
		}
		else {
			uint8_t numOffsets = subtexOffsets.size() > 255 ? 255 : static_cast<uint8_t>(subtexOffsets.size());
			stream.Sync(numOffsets);
			sz = numOffsets;
		}

		subtexOffsets.SyncData(stream, sz);

		if (stream.GetVersion().User() >= 12) {
			stream.Sync(aspectRatio);
			stream.Sync(aspectFlags);
			stream.Sync(speedToAspectAspect2);
			stream.Sync(speedToAspectSpeed1);
			stream.Sync(speedToAspectSpeed2);
		}
	}
}


void NiParticleMeshesData::Sync(NiStreamReversible& stream) {
	dataRef.Sync(stream);
}

void NiParticleMeshesData::GetChildRefs(std::set<NiRef*>& refs) {
	NiRotatingParticlesData::GetChildRefs(refs);

	refs.insert(&dataRef);
}

void NiParticleMeshesData::GetChildIndices(std::vector<uint32_t>& indices) {
	NiRotatingParticlesData::GetChildIndices(indices);

	indices.push_back(dataRef.index);
}


void NiPSysData::Sync(NiStreamReversible& stream) {
	if (stream.GetVersion().File() != V20_2_0_7) {
		particleInfo.resize(numVertices);
		for (auto& pi : particleInfo)
			pi.Sync(stream);
	}

	if (stream.GetVersion().Stream() > 130)
		stream.Sync(unknownVector);

	if (stream.GetVersion().File() == V20_2_4_7)
		stream.Sync(unknownQQSpeedByte1);

	if (stream.GetVersion().File() >= V20_0_0_2) {
		stream.Sync(hasRotationSpeeds);

		if (hasRotationSpeeds && stream.GetVersion().File() != V20_2_0_7) {
			rotationSpeeds.resize(numVertices);
			for (auto& rs : rotationSpeeds)
				stream.Sync(rs);
		}
	}

	if (stream.GetVersion().File() != V20_2_0_7) {
		stream.Sync(numAddedParticles);
		stream.Sync(addedParticlesBase);
	}

	if (stream.GetVersion().File() == V20_2_4_7)
		stream.Sync(unknownQQSpeedByte2);
}


void NiMeshPSysData::Sync(NiStreamReversible& stream) {
	stream.Sync(defaultPoolSize);
	stream.Sync(fillPoolsOnLoad);

	generationPoolSize.Sync(stream);
	nodeRef.Sync(stream);
}

void NiMeshPSysData::GetChildRefs(std::set<NiRef*>& refs) {
	NiPSysData::GetChildRefs(refs);

	refs.insert(&nodeRef);
}

void NiMeshPSysData::GetChildIndices(std::vector<uint32_t>& indices) {
	NiPSysData::GetChildIndices(indices);

	indices.push_back(nodeRef.index);
}


void BSStripPSysData::Sync(NiStreamReversible& stream) {
	stream.Sync(maxPointCount);
	stream.Sync(startCapSize);
	stream.Sync(endCapSize);
	stream.Sync(doZPrepass);
}


void NiPSysEmitterCtlrData::Sync(NiStreamReversible& stream) {
	floatKeys.Sync(stream);
	visibilityKeys.Sync(stream);
}


void NiPSysEmitterCtlr::Sync(NiStreamReversible& stream) {
	if (stream.GetVersion().File() < V10_1_0_104)
		dataRef.Sync(stream);
	else
		visInterpolatorRef.Sync(stream);
}

void NiPSysEmitterCtlr::GetChildRefs(std::set<NiRef*>& refs) {
	NiPSysModifierCtlr::GetChildRefs(refs);

	refs.insert(&dataRef);
	refs.insert(&visInterpolatorRef);
}

void NiPSysEmitterCtlr::GetChildIndices(std::vector<uint32_t>& indices) {
	NiPSysModifierCtlr::GetChildIndices(indices);

	indices.push_back(dataRef.index);
	indices.push_back(visInterpolatorRef.index);
}


void BSPSysMultiTargetEmitterCtlr::Sync(NiStreamReversible& stream) {
	stream.Sync(maxEmitters);
	masterParticleSystemRef.Sync(stream);
}

void BSPSysMultiTargetEmitterCtlr::GetPtrs(std::set<NiPtr*>& ptrs) {
	NiPSysEmitterCtlr::GetPtrs(ptrs);

	ptrs.insert(&masterParticleSystemRef);
}


void NiPSysModifier::Sync(NiStreamReversible& stream) {
	name.Sync(stream);

	stream.Sync(order);
	targetRef.Sync(stream);
	stream.Sync(isActive);
}

void NiPSysModifier::GetStringRefs(std::vector<NiStringRef*>& refs) {
	NiObject::GetStringRefs(refs);

	refs.emplace_back(&name);
}

void NiPSysModifier::GetPtrs(std::set<NiPtr*>& ptrs) {
	NiObject::GetPtrs(ptrs);

	ptrs.insert(&targetRef);
}


void BSPSysStripUpdateModifier::Sync(NiStreamReversible& stream) {
	stream.Sync(updateDeltaTime);
}


void NiPSysSpawnModifier::Sync(NiStreamReversible& stream) {
	stream.Sync(numSpawnGenerations);
	stream.Sync(percentSpawned);
	stream.Sync(minSpawned);
	stream.Sync(maxSpawned);
	stream.Sync(spawnSpeedVariation);
	stream.Sync(spawnDirVariation);
	stream.Sync(lifeSpan);
	stream.Sync(lifeSpanVariation);
}


void NiPSysAgeDeathModifier::Sync(NiStreamReversible& stream) {
	stream.Sync(spawnOnDeath);
	spawnModifierRef.Sync(stream);
}

void NiPSysAgeDeathModifier::GetChildRefs(std::set<NiRef*>& refs) {
	NiPSysModifier::GetChildRefs(refs);

	refs.insert(&spawnModifierRef);
}

void NiPSysAgeDeathModifier::GetChildIndices(std::vector<uint32_t>& indices) {
	NiPSysModifier::GetChildIndices(indices);

	indices.push_back(spawnModifierRef.index);
}


void BSPSysLODModifier::Sync(NiStreamReversible& stream) {
	stream.Sync(lodBeginDistance);
	stream.Sync(lodEndDistance);
	stream.Sync(endEmitScale);
	stream.Sync(endSize);
}


void BSPSysSimpleColorModifier::Sync(NiStreamReversible& stream) {
	stream.Sync(fadeInPercent);
	stream.Sync(fadeOutPercent);
	stream.Sync(color1EndPercent);
	stream.Sync(color2StartPercent);
	stream.Sync(color2EndPercent);
	stream.Sync(color3StartPercent);
	stream.Sync(color1);
	stream.Sync(color2);
	stream.Sync(color3);

	if (stream.GetVersion().Stream() > 130) {
		for (uint16_t& unknownShort : unknownShorts)
			stream.Sync(unknownShort);
	}
}


void NiPSysRotationModifier::Sync(NiStreamReversible& stream) {
	stream.Sync(initialSpeed);
	stream.Sync(initialSpeedVariation);

	if (stream.GetVersion().Stream() > 130) {
		stream.Sync(unknownVector);
		stream.Sync(unknownByte);
	}

	stream.Sync(initialAngle);
	stream.Sync(initialAngleVariation);
	stream.Sync(randomSpeedSign);
	stream.Sync(randomInitialAxis);
	stream.Sync(initialAxis);
}


void BSPSysScaleModifier::Sync(NiStreamReversible& stream) {
	floats.Sync(stream);
}


void NiPSysGravityModifier::Sync(NiStreamReversible& stream) {
	gravityObjRef.Sync(stream);
	stream.Sync(gravityAxis);
	stream.Sync(decay);
	stream.Sync(strength);
	stream.Sync(forceType);
	stream.Sync(turbulence);
	stream.Sync(turbulenceScale);

	if (stream.GetVersion().Stream() > 16)
		stream.Sync(worldAligned);
}

void NiPSysGravityModifier::GetPtrs(std::set<NiPtr*>& ptrs) {
	NiPSysModifier::GetPtrs(ptrs);

	ptrs.insert(&gravityObjRef);
}


void NiPSysBoundUpdateModifier::Sync(NiStreamReversible& stream) {
	stream.Sync(updateSkip);
}


void NiPSysDragModifier::Sync(NiStreamReversible& stream) {
	parentRef.Sync(stream);
	stream.Sync(dragAxis);
	stream.Sync(percentage);
	stream.Sync(range);
	stream.Sync(rangeFalloff);
}

void NiPSysDragModifier::GetPtrs(std::set<NiPtr*>& ptrs) {
	NiPSysModifier::GetPtrs(ptrs);

	ptrs.insert(&parentRef);
}


void BSPSysInheritVelocityModifier::Sync(NiStreamReversible& stream) {
	targetNodeRef.Sync(stream);
	stream.Sync(changeToInherit);
	stream.Sync(velocityMult);
	stream.Sync(velocityVar);
}

void BSPSysInheritVelocityModifier::GetPtrs(std::set<NiPtr*>& ptrs) {
	NiPSysModifier::GetPtrs(ptrs);

	ptrs.insert(&targetNodeRef);
}


void BSPSysSubTexModifier::Sync(NiStreamReversible& stream) {
	stream.Sync(startFrame);
	stream.Sync(startFrameVariation);
	stream.Sync(endFrame);
	stream.Sync(loopStartFrame);
	stream.Sync(loopStartFrameVariation);
	stream.Sync(frameCount);
	stream.Sync(frameCountVariation);
}


void NiPSysBombModifier::Sync(NiStreamReversible& stream) {
	bombNodeRef.Sync(stream);
	stream.Sync(bombAxis);
	stream.Sync(decay);
	stream.Sync(deltaV);
	stream.Sync(decayType);
	stream.Sync(symmetryType);
}

void NiPSysBombModifier::GetPtrs(std::set<NiPtr*>& ptrs) {
	NiPSysModifier::GetPtrs(ptrs);

	ptrs.insert(&bombNodeRef);
}


void NiColorData::Sync(NiStreamReversible& stream) {
	data.Sync(stream);
}


void NiPSysColorModifier::Sync(NiStreamReversible& stream) {
	dataRef.Sync(stream);
}

void NiPSysColorModifier::GetChildRefs(std::set<NiRef*>& refs) {
	NiPSysModifier::GetChildRefs(refs);

	refs.insert(&dataRef);
}

void NiPSysColorModifier::GetChildIndices(std::vector<uint32_t>& indices) {
	NiPSysModifier::GetChildIndices(indices);

	indices.push_back(dataRef.index);
}


void NiPSysGrowFadeModifier::Sync(NiStreamReversible& stream) {
	stream.Sync(growTime);
	stream.Sync(growGeneration);
	stream.Sync(fadeTime);
	stream.Sync(fadeGeneration);

	if (stream.GetVersion().Stream() >= 34)
		stream.Sync(baseScale);
}


void NiPSysMeshUpdateModifier::Sync(NiStreamReversible& stream) {
	meshRefs.Sync(stream);
}

void NiPSysMeshUpdateModifier::GetChildRefs(std::set<NiRef*>& refs) {
	NiPSysModifier::GetChildRefs(refs);

	meshRefs.GetIndexPtrs(refs);
}

void NiPSysMeshUpdateModifier::GetChildIndices(std::vector<uint32_t>& indices) {
	NiPSysModifier::GetChildIndices(indices);

	meshRefs.GetIndices(indices);
}


void NiPSysFieldModifier::Sync(NiStreamReversible& stream) {
	fieldObjectRef.Sync(stream);
	stream.Sync(magnitude);
	stream.Sync(attenuation);
	stream.Sync(useMaxDistance);
	stream.Sync(maxDistance);
}

void NiPSysFieldModifier::GetChildRefs(std::set<NiRef*>& refs) {
	NiPSysModifier::GetChildRefs(refs);

	refs.insert(&fieldObjectRef);
}

void NiPSysFieldModifier::GetChildIndices(std::vector<uint32_t>& indices) {
	NiPSysModifier::GetChildIndices(indices);

	indices.push_back(fieldObjectRef.index);
}


void NiPSysVortexFieldModifier::Sync(NiStreamReversible& stream) {
	stream.Sync(direction);
}


void NiPSysGravityFieldModifier::Sync(NiStreamReversible& stream) {
	stream.Sync(direction);
}


void NiPSysDragFieldModifier::Sync(NiStreamReversible& stream) {
	stream.Sync(useDirection);
	stream.Sync(direction);
}


void NiPSysTurbulenceFieldModifier::Sync(NiStreamReversible& stream) {
	stream.Sync(frequency);
}


void NiPSysAirFieldModifier::Sync(NiStreamReversible& stream) {
	stream.Sync(direction);
	stream.Sync(airFriction);
	stream.Sync(inheritVelocity);
	stream.Sync(inheritRotation);
	stream.Sync(componentOnly);
	stream.Sync(enableSpread);
	stream.Sync(spread);
}


void NiPSysRadialFieldModifier::Sync(NiStreamReversible& stream) {
	stream.Sync(radialType);
}


void BSWindModifier::Sync(NiStreamReversible& stream) {
	stream.Sync(strength);
}


void BSPSysRecycleBoundModifier::Sync(NiStreamReversible& stream) {
	stream.Sync(boundOffset);
	stream.Sync(boundExtent);
	targetNodeRef.Sync(stream);
}

void BSPSysRecycleBoundModifier::GetPtrs(std::set<NiPtr*>& ptrs) {
	NiPSysModifier::GetPtrs(ptrs);

	ptrs.insert(&targetNodeRef);
}


void BSPSysHavokUpdateModifier::Sync(NiStreamReversible& stream) {
	nodeRefs.Sync(stream);
	modifierRef.Sync(stream);
}

void BSPSysHavokUpdateModifier::GetChildRefs(std::set<NiRef*>& refs) {
	NiPSysModifier::GetChildRefs(refs);

	nodeRefs.GetIndexPtrs(refs);
	refs.insert(&modifierRef);
}

void BSPSysHavokUpdateModifier::GetChildIndices(std::vector<uint32_t>& indices) {
	NiPSysModifier::GetChildIndices(indices);

	nodeRefs.GetIndices(indices);
	indices.push_back(modifierRef.index);
}


void BSParentVelocityModifier::Sync(NiStreamReversible& stream) {
	stream.Sync(damping);
}


void BSMasterParticleSystem::Sync(NiStreamReversible& stream) {
	stream.Sync(maxEmitterObjs);
	particleSysRefs.Sync(stream);
}

void BSMasterParticleSystem::GetChildRefs(std::set<NiRef*>& refs) {
	NiNode::GetChildRefs(refs);

	particleSysRefs.GetIndexPtrs(refs);
}

void BSMasterParticleSystem::GetChildIndices(std::vector<uint32_t>& indices) {
	NiNode::GetChildIndices(indices);

	particleSysRefs.GetIndices(indices);
}


void NiParticleSystem::Sync(NiStreamReversible& stream) {
	if (stream.GetVersion().Stream() >= 100) {
		stream.Sync(bounds);

		if (stream.GetVersion().Stream() > 139)
			for (float& i : boundMinMax)
				stream.Sync(i);

		skinInstanceRef.Sync(stream);
		shaderPropertyRef.Sync(stream);
		alphaPropertyRef.Sync(stream);
		stream.Sync(vertFlags1);
		stream.Sync(vertFlags2);
		stream.Sync(vertFlags3);
		stream.Sync(vertFlags4);
		stream.Sync(vertFlags5);
		stream.Sync(vertFlags6);
		stream.Sync(vertFlags7);
		stream.Sync(vertFlags8);
	}
	else {
		dataRef.Sync(stream);
		psysDataRef.index = dataRef.index;
		skinInstanceRef.Sync(stream);

		if (stream.GetVersion().File() >= V10_0_1_0 && stream.GetVersion().File() <= V20_1_0_3) {
			stream.Sync(hasShader);
			if (hasShader) {
				shaderName.Sync(stream);
				stream.Sync(shaderExtraData);
			}
		}

		if (stream.GetVersion().File() >= V20_2_0_5) {
			uint32_t numMaterials = materialNames.Sync(stream);
			materialExtraData.SyncData(stream, numMaterials);

			stream.Sync(activeMaterial);
		}

		if (stream.GetVersion().File() >= V20_2_0_7)
			stream.Sync(defaultMatNeedsUpdate);

		if (stream.GetVersion().User() >= 12) {
			shaderPropertyRef.Sync(stream);
			alphaPropertyRef.Sync(stream);
		}
	}

	if (stream.GetVersion().User() >= 12) {
		stream.Sync(farBegin);
		stream.Sync(farEnd);
		stream.Sync(nearBegin);
		stream.Sync(nearEnd);

		if (stream.GetVersion().Stream() >= 100) {
			psysDataRef.Sync(stream);
			dataRef.index = psysDataRef.index;
		}
	}

	stream.Sync(isWorldSpace);
	modifierRefs.Sync(stream);
}

void NiParticleSystem::GetStringRefs(std::vector<NiStringRef*>& refs) {
	NiAVObject::GetStringRefs(refs);

	refs.emplace_back(&shaderName);

	for (auto& mn : materialNames)
		refs.emplace_back(&mn);
}

void NiParticleSystem::GetChildRefs(std::set<NiRef*>& refs) {
	NiAVObject::GetChildRefs(refs);

	refs.insert(&dataRef);
	refs.insert(&skinInstanceRef);
	refs.insert(&shaderPropertyRef);
	refs.insert(&alphaPropertyRef);
	refs.insert(&psysDataRef);
	modifierRefs.GetIndexPtrs(refs);
}

void NiParticleSystem::GetChildIndices(std::vector<uint32_t>& indices) {
	NiAVObject::GetChildIndices(indices);

	indices.push_back(dataRef.index);
	indices.push_back(skinInstanceRef.index);
	indices.push_back(shaderPropertyRef.index);
	indices.push_back(alphaPropertyRef.index);
	indices.push_back(psysDataRef.index);
	modifierRefs.GetIndices(indices);
}


void NiPSysCollider::Sync(NiStreamReversible& stream) {
	stream.Sync(bounce);
	stream.Sync(spawnOnCollide);
	stream.Sync(dieOnCollide);
	spawnModifierRef.Sync(stream);
	managerRef.Sync(stream);
	nextColliderRef.Sync(stream);
	colliderNodeRef.Sync(stream);
}

void NiPSysCollider::GetChildRefs(std::set<NiRef*>& refs) {
	NiObject::GetChildRefs(refs);

	refs.insert(&spawnModifierRef);
	refs.insert(&nextColliderRef);
}

void NiPSysCollider::GetChildIndices(std::vector<uint32_t>& indices) {
	NiObject::GetChildIndices(indices);

	indices.push_back(spawnModifierRef.index);
	indices.push_back(nextColliderRef.index);
}

void NiPSysCollider::GetPtrs(std::set<NiPtr*>& ptrs) {
	NiObject::GetPtrs(ptrs);

	ptrs.insert(&managerRef);
	ptrs.insert(&colliderNodeRef);
}


void NiPSysSphericalCollider::Sync(NiStreamReversible& stream) {
	stream.Sync(radius);
}


void NiPSysPlanarCollider::Sync(NiStreamReversible& stream) {
	stream.Sync(width);
	stream.Sync(height);
	stream.Sync(xAxis);
	stream.Sync(yAxis);
}


void NiPSysColliderManager::Sync(NiStreamReversible& stream) {
	colliderRef.Sync(stream);
}

void NiPSysColliderManager::GetChildRefs(std::set<NiRef*>& refs) {
	NiPSysModifier::GetChildRefs(refs);

	refs.insert(&colliderRef);
}

void NiPSysColliderManager::GetChildIndices(std::vector<uint32_t>& indices) {
	NiPSysModifier::GetChildIndices(indices);

	indices.push_back(colliderRef.index);
}


void NiPSysEmitter::Sync(NiStreamReversible& stream) {
	stream.Sync(speed);
	stream.Sync(speedVariation);
	stream.Sync(declination);
	stream.Sync(declinationVariation);
	stream.Sync(planarAngle);
	stream.Sync(planarAngleVariation);
	stream.Sync(color);
	stream.Sync(radius);
	stream.Sync(radiusVariation);
	stream.Sync(lifeSpan);
	stream.Sync(lifeSpanVariation);
}


void NiPSysVolumeEmitter::Sync(NiStreamReversible& stream) {
	emitterNodeRef.Sync(stream);
}

void NiPSysVolumeEmitter::GetPtrs(std::set<NiPtr*>& ptrs) {
	NiPSysEmitter::GetPtrs(ptrs);

	ptrs.insert(&emitterNodeRef);
}


void NiPSysSphereEmitter::Sync(NiStreamReversible& stream) {
	stream.Sync(radius);
}


void NiPSysCylinderEmitter::Sync(NiStreamReversible& stream) {
	stream.Sync(radius);
	stream.Sync(height);
}


void NiPSysBoxEmitter::Sync(NiStreamReversible& stream) {
	stream.Sync(width);
	stream.Sync(height);
	stream.Sync(depth);
}


void NiPSysMeshEmitter::Sync(NiStreamReversible& stream) {
	meshRefs.Sync(stream);

	stream.Sync(velocityType);
	stream.Sync(emissionType);
	stream.Sync(emissionAxis);
}

void NiPSysMeshEmitter::GetPtrs(std::set<NiPtr*>& ptrs) {
	NiPSysEmitter::GetPtrs(ptrs);

	meshRefs.GetIndexPtrs(ptrs);
}
