/*
nifly
C++ NIF library for the Gamebryo/NetImmerse File Format
See the included GPLv3 LICENSE file
*/

#pragma once

#include "NifUtil.hpp"

namespace nifly {

void trim_whitespace(std::string& str) {
	if (str.empty())
		return;

	std::string::size_type i, j;
	i = 0;

	while (i < str.size() && isspace(str[i]))
		++i;

	if (i == str.size()) {
		str.clear();
		return;
	}

	j = str.size() - 1;

	while (isspace(str[j]))
		--j;

	str = str.substr(i, j - i + 1);
}

} // namespace nifly