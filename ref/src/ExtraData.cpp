/*
nifly
C++ NIF library for the Gamebryo/NetImmerse File Format
See the included GPLv3 LICENSE file
*/

#include "ExtraData.hpp"

#include <fstream>

using namespace nifly;

void NiExtraData::Sync(NiStreamReversible& stream) {
	name.Sync(stream);
}

void NiExtraData::GetStringRefs(std::vector<NiStringRef*>& refs) {
	NiObject::GetStringRefs(refs);

	refs.emplace_back(&name);
}


void NiBinaryExtraData::Sync(NiStreamReversible& stream) {
	data.Sync(stream);
}


void NiFloatExtraData::Sync(NiStreamReversible& stream) {
	stream.Sync(floatData);
}


void NiFloatsExtraData::Sync(NiStreamReversible& stream) {
	floatsData.Sync(stream);
}


void NiStringsExtraData::Sync(NiStreamReversible& stream) {
	stringsData.Sync(stream);
}


void NiStringExtraData::Sync(NiStreamReversible& stream) {
	stringData.Sync(stream);
}

void NiStringExtraData::GetStringRefs(std::vector<NiStringRef*>& refs) {
	NiExtraData::GetStringRefs(refs);

	refs.emplace_back(&stringData);
}


void NiBooleanExtraData::Sync(NiStreamReversible& stream) {
	stream.Sync(booleanData);
}


void NiIntegerExtraData::Sync(NiStreamReversible& stream) {
	stream.Sync(integerData);
}


void NiIntegersExtraData::Sync(NiStreamReversible& stream) {
	integersData.Sync(stream);
}


void NiVectorExtraData::Sync(NiStreamReversible& stream) {
	stream.Sync(vectorData);
}


void NiColorExtraData::Sync(NiStreamReversible& stream) {
	stream.Sync(colorData);
}


void BSWArray::Sync(NiStreamReversible& stream) {
	data.Sync(stream);
}


void BSPositionData::Sync(NiStreamReversible& stream) {
	data.Sync(stream);
}


void BSEyeCenterExtraData::Sync(NiStreamReversible& stream) {
	data.Sync(stream);
}


void BSPackedGeomData::Sync(NiStreamReversible& stream) {
	stream.Sync(numVertices);

	stream.Sync(lodLevels);
	stream.Sync(triCountLod0);
	stream.Sync(triOffsetLod0);
	stream.Sync(triCountLod1);
	stream.Sync(triOffsetLod1);
	stream.Sync(triCountLod2);
	stream.Sync(triOffsetLod2);

	combined.Sync(stream);

	stream.Sync(vertexDesc);

	vertData.resize(numVertices);

	for (uint32_t i = 0; i < numVertices; i++) {
		auto& vertex = vertData[i];
		if (HasVertices()) {
			if (IsFullPrecision() || stream.GetVersion().Stream() == 100) {
				// Full precision
				stream.Sync(vertex.vert);
				stream.Sync(vertex.bitangentX);
			}
			else {
				// Half precision
				stream.SyncHalf(vertex.vert.x);
				stream.SyncHalf(vertex.vert.y);
				stream.SyncHalf(vertex.vert.z);

				stream.SyncHalf(vertex.bitangentX);
			}
		}

		if (HasUVs()) {
			stream.SyncHalf(vertex.uv.u);
			stream.SyncHalf(vertex.uv.v);
		}

		if (HasNormals()) {
			for (uint8_t& j : vertex.normal)
				stream.Sync(j);

			stream.Sync(vertex.bitangentY);

			if (HasTangents()) {
				for (uint8_t& j : vertex.tangent)
					stream.Sync(j);

				stream.Sync(vertex.bitangentZ);
			}
		}


		if (HasVertexColors())
			for (uint8_t& j : vertex.colorData)
				stream.Sync(j);

		if (IsSkinned()) {
			for (float& weight : vertex.weights)
				stream.SyncHalf(weight);

			for (uint8_t& weightBone : vertex.weightBones)
				stream.Sync(weightBone);
		}

		if (HasEyeData())
			stream.Sync(vertex.eyeData);
	}

	triangles.resize(triCountLod0 + triCountLod1 + triCountLod2);
	for (auto& t : triangles)
		stream.Sync(t);
}

void BSPackedGeomData::SetVertices(const bool enable) {
	if (enable) {
		vertexDesc.SetFlag(VF_VERTEX);
		vertData.resize(numVertices);
	}
	else {
		vertexDesc.RemoveFlag(VF_VERTEX);
		vertData.clear();
		numVertices = 0;

		SetUVs(false);
		SetNormals(false);
		SetTangents(false);
		SetVertexColors(false);
		SetSkinned(false);
	}
}

void BSPackedGeomData::SetUVs(const bool enable) {
	if (enable)
		vertexDesc.SetFlag(VF_UV);
	else
		vertexDesc.RemoveFlag(VF_UV);
}

void BSPackedGeomData::SetSecondUVs(const bool enable) {
	if (enable)
		vertexDesc.SetFlag(VF_UV_2);
	else
		vertexDesc.RemoveFlag(VF_UV_2);
}

void BSPackedGeomData::SetNormals(const bool enable) {
	if (enable)
		vertexDesc.SetFlag(VF_NORMAL);
	else
		vertexDesc.RemoveFlag(VF_NORMAL);
}

void BSPackedGeomData::SetTangents(const bool enable) {
	if (enable)
		vertexDesc.SetFlag(VF_TANGENT);
	else
		vertexDesc.RemoveFlag(VF_TANGENT);
}

void BSPackedGeomData::SetVertexColors(const bool enable) {
	if (enable) {
		if (!vertexDesc.HasFlag(VF_COLORS)) {
			for (auto& v : vertData) {
				v.colorData[0] = 255;
				v.colorData[1] = 255;
				v.colorData[2] = 255;
				v.colorData[3] = 255;
			}
		}

		vertexDesc.SetFlag(VF_COLORS);
	}
	else
		vertexDesc.RemoveFlag(VF_COLORS);
}

void BSPackedGeomData::SetSkinned(const bool enable) {
	if (enable)
		vertexDesc.SetFlag(VF_SKINNED);
	else
		vertexDesc.RemoveFlag(VF_SKINNED);
}

void BSPackedGeomData::SetEyeData(const bool enable) {
	if (enable)
		vertexDesc.SetFlag(VF_EYEDATA);
	else
		vertexDesc.RemoveFlag(VF_EYEDATA);
}

void BSPackedGeomData::SetFullPrecision(const bool enable) {
	if (!CanChangePrecision())
		return;

	if (enable)
		vertexDesc.SetFlag(VF_FULLPREC);
	else
		vertexDesc.RemoveFlag(VF_FULLPREC);
}


void BSPackedCombinedSharedGeomDataExtra::Sync(NiStreamReversible& stream) {
	vertexDesc.Sync(stream);
	stream.Sync(numVertices);
	stream.Sync(numTriangles);
	stream.Sync(unkFlags1);
	stream.Sync(unkFlags2);

	stream.Sync(numData);
	objects.resize(numData);
	data.resize(numData);

	for (uint32_t i = 0; i < numData; i++)
		stream.Sync(objects[i]);

	for (uint32_t i = 0; i < numData; i++)
		data[i].Sync(stream);
}


void BSInvMarker::Sync(NiStreamReversible& stream) {
	stream.Sync(rotationX);
	stream.Sync(rotationY);
	stream.Sync(rotationZ);
	stream.Sync(zoom);
}


void FurniturePosition::Sync(NiStreamReversible& stream) {
	stream.Sync(offset);

	if (stream.GetVersion().User() <= 11) {
		stream.Sync(orientation);
		stream.Sync(posRef1);
		stream.Sync(posRef2);
	}

	if (stream.GetVersion().User() >= 12) {
		stream.Sync(heading);
		stream.Sync(animationType);
		stream.Sync(entryPoints);
	}
}


void BSFurnitureMarker::Sync(NiStreamReversible& stream) {
	positions.Sync(stream);
}

void DecalVectorBlock::Sync(NiStreamReversible& stream) {
	points.Sync(stream);
	normals.SyncData(stream, points.size());
}


void BSDecalPlacementVectorExtraData::Sync(NiStreamReversible& stream) {
	decalVectorBlocks.Sync(stream);
}


void BSBehaviorGraphExtraData::Sync(NiStreamReversible& stream) {
	behaviorGraphFile.Sync(stream);
	stream.Sync(controlsBaseSkel);
}

void BSBehaviorGraphExtraData::GetStringRefs(std::vector<NiStringRef*>& refs) {
	NiExtraData::GetStringRefs(refs);

	refs.emplace_back(&behaviorGraphFile);
}


void BSBound::Sync(NiStreamReversible& stream) {
	stream.Sync(center);
	stream.Sync(halfExtents);
}


void BoneLOD::Sync(NiStreamReversible& stream) {
	stream.Sync(distance);
	boneName.Sync(stream);
}

void BoneLOD::GetStringRefs(std::vector<NiStringRef*>& refs) {
	refs.emplace_back(&boneName);
}


void BSBoneLODExtraData::Sync(NiStreamReversible& stream) {
	boneLODs.Sync(stream);
}

void BSBoneLODExtraData::GetStringRefs(std::vector<NiStringRef*>& refs) {
	NiExtraData::GetStringRefs(refs);

	boneLODs.GetStringRefs(refs);
}


void NiTextKeyExtraData::Sync(NiStreamReversible& stream) {
	textKeys.Sync(stream);
}

void NiTextKeyExtraData::GetStringRefs(std::vector<NiStringRef*>& refs) {
	NiExtraData::GetStringRefs(refs);

	textKeys.GetStringRefs(refs);
}


void BSDistantObjectLargeRefExtraData::Sync(NiStreamReversible& stream) {
	stream.Sync(largeRef);
}


void BSDistantObjectExtraData::Sync(NiStreamReversible& stream) {
	stream.Sync(distantObjectFlags);
}


void BSConnectPoint::Sync(NiStreamReversible& stream) {
	root.Sync(stream, 4);
	variableName.Sync(stream, 4);

	stream.Sync(rotation);
	stream.Sync(translation);
	stream.Sync(scale);
}


void BSConnectPointParents::Sync(NiStreamReversible& stream) {
	connectPoints.Sync(stream);
}


void BSConnectPointChildren::Sync(NiStreamReversible& stream) {
	stream.Sync(skinned);
	targets.Sync(stream);
}


BSClothExtraData::BSClothExtraData(const uint32_t size) {
	data.resize(size);
}

void BSClothExtraData::Sync(NiStreamReversible& stream) {
	data.SyncByteArray(stream);
}


bool BSClothExtraData::ToHKX(const std::string& fileName) {
	std::ofstream file(fileName, std::ios_base::binary);
	if (!file)
		return false;

	file.write(data.data(), data.size());
	return true;
}

bool BSClothExtraData::FromHKX(const std::string& fileName) {
	std::ifstream file(fileName, std::ios::binary | std::ios::ate);
	if (!file)
		return false;

	auto numBytes = static_cast<uint32_t>(file.tellg());
	file.seekg(0, std::ios::beg);

	data.resize(numBytes);
	file.read(data.data(), numBytes);
	return true;
}


void BSCollisionQueryProxyExtraData::Sync(NiStreamReversible& stream) {
	data.SyncByteArray(stream);
}


void SkinAttach::Sync(NiStreamReversible& stream) {
	bones.Sync(stream);
}


void BoneTranslations::Sync(NiStreamReversible& stream) {
	stream.Sync(numTranslations);
	translations.resize(numTranslations);
	for (uint32_t i = 0; i < numTranslations; i++) {
		translations[i].bone.Sync(stream, 4);
		stream.Sync(translations[i].trans);
	}
}
