#!/usr/bin/env python3-vt
"""nifly property checks (solver-based checking of the real code, see DESIGN.md).

  check.py <ID> [--tier quick|thorough]      decide property <ID> on /repo's current working tree
  check.py replay <replay-file>              re-run one counterexample natively (ASan/UBSan build)

exit 0: property held on everything explored (KNOWN-FINDING lines for listed defects)
exit 1: "VIOLATION property=<id> replay=<path>" for a natively reproduced, unlisted violation
"""
import sys, os, json, time, importlib, hashlib, subprocess, threading, re, argparse

VERIF = os.path.dirname(os.path.abspath(__file__))
sys.path.insert(0, VERIF)
from nifsym import build, runner  # noqa: E402

EVID = os.environ.get("VERIF_EVIDENCE_DIR") or os.path.join(VERIF, "evidence")
REPLAYS = os.environ.get("VERIF_REPLAY_DIR") or os.path.join(VERIF, "replays")


def load_known():
    p = os.path.join(VERIF, "known_findings.json")
    if not os.path.exists(p):
        return []
    return json.load(open(p))["findings"]


def write_replay(path, rp):
    with open(path, "w") as f:
        f.write("%s %s\n" % (rp["entry"], " ".join(str(a) for a in rp.get("args", []))))
        for nm, w, v in rp.get("values", []):
            f.write("v %s %d %d\n" % (nm, w, v))
        if rp.get("input"):
            f.write("i %s\n" % rp["input"])
        if rp.get("trunc") is not None:
            f.write("t %d\n" % rp["trunc"])
        if rp.get("meta"):
            f.write("# %s\n" % json.dumps(rp["meta"]))


def run_native(twin, replay_path, timeout=120):
    """returns dict(rc, reach, fails, out_sha, sanitizer, timeout)"""
    env = dict(os.environ, ASAN_OPTIONS="detect_leaks=0:abort_on_error=0:allocator_may_return_null=0:max_allocation_size_mb=2048",
               UBSAN_OPTIONS="halt_on_error=1:print_stacktrace=1")
    timed_out = False
    try:
        r = subprocess.run([twin, replay_path], stdout=subprocess.PIPE, stderr=subprocess.PIPE, timeout=timeout, env=env)
        out = r.stdout.decode("latin1")
        err = r.stderr.decode("latin1")
        rcode = r.returncode
    except subprocess.TimeoutExpired as te:
        # keep what was printed before the time-out (assertion lines are flushed as they happen)
        timed_out = True
        out = (te.stdout or b"").decode("latin1")
        err = (te.stderr or b"").decode("latin1")
        rcode = None
    reach, fails, osha, ended = [], [], None, False
    for line in out.split("\n"):
        if line.startswith("REACH "):
            reach.append(line[6:].strip())
        elif line.startswith("ASSERT-FAIL "):
            fails.append(line[12:].strip())
        elif line.startswith("OUT "):
            h = line[4:].strip()
            osha = hashlib.sha256(bytes.fromhex(h)).hexdigest() if h else None
        elif line.startswith("END"):
            ended = True
    san = None
    m = re.search(r"(ERROR: AddressSanitizer: [\w-]+|runtime error: [^\n]+|terminate called[^\n]*\n[^\n]*|AddressSanitizer: requested allocation size[^\n]*|AddressSanitizer:DEADLYSIGNAL)", err)
    if m:
        san = m.group(1).replace("\n", " ")
    return {"rc": rcode, "timeout": timed_out, "reach": reach, "fails": fails, "out_sha": osha, "sanitizer": san,
            "ended": ended, "assume_fail": "ASSUME-FAIL" in out, "desync": "REPLAY-DESYNC" in out, "stderr": err[-1500:]}


def reproduces(aid, nat):
    """does the native run show the violation the engine reported?"""
    if nat.get("assume_fail") or nat.get("desync"):
        return False
    if aid in ("memory", "div0", "unreachable", "recursion", "huge-allocation", "exception"):
        if nat["timeout"]:
            return False
        return bool(nat["sanitizer"]) or (nat["rc"] is not None and nat["rc"] < 0) or (nat["rc"] not in (0, 42) and not nat.get("ended"))
    if aid == "hang":
        return nat["timeout"]
    return any(f.split(":")[0] == aid for f in nat["fails"])


class Check:
    def __init__(self, pid, tier, seed):
        self.pid = pid
        self.tier = tier
        self.seed = seed
        self.spec = importlib.import_module("props." + pid.lower())
        self.t0 = time.time()
        self.native = {}
        self.lines = []

    def modules(self):
        """name -> dict(harness=[abs paths], entries=set)"""
        spec = self.spec
        prep = getattr(spec, "prepare", None)
        if prep and not getattr(self, "_prepared", False):
            prep()
            self._prepared = True
        mods = getattr(spec, "MODULES", None)
        if not mods:
            mods = {getattr(spec, "MODULE", self.pid.lower()): dict(harness=spec.HARNESS, entries=getattr(spec, "ENTRIES", ()))}
        out = {}
        for name, d in mods.items():
            out[name] = dict(harness=[h if os.path.isabs(h) else os.path.join(VERIF, "harness", h) for h in d["harness"]],
                             entries=set(d.get("entries", ())), ref_repo=d.get("ref_repo", getattr(spec, "REF_REPO", None)))
        return out

    def mod_of(self, job):
        mods = self.modules()
        return job.get("mod") or next(iter(mods))

    def ref_repo(self):
        return getattr(self.spec, "REF_REPO", None)

    def twin(self, kind, mod=None):
        mods = self.modules()
        mod = mod or next(iter(mods))
        key = (kind, mod)
        if key not in self.native:
            self.native[key] = build.build_native(mod, mods[mod]["harness"], defines=getattr(self.spec, "DEFINES", ()),
                                                  ref_repo=mods[mod]["ref_repo"], kind=kind)
        return self.native[key]

    def signature(self, job, v):
        f = getattr(self.spec, "signature", None)
        if f:
            return f(job, v)
        return "%s:%s" % (job["entry"], v["aid"])

    def main(self):
        spec = self.spec
        jobs = spec.jobs(self.tier, self.seed)
        mods = self.modules()
        for j in jobs:
            mods[self.mod_of(j)]["entries"].add(j["entry"])
        keep = list(getattr(spec, "KEEP", ()))
        # start the fast native build in the background (validator); the ASan build only on demand
        bg = {}

        def bgbuild():
            try:
                for mname in mods:
                    if any(self.mod_of(j) == mname for j in jobs):
                        bg.setdefault("twins", {})[mname] = self.twin("fast", mname)
            except Exception as ex:  # noqa
                bg["err"] = str(ex)
        th = None
        if getattr(spec, "VALIDATE", True):
            th = threading.Thread(target=bgbuild)
            th.start()
        self.module = {}
        for mname, d in mods.items():
            if any(self.mod_of(j) == mname for j in jobs):
                self.module[mname] = build.build_module(mname, d["harness"], sorted(d["entries"]), defines=getattr(spec, "DEFINES", ()),
                                                        ref_repo=d["ref_repo"], keep=keep)
        t_build = time.time() - self.t0
        for j in jobs:
            j["module"] = self.module[self.mod_of(j)]
            j.setdefault("seed", self.seed)
        results = runner.run_jobs(jobs, cache=not os.environ.get("VERIF_NOCACHE"))
        if th:
            th.join()
        return self.finish(jobs, results, bg, t_build)

    # ------------------------------------------------------------------
    def finish(self, jobs, results, bg, t_build):
        spec = self.spec
        pid = self.pid
        known = [k for k in load_known() if k["property"] == pid]
        agg = dict(paths=0, ok_paths=0, instr=0, queries=0, qtime=0.0, forks=0, proved=0, asserts=0, bound_cuts=0,
                   input_cuts=0, unexplored=0)
        ends, gaps, throws, reach, fns = {}, {}, {}, {}, {}
        errors = []
        aidfilter = getattr(spec, "owns_violation", None)
        samples = []
        viols = []       # (sig, job, v)
        exhaustive = True
        jobs_unfinished = []
        for r in results:
            if not r.get("ok"):
                errors.append({"job": r["job"], "error": r.get("error"), "trace": r.get("trace", "")[-600:]})
                exhaustive = False
                continue
            s = r["stats"]
            agg["paths"] += s.get("paths", 0)
            agg["ok_paths"] += r["ends"].get("ok", 0)
            for k in ("instr", "queries", "qtime", "forks", "proved", "asserts", "bound_cuts", "input_cuts", "unexplored"):
                agg[k] += s.get(k, 0)
            if s.get("unexplored"):
                exhaustive = False
                jobs_unfinished.append({"entry": r["job"]["entry"], "args": r["job"].get("args"), "unexplored_states": s["unexplored"]})
            for d, src in ((ends, r["ends"]), (gaps, r["gaps"]), (throws, r["throws"]), (reach, r["reach"])):
                for k, v in src.items():
                    d[k] = d.get(k, 0) + v
            for k, v in r["functions"]:
                fns[k] = fns.get(k, 0) + v
            for sm in r["samples"]:
                samples.append((r["job"], sm))
            if r.get("cached"):
                agg["reused"] = agg.get("reused", 0) + 1
            for v in r["violations"]:
                if aidfilter and not aidfilter(v):
                    continue
                viols.append((self.signature(r["job"], v), r["job"], v))
        if ends.get("engine-gap") or ends.get("unknown") or ends.get("budget"):
            exhaustive = False
        # ---- violations
        os.makedirs(os.path.join(REPLAYS, pid), exist_ok=True)
        by_sig = {}
        for sig, job, v in viols:
            by_sig.setdefault(sig, []).append((job, v))
        out_lines = []
        n_viol = 0
        known_hit = []
        unreproduced = []
        confirmed = []
        ignore = getattr(spec, "ignore_violation", None)
        for sig, lst in sorted(by_sig.items()):
            job, v = lst[0]
            if ignore and ignore(job, v):
                continue
            kf = next((k for k in known if k["status"] == "known" and re.fullmatch(k["signature"], sig)), None)
            if kf:
                known_hit.append(sig)
                out_lines.append("KNOWN-FINDING: property=%s %s (%s)" % (pid, kf["note"], sig))
                continue
            rp = v.get("replay")
            safe = re.sub(r"[^A-Za-z0-9_.-]+", "_", sig)[:120]
            path = os.path.join(REPLAYS, pid, safe + ".txt")
            ok = False
            nat = None
            if rp is not None:
                rp = dict(rp)
                rp["meta"] = {"property": pid, "signature": sig, "msg": v["msg"], "stack": v["stack"][:6], "mod": self.mod_of(job)}
                write_replay(path, rp)
                if v["aid"] in getattr(spec, "ENGINE_ONLY_AIDS", ()):
                    ok = self.engine_replay(job, rp, v["aid"])
                    nat = {"engine_replay": ok}
                else:
                    try:
                        nat = run_native(self.twin("asan", self.mod_of(job)), path, timeout=getattr(spec, "NATIVE_TIMEOUT", 120))
                        ok = reproduces(v["aid"], nat)
                        if not ok and getattr(spec, "ENGINE_REPLAY_FALLBACK", False):
                            ok = False
                    except Exception as ex:
                        nat = {"error": str(ex)[-800:]}
            if ok:
                n_viol += 1
                confirmed.append({"signature": sig, "msg": v["msg"], "replay": path, "native": _short(nat), "count": len(lst)})
                out_lines.append("VIOLATION property=%s replay=%s" % (pid, path))
                out_lines.append("  what: %s | %s" % (v["msg"], sig))
            else:
                up = os.path.join(REPLAYS, pid, "unreproduced")
                os.makedirs(up, exist_ok=True)
                if os.path.exists(path):
                    os.replace(path, os.path.join(up, os.path.basename(path)))
                unreproduced.append({"signature": sig, "msg": v["msg"], "stack": v["stack"][:5], "native": _short(nat)})
                out_lines.append("UNREPRODUCED (not counted): %s | %s" % (sig, v["msg"]))
        for k in known:
            if k["status"] == "known" and not any(re.fullmatch(k["signature"], s) for s in known_hit):
                out_lines.append("note: listed finding not observed in this run: %s" % k["signature"])
        # ---- validate sampled paths natively
        validated = 0
        val_mismatch = []
        val_skipped = 0
        nval = getattr(spec, "VALIDATE_N", {"quick": 5, "thorough": 25})[self.tier]
        if getattr(spec, "VALIDATE", True) and bg.get("twins") and samples:
            step = max(1, len(samples) // nval)
            vdir = os.path.join(VERIF, "build", "val", pid)
            os.makedirs(vdir, exist_ok=True)
            for i, (job, sm) in enumerate(samples[::step][:nval]):
                p = os.path.join(vdir, "s%d.txt" % i)
                write_replay(p, sm)
                tw = bg["twins"].get(self.mod_of(job))
                if not tw:
                    continue
                nat = run_native(tw, p, timeout=60)
                good = (nat["rc"] == 0 and nat["reach"] == sm.get("reached", []) and
                        (sm.get("out_sha") is None or not getattr(spec, "VALIDATE_OUT_SHA", True) or job.get("stubs") or nat["out_sha"] == sm["out_sha"]))
                if good:
                    validated += 1
                elif nat.get("assume_fail"):
                    # the native twin restricts inputs further than the engine (e.g. C20: well-conditioned floats
                    # only, the engine proves the law for all reals): the sample is not comparable
                    val_skipped += 1
                else:
                    val_mismatch.append({"entry": job["entry"], "args": job.get("args"), "engine_reach": sm.get("reached"),
                                         "native": _short(nat), "engine_out_sha": sm.get("out_sha")})
        if val_mismatch:
            out_lines.append("ENGINE-MISMATCH: %d sampled paths behave differently in the native build (see evidence)" % len(val_mismatch))
        # ---- evidence
        sample_out = []
        for job, sm in samples[:4]:
            sample_out.append({"entry": job["entry"], "args": job.get("args"), "values": sm["values"][:24],
                               "input_hex": sm.get("input", "")[:128], "reached": sm.get("reached")})
        if not sample_out:
            sample_out = [{"entry": j["entry"], "args": j.get("args")} for j in jobs[:3]]
        wall = time.time() - self.t0
        cov = {
            "states": max(agg["ok_paths"], 0), "transitions": agg["forks"] + agg["queries"],
            "traces_validated_against_impl": validated, "samples": sample_out,
            "exhaustive": bool(exhaustive and not errors),
            "paths_total": agg["paths"], "path_ends": ends, "assertions_checked": agg["asserts"],
            "assertion_queries_proved_unsat": agg["proved"], "solver_queries": agg["queries"],
            "solver_time_s": round(agg["qtime"], 2), "ir_instructions_executed": agg["instr"],
            "bound_cuts": agg["bound_cuts"], "input_length_cuts": agg["input_cuts"],
            "unexplored_states": agg["unexplored"], "jobs": len(jobs), "jobs_failed_in_engine": len(errors),
            "jobs_unfinished": jobs_unfinished[:40], "engine_gaps": gaps, "exceptions_thrown": throws,
            "reach_tags": reach, "functions_encoded_count": len(fns),
            "functions_encoded_top": [k for k, _ in sorted(fns.items(), key=lambda kv: -kv[1])[:60]],
            "bounds": getattr(spec, "BOUNDS", {}).get(self.tier, getattr(spec, "BOUNDS", {})),
            "known_findings_hit": known_hit, "violations_confirmed": confirmed, "unreproduced_counterexamples": unreproduced[:20],
            "validation_mismatches": val_mismatch[:10], "validation_samples_outside_native_assumptions": val_skipped, "build_s": round(t_build, 1),
            "engine_errors": errors[:10],
            "solver": "z3 %s (incremental, python API)" % _z3ver(),
            "job_results_reused_from_cache": agg.get("reused", 0),
        }
        extra = getattr(spec, "extra_coverage", None)
        if extra:
            cov.update(extra(self, jobs, results))
        level = spec.LEVEL
        if level == "translation_validation":
            cov["programs"] = getattr(spec, "programs", lambda c: 2)(cov)
            cov["disagreements_checked"] = agg["asserts"]
        if level == "other":
            cov["explanation"] = spec.EXPLANATION
        ngap = ends.get("engine-gap", 0) + ends.get("unknown", 0)
        if ngap and ngap * 10 > max(agg["paths"], 1):
            top = sorted(gaps.items(), key=lambda kv: -kv[1])[:2]
            out_lines.append("INCONCLUSIVE: %d of %d paths could not be executed/decided by the engine (%s); nothing is claimed for them"
                             % (ngap, agg["paths"], "; ".join("%s x%d" % (k[:80], v) for k, v in top) or "solver answered unknown / timed out x%d" % ends.get("unknown", 0)))
        if agg["ok_paths"] == 0:
            # vacuity guard: nothing reached the end of any harness -> the run proves nothing
            out_lines.append("BROKEN: no path completed (vacuous run)")
        ev = {"property_id": pid, "tier": self.tier, "seed": self.seed, "level": level, "coverage": cov,
              "assumptions": list(getattr(spec, "ASSUMPTIONS", [])) + COMMON_ASSUMPTIONS, "wall_s": round(wall, 1),
              "violations": n_viol}
        os.makedirs(EVID, exist_ok=True)
        with open(os.path.join(EVID, pid + ".json"), "w") as f:
            json.dump(ev, f, indent=1, default=str)
        for l in out_lines:
            print(l)
        print("%s %s: %d paths (%d completed), %d assertions checked, %d jobs (%d engine errors), exhaustive=%s, validated=%d, %.0fs"
              % (pid, self.tier, agg["paths"], agg["ok_paths"], agg["asserts"], len(jobs), len(errors), cov["exhaustive"], validated, wall))
        if agg["ok_paths"] == 0:
            return 2
        return 1 if n_viol else 0

    def engine_replay(self, job, rp, aid):
        """re-execute the harness in the engine with every symbolic input fixed to the model"""
        j = dict(job)
        j["module"] = self.module[self.mod_of(job)]
        j["engine_opts"] = dict(job.get("engine_opts", {}), replay={"values": rp["values"], "input": rp.get("input", ""), "trunc": rp.get("trunc")})
        j["budget"] = 300
        r = runner.run_job(j)
        return r.get("ok") and any(v["aid"] == aid for v in r.get("violations", []))


def _short(nat):
    if not nat:
        return nat
    d = dict(nat)
    d.pop("stderr", None)
    if "fails" in d:
        d["fails"] = d["fails"][:5]
    return d


def _z3ver():
    import z3
    return z3.get_version_string()


COMMON_ASSUMPTIONS = [
    "code checked = LLVM-14 bitcode of /repo's current sources (clang++-14 -O1 -ffp-contract=off, no vectoriser), -DOUSNIUS_NIFLY_VERIF",
    "environment models (trusted): operator new never fails; libstdc++ std::string non-inline members, _Rb_tree insert/increment/decrement (no rebalancing), hashtable rehash policy, __dynamic_cast over the emitted RTTI, istream::read/getline and ostream::write/tellp/seekp on an in-memory buffer, libm via the host libm",
    "uninitialised memory reads as zero; values of C++ bool are 0/1; allocation failure, file-system I/O and threads are outside the claim",
    "nothing is claimed outside the bounds listed under coverage.bounds; paths cut by a bound are counted in bound_cuts/input_length_cuts/unexplored_states",
]


def cmd_replay(path):
    meta = None
    for line in open(path):
        if line.startswith("# "):
            meta = json.loads(line[2:])
    if not meta:
        print("replay file carries no meta line")
        return 2
    c = Check(meta["property"], "quick", 0)
    nat = run_native(c.twin("asan", meta.get("mod")), path)
    print(json.dumps(_short(nat), indent=1))
    print("stderr tail:", nat.get("stderr", "")[-800:])
    aid = meta["signature"].split(":")[-1]
    return 1 if (nat["fails"] or nat["sanitizer"] or nat["timeout"] or (nat["rc"] not in (0,))) else 0


def main():
    if len(sys.argv) >= 3 and sys.argv[1] == "replay":
        sys.exit(cmd_replay(sys.argv[2]))
    ap = argparse.ArgumentParser()
    ap.add_argument("pid")
    ap.add_argument("--tier", default=os.environ.get("VERIF_TIER", "quick"))
    a = ap.parse_args()
    seed = int(os.environ.get("VERIF_SEED", "0") or 0)
    c = Check(a.pid.upper(), a.tier, seed)
    sys.exit(c.main())


if __name__ == "__main__":
    main()
