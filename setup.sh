#!/bin/bash
# Offline setup: verifies the tool-chain nifsym needs and creates cache dirs. Builds nothing from the network.
set -e
cd "$(dirname "$0")"
mkdir -p build evidence replays
for t in clang++-14 llvm-link-14 opt-14 python3-vt g++; do command -v $t >/dev/null || { echo "missing tool $t"; exit 1; }; done
test -f /usr/lib/llvm-14/lib/libLLVM-14.so || { echo "missing libLLVM-14.so"; exit 1; }
python3-vt - <<'PY'
import z3, sys
print("z3", z3.get_version_string())
PY
echo setup ok
