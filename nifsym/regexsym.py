"""Forking symbolic regex matcher for the ECMAScript subset used by nifly (models std::regex of libstdc++).

libstdc++'s regex compiler/executor cannot be executed by the engine (locale facets), so regex_search /
regex_match / regex_replace are intercepted and run here.  Semantics follow libstdc++'s ECMAScript DFS
executor: leftmost match, priority-ordered backtracking (greedy unless '?'-suffixed), '.' excludes \\n and \\r,
icase folds ASCII letters in the C locale, '^' matches only at the very beginning of the subject (not after a
previous match: regex_iterator sets match_prev_avail).  Characters may be concrete ints or z3 8-bit terms; every
character test goes through ctx.decide(), which forks the engine state when both outcomes are feasible.
The model is differentially tested against the real libstdc++ on seeded strings by the C19 check.
"""
import z3


class RegexError(Exception):
    pass


def parse(p):
    """pattern (str, latin-1) -> AST"""
    pos = 0
    ngroups = [0]

    def alt():
        nonlocal pos
        branches = [seq()]
        while pos < len(p) and p[pos] == "|":
            pos += 1
            branches.append(seq())
        return ("alt", branches) if len(branches) > 1 else branches[0]

    def seq():
        nonlocal pos
        items = []
        while pos < len(p) and p[pos] not in "|)":
            a = atom()
            if pos < len(p) and p[pos] in "+*?":
                q = p[pos]
                pos += 1
                lazy = False
                if pos < len(p) and p[pos] == "?":
                    lazy = True
                    pos += 1
                a = ("rep", a, {"+": 1, "*": 0, "?": 0}[q], 1 if q == "?" else None, lazy)
            elif pos < len(p) and p[pos] == "{":
                raise RegexError("counted repetition not supported")
            items.append(a)
        return ("seq", items)

    def cls():
        nonlocal pos
        pos += 1  # [
        neg = False
        if p[pos] == "^":
            neg = True
            pos += 1
        ranges = []
        while p[pos] != "]":
            c = p[pos]
            if c == "\\":
                pos += 1
                c = p[pos]
            lo = ord(c)
            pos += 1
            if p[pos] == "-" and p[pos + 1] != "]":
                pos += 1
                c2 = p[pos]
                if c2 == "\\":
                    pos += 1
                    c2 = p[pos]
                ranges.append((lo, ord(c2)))
                pos += 1
            else:
                ranges.append((lo, lo))
        pos += 1
        return ("set", ranges, neg)

    def atom():
        nonlocal pos
        c = p[pos]
        if c == "(":
            if p.startswith("(?!", pos):
                pos += 3
                a = alt()
                pos += 1
                return ("nla", a)
            if p.startswith("(?=", pos):
                pos += 3
                a = alt()
                pos += 1
                return ("pla", a)
            if p.startswith("(?:", pos):
                pos += 3
                a = alt()
                pos += 1
                return a
            pos += 1
            ngroups[0] += 1
            g = ngroups[0]
            a = alt()
            pos += 1
            return ("grp", g, a)
        if c == "[":
            return cls()
        if c == "^":
            pos += 1
            return ("bol",)
        if c == "$":
            pos += 1
            return ("eol",)
        if c == ".":
            pos += 1
            return ("any",)
        if c == "\\":
            pos += 2
            e = p[pos - 1]
            if e == "d":
                return ("set", [(48, 57)], False)
            if e == "s":
                return ("set", [(9, 13), (32, 32)], False)
            if e == "w":
                return ("set", [(48, 57), (65, 90), (97, 122), (95, 95)], False)
            if e.isalnum():
                raise RegexError("escape \\%s not supported" % e)
            return ("chr", ord(e))
        if c in "+*?{":
            raise RegexError("dangling quantifier")
        pos += 1
        return ("chr", ord(c))

    ast = alt()
    if pos != len(p):
        raise RegexError("unbalanced pattern")
    return ast, ngroups[0]


def _lower(c):
    if isinstance(c, int):
        return c + 32 if 65 <= c <= 90 else c
    return z3.If(z3.And(z3.UGE(c, 65), z3.ULE(c, 90)), c + 32, c)


def _eq(c, v):
    return (c == v) if not isinstance(c, int) else (c == v)


class Matcher:
    def __init__(self, ast, ngroups, icase, decide):
        self.ast = ast
        self.ngroups = ngroups
        self.icase = icase
        self.decide = decide

    def _chr(self, c, want):
        if self.icase and (65 <= want <= 90 or 97 <= want <= 122):
            lc = _lower(c)
            w = want | 32
            return self.decide(lc == w) if not isinstance(lc, int) else lc == w
        return self.decide(c == want) if not isinstance(c, int) else c == want

    def _set(self, c, ranges, neg):
        if isinstance(c, int):
            cands = [c] + ([c ^ 32] if self.icase and (65 <= (c | 32) - 32 <= 90) else [])
            r = any(lo <= x <= hi for x in cands for lo, hi in ranges)
            return r != neg
        conds = []
        for lo, hi in ranges:
            conds.append(c == lo if lo == hi else z3.And(z3.UGE(c, lo), z3.ULE(c, hi)))
            if self.icase:
                lc = _lower(c)
                conds.append(z3.And(z3.UGE(lc, _lo(lo)), z3.ULE(lc, _lo(hi))) if _isalpha_range(lo, hi) else z3.BoolVal(False))
        cond = z3.Or(*conds)
        r = self.decide(cond)
        return r != neg

    def match(self, node, s, i, caps, k):
        """backtracking matcher with continuation k(i, caps) -> result or None"""
        t = node[0]
        if t == "seq":
            items = node[1]

            def go(j, i, caps):
                if j == len(items):
                    return k(i, caps)
                return self.match(items[j], s, i, caps, lambda i2, c2: go(j + 1, i2, c2))
            return go(0, i, caps)
        if t == "alt":
            for b in node[1]:
                r = self.match(b, s, i, caps, k)
                if r is not None:
                    return r
            return None
        if t == "grp":
            g = node[1]

            def after(i2, c2):
                c3 = dict(c2)
                c3[g] = (i, i2)
                return k(i2, c3)
            return self.match(node[2], s, i, caps, after)
        if t == "chr":
            if i >= len(s):
                return None
            return k(i + 1, caps) if self._chr(s[i], node[1]) else None
        if t == "set":
            if i >= len(s):
                return None
            return k(i + 1, caps) if self._set(s[i], node[1], node[2]) else None
        if t == "any":
            if i >= len(s):
                return None
            c = s[i]
            ok = (c not in (10, 13)) if isinstance(c, int) else self.decide(z3.And(c != 10, c != 13))
            return k(i + 1, caps) if ok else None
        if t == "bol":
            return k(i, caps) if i == 0 else None
        if t == "eol":
            return k(i, caps) if i == len(s) else None
        if t == "nla":
            r = self.match(node[1], s, i, caps, lambda i2, c2: (i2, c2))
            return k(i, caps) if r is None else None
        if t == "pla":
            r = self.match(node[1], s, i, caps, lambda i2, c2: (i2, c2))
            return k(i, caps) if r is not None else None
        if t == "rep":
            _, a, lo, hi, lazy = node

            def rep(cnt, i, caps):
                def more():
                    if hi is not None and cnt >= hi:
                        return None
                    return self.match(a, s, i, caps, lambda i2, c2: rep(cnt + 1, i2, c2) if i2 > i else None)
                if cnt < lo:
                    return more()
                if lazy:
                    r = k(i, caps)
                    if r is not None:
                        return r
                    return more()
                r = more()
                if r is not None:
                    return r
                return k(i, caps)
            return rep(0, i, caps)
        raise RegexError("node " + t)

    def match_at(self, s, b, full=False):
        def fin(i, caps):
            if full and i != len(s):
                return None
            return (i, caps)
        return self.match(self.ast, s, b, {}, fin)

    def search(self, s, start=0):
        for b in range(start, len(s) + 1):
            r = self.match_at(s, b)
            if r is not None:
                return b, r[0], r[1]
        return None

    def replace_all(self, s, rep):
        """std::regex_replace with format_default and a replacement without $-references"""
        out = []
        i = 0
        while i <= len(s):
            m = self.search(s, i)
            if m is None:
                break
            b, e, _ = m
            out += s[i:b] + rep
            if e == b:
                if b < len(s):
                    out.append(s[b])
                i = b + 1
            else:
                i = e
        else:
            return out
        out += s[i:]
        return out


def _lo(x):
    return x + 32 if 65 <= x <= 90 else x


def _isalpha_range(lo, hi):
    return (65 <= lo <= 90 and 65 <= hi <= 90) or (97 <= lo <= 122 and 97 <= hi <= 122)
