"""Minimal ctypes binding of the LLVM-C API (libLLVM-14) - spike."""
import ctypes as C

L = C.CDLL("/usr/lib/llvm-14/lib/libLLVM-14.so")
P = C.c_void_p


def fn(name, res, *args):
    f = getattr(L, name)
    f.restype = res
    f.argtypes = list(args)
    return f


ContextCreate = fn("LLVMContextCreate", P)
CreateMemoryBufferWithContentsOfFile = fn("LLVMCreateMemoryBufferWithContentsOfFile", C.c_int, C.c_char_p, C.POINTER(P), C.POINTER(C.c_char_p))
ParseBitcodeInContext2 = fn("LLVMParseBitcodeInContext2", C.c_int, P, P, C.POINTER(P))
GetModuleDataLayout = fn("LLVMGetModuleDataLayout", P, P)
GetFirstFunction = fn("LLVMGetFirstFunction", P, P)
GetNextFunction = fn("LLVMGetNextFunction", P, P)
GetNamedFunction = fn("LLVMGetNamedFunction", P, P, C.c_char_p)
GetFirstGlobal = fn("LLVMGetFirstGlobal", P, P)
GetNextGlobal = fn("LLVMGetNextGlobal", P, P)
GetInitializer = fn("LLVMGetInitializer", P, P)
IsDeclaration = fn("LLVMIsDeclaration", C.c_int, P)
_GetValueName2 = fn("LLVMGetValueName2", C.c_void_p, P, C.POINTER(C.c_size_t))
CountParams = fn("LLVMCountParams", C.c_uint, P)
GetParam = fn("LLVMGetParam", P, P, C.c_uint)
GetFirstBasicBlock = fn("LLVMGetFirstBasicBlock", P, P)
GetNextBasicBlock = fn("LLVMGetNextBasicBlock", P, P)
GetFirstInstruction = fn("LLVMGetFirstInstruction", P, P)
GetNextInstruction = fn("LLVMGetNextInstruction", P, P)
GetInstructionOpcode = fn("LLVMGetInstructionOpcode", C.c_int, P)
GetNumOperands = fn("LLVMGetNumOperands", C.c_int, P)
GetOperand = fn("LLVMGetOperand", P, P, C.c_uint)
TypeOf = fn("LLVMTypeOf", P, P)
GetTypeKind = fn("LLVMGetTypeKind", C.c_int, P)
GetIntTypeWidth = fn("LLVMGetIntTypeWidth", C.c_uint, P)
GetElementType = fn("LLVMGetElementType", P, P)
GetArrayLength = fn("LLVMGetArrayLength", C.c_uint, P)
GetVectorSize = fn("LLVMGetVectorSize", C.c_uint, P)
CountStructElementTypes = fn("LLVMCountStructElementTypes", C.c_uint, P)
StructGetTypeAtIndex = fn("LLVMStructGetTypeAtIndex", P, P, C.c_uint)
OffsetOfElement = fn("LLVMOffsetOfElement", C.c_ulonglong, P, P, C.c_uint)
ABISizeOfType = fn("LLVMABISizeOfType", C.c_ulonglong, P, P)
StoreSizeOfType = fn("LLVMStoreSizeOfType", C.c_ulonglong, P, P)
GetValueKind = fn("LLVMGetValueKind", C.c_int, P)
ConstIntGetZExtValue = fn("LLVMConstIntGetZExtValue", C.c_ulonglong, P)
ConstRealGetDouble = fn("LLVMConstRealGetDouble", C.c_double, P, C.POINTER(C.c_int))
GetConstOpcode = fn("LLVMGetConstOpcode", C.c_int, P)
GetICmpPredicate = fn("LLVMGetICmpPredicate", C.c_int, P)
GetFCmpPredicate = fn("LLVMGetFCmpPredicate", C.c_int, P)
GetAllocatedType = fn("LLVMGetAllocatedType", P, P)
GetGEPSourceElementType = fn("LLVMGetGEPSourceElementType", P, P)
GetNumIndices = fn("LLVMGetNumIndices", C.c_uint, P)
GetIndices = fn("LLVMGetIndices", C.POINTER(C.c_uint), P)
GetCalledValue = fn("LLVMGetCalledValue", P, P)
GetNumArgOperands = fn("LLVMGetNumArgOperands", C.c_uint, P)
GetNormalDest = fn("LLVMGetNormalDest", P, P)
GetUnwindDest = fn("LLVMGetUnwindDest", P, P)
CountIncoming = fn("LLVMCountIncoming", C.c_uint, P)
GetIncomingValue = fn("LLVMGetIncomingValue", P, P, C.c_uint)
GetIncomingBlock = fn("LLVMGetIncomingBlock", P, P, C.c_uint)
BasicBlockAsValue = fn("LLVMBasicBlockAsValue", P, P)
ValueAsBasicBlock = fn("LLVMValueAsBasicBlock", P, P)
GetNumSuccessors = fn("LLVMGetNumSuccessors", C.c_uint, P)
GetSuccessor = fn("LLVMGetSuccessor", P, P, C.c_uint)
IsConditional = fn("LLVMIsConditional", C.c_int, P)
GetCondition = fn("LLVMGetCondition", P, P)
GetSwitchDefaultDest = fn("LLVMGetSwitchDefaultDest", P, P)
_PrintValueToString = fn("LLVMPrintValueToString", C.c_void_p, P)
_PrintTypeToString = fn("LLVMPrintTypeToString", C.c_void_p, P)
DisposeMessage = fn("LLVMDisposeMessage", None, C.c_void_p)
_GetAsString = fn("LLVMGetAsString", C.c_void_p, P, C.POINTER(C.c_size_t))
IsConstantString = fn("LLVMIsConstantString", C.c_int, P)
GetElementAsConstant = fn("LLVMGetElementAsConstant", P, P, C.c_uint)
GetAtomicRMWBinOp = fn("LLVMGetAtomicRMWBinOp", C.c_int, P)
GetNumMaskElements = fn("LLVMGetNumMaskElements", C.c_uint, P)
GetMaskValue = fn("LLVMGetMaskValue", C.c_int, P, C.c_uint)
IsNull = fn("LLVMIsNull", C.c_int, P)
IsUndef = fn("LLVMIsUndef", C.c_int, P)
GlobalGetValueType = fn("LLVMGlobalGetValueType", P, P)
GetReturnType = fn("LLVMGetReturnType", P, P)
AliasGetAliasee = fn("LLVMAliasGetAliasee", P, P)


def name(v):
    n = C.c_size_t()
    p = _GetValueName2(v, C.byref(n))
    return C.string_at(p, n.value).decode("latin1")


def vstr(v):
    p = _PrintValueToString(v)
    s = C.string_at(p).decode("latin1")
    DisposeMessage(p)
    return s


def tstr(t):
    p = _PrintTypeToString(t)
    s = C.string_at(p).decode("latin1")
    DisposeMessage(p)
    return s


def as_bytes(v):
    n = C.c_size_t()
    p = _GetAsString(v, C.byref(n))
    return C.string_at(p, n.value)


def load_module(path):
    ctx = ContextCreate()
    buf = P()
    msg = C.c_char_p()
    if CreateMemoryBufferWithContentsOfFile(path.encode(), C.byref(buf), C.byref(msg)):
        raise RuntimeError(msg.value)
    mod = P()
    if ParseBitcodeInContext2(ctx, buf, C.byref(mod)):
        raise RuntimeError("parse failed")
    return ctx, mod


# enums
OPC = {1: 'ret', 2: 'br', 3: 'switch', 4: 'indirectbr', 5: 'invoke', 7: 'unreachable', 67: 'callbr',
       66: 'fneg', 8: 'add', 9: 'fadd', 10: 'sub', 11: 'fsub', 12: 'mul', 13: 'fmul', 14: 'udiv', 15: 'sdiv',
       16: 'fdiv', 17: 'urem', 18: 'srem', 19: 'frem', 20: 'shl', 21: 'lshr', 22: 'ashr', 23: 'and', 24: 'or',
       25: 'xor', 26: 'alloca', 27: 'load', 28: 'store', 29: 'getelementptr', 30: 'trunc', 31: 'zext',
       32: 'sext', 33: 'fptoui', 34: 'fptosi', 35: 'uitofp', 36: 'sitofp', 37: 'fptrunc', 38: 'fpext',
       39: 'ptrtoint', 40: 'inttoptr', 41: 'bitcast', 60: 'addrspacecast', 42: 'icmp', 43: 'fcmp', 44: 'phi',
       45: 'call', 46: 'select', 47: 'userop1', 48: 'userop2', 49: 'va_arg', 50: 'extractelement',
       51: 'insertelement', 52: 'shufflevector', 53: 'extractvalue', 54: 'insertvalue', 68: 'freeze',
       55: 'fence', 56: 'atomiccmpxchg', 57: 'atomicrmw', 58: 'resume', 59: 'landingpad', 61: 'cleanupret',
       62: 'catchret', 63: 'catchpad', 64: 'cleanuppad', 65: 'catchswitch'}
TK = {0: 'void', 1: 'half', 2: 'float', 3: 'double', 4: 'x86_fp80', 5: 'fp128', 6: 'ppc_fp128', 7: 'label',
      8: 'int', 9: 'function', 10: 'struct', 11: 'array', 12: 'pointer', 13: 'vector', 14: 'metadata',
      15: 'x86_mmx', 16: 'token', 17: 'scalable_vector', 18: 'bfloat'}
VK = {0: 'argument', 1: 'basic_block', 2: 'memory_use', 3: 'memory_def', 4: 'memory_phi', 5: 'function',
      6: 'global_alias', 7: 'global_ifunc', 8: 'global_variable', 9: 'block_address', 10: 'constant_expr',
      11: 'constant_array', 12: 'constant_struct', 13: 'constant_vector', 14: 'undef', 15: 'const_aggregate_zero',
      16: 'const_data_array', 17: 'const_data_vector', 18: 'const_int', 19: 'const_fp', 20: 'const_pointer_null',
      21: 'const_token_none', 22: 'metadata_as_value', 23: 'inline_asm', 24: 'instruction', 25: 'poison'}
ICMP = {32: 'eq', 33: 'ne', 34: 'ugt', 35: 'uge', 36: 'ult', 37: 'ule', 38: 'sgt', 39: 'sge', 40: 'slt', 41: 'sle'}
FCMP = {0: 'false', 1: 'oeq', 2: 'ogt', 3: 'oge', 4: 'olt', 5: 'ole', 6: 'one', 7: 'ord', 8: 'uno', 9: 'ueq',
        10: 'ugt', 11: 'uge', 12: 'ult', 13: 'ule', 14: 'une', 15: 'true'}
