"""Build pipeline: /repo's current working tree -> LLVM bitcode (+ harness) -> one internalised module.
Also builds the native twin (same harness, -DSYM_NATIVE, ASan+UBSan) used for replay and engine validation.
Everything is cached under /verif/build keyed by content hashes, so an edited source file is rebuilt."""
import os, sys, hashlib, subprocess, glob, fcntl, time, shutil
from concurrent.futures import ThreadPoolExecutor

REPO = os.environ.get("NIFLY_REPO", "/repo")
VERIF = os.path.dirname(os.path.dirname(os.path.abspath(__file__)))
BUILD = os.path.join(VERIF, "build")
HARNESS = os.path.join(VERIF, "harness")
GUARD = "OUSNIUS_NIFLY_VERIF"

BC_FLAGS = ["-std=c++17", "-O1", "-ffp-contract=off", "-fno-vectorize", "-fno-slp-vectorize", "-fno-unroll-loops",
            "-D" + GUARD, "-Wno-pragma-once-outside-header", "-w"]
NATIVE_FLAGS = ["-std=c++17", "-O1", "-gline-tables-only", "-ffp-contract=off", "-fsanitize=address,undefined",
                "-fno-sanitize=vptr,function,float-cast-overflow,float-divide-by-zero,alignment",
                "-fno-omit-frame-pointer", "-D" + GUARD, "-w"]
FAST_FLAGS = ["-std=c++17", "-O1", "-ffp-contract=off", "-D" + GUARD, "-w"]


def sha(*parts):
    h = hashlib.sha256()
    for p in parts:
        h.update(p if isinstance(p, bytes) else str(p).encode())
        h.update(b"\0")
    return h.hexdigest()[:20]


def file_hash(path):
    with open(path, "rb") as f:
        return hashlib.sha256(f.read()).hexdigest()


def headers_hash(repo=None, extra_dirs=()):
    repo = repo or REPO
    h = hashlib.sha256()
    for d in [os.path.join(repo, "include"), os.path.join(repo, "external")] + list(extra_dirs):
        for p in sorted(glob.glob(os.path.join(d, "**", "*"), recursive=True)):
            if os.path.isfile(p):
                h.update(p.encode())
                h.update(file_hash(p).encode())
    return h.hexdigest()[:20]


def sources(repo=None):
    repo = repo or REPO
    return sorted(glob.glob(os.path.join(repo, "src", "*.cpp")))


def tree_hash(repo=None):
    repo = repo or REPO
    return sha(headers_hash(repo), *[file_hash(s) for s in sources(repo)])


class Lock:
    def __init__(self, name):
        os.makedirs(BUILD, exist_ok=True)
        self.path = os.path.join(BUILD, name + ".lock")

    def __enter__(self):
        self.f = open(self.path, "w")
        fcntl.flock(self.f, fcntl.LOCK_EX)

    def __exit__(self, *a):
        fcntl.flock(self.f, fcntl.LOCK_UN)
        self.f.close()


def run(cmd, **kw):
    r = subprocess.run(cmd, stdout=subprocess.PIPE, stderr=subprocess.STDOUT, text=True, **kw)
    if r.returncode != 0:
        raise RuntimeError("command failed: %s\n%s" % (" ".join(cmd), r.stdout[-4000:]))
    return r.stdout


def _compile_many(jobs, nthreads=16):
    """jobs: list of (out, cmd).  Skips existing outputs."""
    todo = [(o, c) for o, c in jobs if not os.path.exists(o)]
    if not todo:
        return 0

    def one(job):
        out, cmd = job
        tmp = out + ".tmp%d" % os.getpid()
        run(cmd + ["-o", tmp])
        os.replace(tmp, out)
    with ThreadPoolExecutor(nthreads) as ex:
        list(ex.map(one, todo))
    return len(todo)


def repo_objects(kind, repo=None, namespace=None):
    """compile every /repo/src/*.cpp; kind in {bc, asan, fast}.  returns list of output paths"""
    repo = repo or REPO
    hh = headers_hash(repo)
    flags = {"bc": BC_FLAGS + ["-emit-llvm"], "asan": NATIVE_FLAGS, "fast": FAST_FLAGS}[kind]
    if namespace:
        flags = flags + ["-Dnifly=" + namespace]
    ext = {"bc": ".bc", "asan": ".o", "fast": ".o"}[kind]
    outdir = os.path.join(BUILD, "tu")
    os.makedirs(outdir, exist_ok=True)
    jobs = []
    outs = []
    for s in sources(repo):
        key = sha(kind, " ".join(flags), hh, file_hash(s), os.path.basename(s))
        out = os.path.join(outdir, "%s-%s-%s%s" % (os.path.basename(s)[:-4], kind + (namespace or ""), key, ext))
        outs.append(out)
        jobs.append((out, ["clang++-14"] + flags + ["-I" + os.path.join(repo, "include"), "-I" + os.path.join(repo, "external"), "-c", s]))
    with Lock("tu-" + kind + (namespace or "")):
        _compile_many(jobs)
    return outs


def harness_key(files, defines):
    hs = [file_hash(f) for f in files]
    for inc in sorted(glob.glob(os.path.join(HARNESS, "*.h"))):
        hs.append(file_hash(inc))
    return sha(*hs, " ".join(defines))


def build_module(name, harness_files, entries, defines=(), repo=None, ref_repo=None, keep=()):
    """returns path of the linked+internalised bitcode for the given harness files"""
    repo = repo or REPO
    t0 = time.time()
    tus = repo_objects("bc", repo)
    if ref_repo:
        tus = tus + repo_objects("bc", ref_repo, namespace="nifly_ref")
    hk = harness_key(harness_files, defines)
    key = sha(hk, headers_hash(repo), *[os.path.basename(t) for t in tus], " ".join(entries), " ".join(keep))
    outdir = os.path.join(BUILD, "mod")
    os.makedirs(outdir, exist_ok=True)
    out = os.path.join(outdir, "%s-%s.bc" % (name, key))
    with Lock("mod-" + name):
        if os.path.exists(out):
            return out
        hbcs = []
        jobs = []
        for hf in harness_files:
            refside = os.path.basename(hf).endswith("_ref.cpp")
            r = ref_repo if refside else repo
            flags = BC_FLAGS + ["-emit-llvm", "-fno-access-control", "-I" + HARNESS,
                                "-I" + os.path.join(r, "include"), "-I" + os.path.join(r, "external")]
            flags += ["-D" + d for d in defines]
            if refside:
                flags += ["-Dnifly=nifly_ref", "-DSIDE_REF"]
            hb = os.path.join(outdir, "h-%s-%s.bc" % (os.path.basename(hf)[:-4], sha(hk, file_hash(hf), " ".join(flags), headers_hash(r))))
            hbcs.append(hb)
            jobs.append((hb, ["clang++-14"] + flags + ["-c", hf]))
        _compile_many(jobs)
        linked = out + ".link.bc"
        run(["llvm-link-14"] + hbcs + tus + ["-o", linked])
        api = ",".join(list(entries) + list(keep))
        tmp = out + ".tmp"
        run(["opt-14", "-enable-new-pm=0", "-internalize", "-internalize-public-api-list=" + api, "-globaldce", linked, "-o", tmp])
        os.remove(linked)
        os.replace(tmp, out)
    return out


def build_native(name, harness_files, defines=(), repo=None, ref_repo=None, kind="asan"):
    """native twin: same harness compiled with -DSYM_NATIVE against a native build of /repo"""
    repo = repo or REPO
    objs = repo_objects(kind, repo)
    if ref_repo:
        objs = objs + repo_objects(kind, ref_repo, namespace="nifly_ref")
    flags = NATIVE_FLAGS if kind == "asan" else FAST_FLAGS
    hk = harness_key(harness_files + [os.path.join(HARNESS, "sym_native.cpp")], defines)
    key = sha(hk, kind, headers_hash(repo), *[os.path.basename(o) for o in objs])
    outdir = os.path.join(BUILD, "native")
    os.makedirs(outdir, exist_ok=True)
    out = os.path.join(outdir, "%s-%s" % (name, key))
    with Lock("native-" + name):
        if os.path.exists(out):
            return out
        jobs = []
        hobjs = []
        for hf in list(harness_files) + [os.path.join(HARNESS, "sym_native.cpp")]:
            refside = os.path.basename(hf).endswith("_ref.cpp")
            r = ref_repo if refside else repo
            fl = flags + ["-DSYM_NATIVE", "-fno-access-control", "-I" + HARNESS, "-I" + os.path.join(r, "include"),
                          "-I" + os.path.join(r, "external")] + ["-D" + d for d in defines]
            if refside:
                fl += ["-Dnifly=nifly_ref", "-DSIDE_REF"]
            ho = os.path.join(outdir, "h-%s-%s.o" % (os.path.basename(hf)[:-4], sha(hk, file_hash(hf), " ".join(fl), headers_hash(r))))
            hobjs.append(ho)
            jobs.append((ho, ["clang++-14"] + fl + ["-c", hf]))
        _compile_many(jobs)
        tmp = out + ".tmp"
        run(["clang++-14"] + (["-fsanitize=address,undefined"] if kind == "asan" else []) + ["-rdynamic"] + hobjs + objs + ["-ldl", "-o", tmp])
        os.replace(tmp, out)
    return out


def prune_cache(max_age_h=48):
    """remove cached artefacts older than max_age_h hours (called from setup)"""
    now = time.time()
    for d in ("tu", "mod", "native"):
        for p in glob.glob(os.path.join(BUILD, d, "*")):
            try:
                if now - os.path.getmtime(p) > max_age_h * 3600:
                    os.remove(p)
            except OSError:
                pass
