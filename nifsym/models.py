"""Environment models for the externals of the linked nifly module (libc / libstdc++ / harness API).
Every model here is part of the trusted base of every check and is listed in the evidence."""
import re, z3, struct, math, sys
from .engine import *
from . import llvmc as ll

def m_out_len(e, st, args, I):
    return len(st.out)
def m_in_pos(e, st, args, I):
    return st.inpos
def m_in_eof(e, st, args, I):
    return 1 if st.eof else 0
def m_in_from_out(e, st, args, I):
    st.inp = list(st.out[args[0]:args[1]]); st.inpos = 0
    st.eof = False
    st.inp_fixed = True
def cell_bv(c):
    if type(c) is int:
        return z3.BitVecVal(c, 8)
    if c[0] == "e":
        return z3.Extract(c[2]*8+7, c[2]*8, c[1])
    raise NotImplementedError("ptr in output")
def m_out_equal(e, st, args, I):
    a0, a1, b0, b1 = args
    if a1 - a0 != b1 - b0:
        return 0
    conj = []
    for x, y in zip(st.out[a0:a1], st.out[b0:b1]):
        if x is y or (type(x) is int and type(y) is int and x == y):
            continue
        if type(x) is tuple and type(y) is tuple and x[1] is y[1] and x[2] == y[2]:
            continue
        conj.append(cell_bv(x) == cell_bv(y))
    if not conj:
        return 1
    return z3.And(*conj)
def m_reach(e, st, args, I):
    e.stats["reach"] = e.stats.get("reach", 0) + 1

# ---- std::string (libstdc++ SSO layout) minimal
def str_fields(e, st, s):
    p = e.load(st, s, ("ptr",)); n = e.load(st, Ptr(s.obj, s.off + 8), ("int", 64))
    return p, n
def m_str_dtor(e, st, args, I):
    s = args[0]
    p, n = str_fields(e, st, s)
    if not (p.obj == s.obj and p.off == s.off + 16):
        m_delete(e, st, [p], I)
def m_str_create(e, st, args, I):
    s, capref, old = args
    cap = e.load(st, capref, ("int", 64))
    if is_sym(cap): raise NotImplementedError("sym string cap")
    if cap > old and cap < 2 * old:
        cap = 2 * old
        e.store(st, capref, cap, ("int", 64))
    return m_new(e, st, [cap + 1], I)

def dyn_cast(e, st, args, I):
    src, sti, dti, hint = args
    if src.obj == 0:
        return NULL
    vptr = e.load(st, src, ("ptr",))
    ott = e.load(st, Ptr(vptr.obj, vptr.off - 16), ("int", 64))
    ti = e.load(st, Ptr(vptr.obj, vptr.off - 8), ("ptr",))
    full = Ptr(src.obj, src.off + to_signed(ott, 64))
    def find(t, off):
        if t.obj == dti.obj:
            return off
        tv = e.load(st, t, ("ptr",))
        kind = e.get_obj_r(st, tv.obj).name
        if "__si_class" in kind:
            return find(e.load(st, Ptr(t.obj, t.off + 16), ("ptr",)), off)
        if "__vmi_class" in kind:
            cnt = e.load(st, Ptr(t.obj, t.off + 20), ("int", 32))
            for i in range(cnt):
                b = e.load(st, Ptr(t.obj, t.off + 24 + 16 * i), ("ptr",))
                fl = e.load(st, Ptr(t.obj, t.off + 32 + 16 * i), ("int", 64))
                r = find(b, off + (to_signed(fl, 64) >> 8))
                if r is not None: return r
        return None
    r = find(ti, 0)
    return NULL if r is None else Ptr(full.obj, full.off + r)

# symbolic fp compare
_orig_fop = Engine.fop
def fop2(self, st, op, I, vals):
    if self.real_mode and (any(is_real(v) for v in vals) or (op in ("uitofp", "sitofp") and is_sym(vals[0]))):
        return self.fop_real(st, op, I, vals)
    if op == "fcmp" and any(isinstance(v, tuple) or is_sym(v) for v in vals):
        t = I.a and None
        def tofp(v):
            if isinstance(v, tuple): 
                b = v[1]; return z3.fpBVToFP(b, z3.Float32() if b.size() == 32 else z3.Float64())
            return v
        x, y = vals
        srt = None
        for v in vals:
            if isinstance(v, tuple): srt = z3.Float32() if v[1].size() == 32 else z3.Float64()
        X = tofp(x) if isinstance(x, tuple) else z3.FPVal(x, srt)
        Y = tofp(y) if isinstance(y, tuple) else z3.FPVal(y, srt)
        p = I.x
        base = {"eq": z3.fpEQ, "gt": z3.fpGT, "ge": z3.fpGEQ, "lt": z3.fpLT, "le": z3.fpLEQ, "ne": lambda a, b: z3.Not(z3.fpEQ(a, b))}
        unord = z3.Or(z3.fpIsNaN(X), z3.fpIsNaN(Y))
        if p == "ord": return z3.Not(unord)
        if p == "uno": return unord
        if p[0] == "o": return z3.And(z3.Not(unord), base[p[1:]](X, Y))
        return z3.Or(unord, base[p[1:]](X, Y))
    if op in ("fadd", "fsub", "fmul", "fdiv", "fneg") and any(isinstance(v, tuple) or is_sym(v) for v in vals):
        srt = z3.Float32() if I.ty[0] == "float" else z3.Float64()
        def tofp(v):
            if isinstance(v, tuple):
                return z3.fpBVToFP(v[1], srt)
            if is_sym(v):
                return v
            return z3.FPVal(v, srt)
        X = tofp(vals[0])
        rm = z3.RNE()
        if op == "fneg":
            r = z3.fpNeg(X)
        else:
            Y = tofp(vals[1])
            r = {"fadd": z3.fpAdd, "fsub": z3.fpSub, "fmul": z3.fpMul, "fdiv": z3.fpDiv}[op](rm, X, Y)
        self.stats["symfp"] = self.stats.get("symfp", 0) + 1
        return ("fbits", z3.fpToIEEEBV(r))
    return _orig_fop(self, st, op, I, vals)
Engine.fop = fop2

def m_sym_f32(e, st, a, I):
    v = e.fresh(cstr(e, st, a[0]), 32, st)
    if is_sym(v):
        return ("fbits", v)
    return struct.unpack("<f", struct.pack("<I", v))[0]


M2 = {
 "sym_out_len": m_out_len, "sym_in_pos": m_in_pos, "sym_in_eof": m_in_eof, "sym_in_from_out": m_in_from_out, "sym_out_equal": m_out_equal, "sym_reach": m_reach,
 "_ZNSt7__cxx1112basic_stringIcSt11char_traitsIcESaIcEED1Ev": m_str_dtor, "_ZNSt7__cxx1112basic_stringIcSt11char_traitsIcESaIcEED2Ev": m_str_dtor,
 "_ZNSt7__cxx1112basic_stringIcSt11char_traitsIcESaIcEE9_M_createERmm": m_str_create,
 "__dynamic_cast": dyn_cast, "sym_f32": m_sym_f32,
}


I64 = ("int", 64)
I32 = ("int", 32)
I8 = ("int", 8)
PTR = ("ptr",)


def P(p, d):
    return Ptr(p.obj, p.off + d)


_ENG = None


def conc(v, what="value"):
    """concrete value of v for the current state; a symbolic v is concretised by forking over its B+1
    smallest feasible values (the forks re-execute the current call instruction)"""
    if is_sym(v):
        return _ENG.concretize(_ENG.cur, v, None, what)
    if isinstance(v, tuple):
        raise NotImplementedError("symbolic " + what)
    return v


def concretize_cells(e, st, cs, what, limit=48):
    """concrete bytes for a cell list: take the bytes of one model, fork the complement (re-executed)"""
    sym = [(i, c) for i, c in enumerate(cs) if type(c) is not int]
    e.sync(st)
    s = e.solver
    s.push()
    r = s.check()
    e.stats["queries"] += 1
    if r != z3.sat:
        s.pop()
        raise PathEnd("infeasible" if r == z3.unsat else "unknown")
    m = s.model()
    s.pop()
    out = list(cs)
    conj = []
    for i, c in sym:
        b = cell_bv(c)
        v = m.eval(b, model_completion=True).as_long()
        out[i] = v
        conj.append(b == v)
    cond = z3.And(*conj) if len(conj) > 1 else conj[0]
    ncond = z3.Not(cond)
    if e.sat(st, ncond):
        n = st.user.get("_concforks", 0)
        if n >= limit:
            e.stats["bound_cuts"] = e.stats.get("bound_cuts", 0) + 1
        else:
            o2 = e.fork(st)
            o2.user["_concforks"] = n + 1
            e.add_pc(o2, ncond)
            o2.frames[-1].ip -= 1
            e.work.append(o2)
            e.stats["forks"] += 1
    e.add_pc(st, cond)
    return bytes(out)


def cells(e, st, p, n):
    if n == 0:
        return []
    if isinstance(p, Ptr) and is_sym(p.off):
        p = e.concrete_ptr(st, p, "buffer read")
    o, off = e.check_access(st, p, n, "read cells")
    return list(o.data[off:off + n])


def put_cells(e, st, p, cs):
    if not cs:
        return
    if isinstance(p, Ptr) and is_sym(p.off):
        p = e.concrete_ptr(st, p, "buffer write")
    o, off = e.check_access(st, p, len(cs), "write cells")
    d = e.get_obj_w(st, p.obj)
    d.data[off:off + len(cs)] = cs


def cbytes(cs, what="bytes"):
    if not all(type(c) is int for c in cs):
        return concretize_cells(_ENG, _ENG.cur, cs, what)
    return bytes(cs)


def cstring(e, st, p):
    if isinstance(p, Ptr) and is_sym(p.off):
        p = e.concrete_ptr(st, p, "C string")
    o = e.get_obj_r(st, p.obj)
    if o is None or p.obj == 0:
        raise e.violation(st, "C string read through null/invalid pointer", aid="memory")
    i = p.off
    out = []
    symbolic = False
    while True:
        if i >= o.size:
            if symbolic:
                break
            raise e.violation(st, "unterminated C string (read past the end of the object)", aid="memory")
        c = o.data[i]
        if type(c) is not int:
            symbolic = True
        elif c == 0:
            break
        out.append(c)
        i += 1
    if symbolic:
        b = concretize_cells(e, st, out, "C string")
        z = b.find(b"\0")
        if z < 0 and i >= o.size:
            raise e.violation(st, "unterminated C string (read past the end of the object)", aid="memory")
        return b if z < 0 else b[:z]
    return bytes(out)


# ---------------- std::string
def s_data(e, st, s):
    return e.load(st, s, PTR)


def s_len(e, st, s):
    return conc(e.load(st, P(s, 8), I64), "string length")


def s_local(e, st, s):
    d = s_data(e, st, s)
    return d.obj == s.obj and d.off == s.off + 16


def s_cap(e, st, s):
    return 15 if s_local(e, st, s) else conc(e.load(st, P(s, 16), I64))


def s_get(e, st, s):
    return cells(e, st, s_data(e, st, s), s_len(e, st, s))


def s_set(e, st, s, cs):
    n = len(cs)
    cap = s_cap(e, st, s)
    if n > cap:
        newcap = max(n, 2 * cap)
        np_ = m_new(e, st, [newcap + 1], None)
        if not s_local(e, st, s):
            m_delete(e, st, [s_data(e, st, s)], None)
        e.store(st, s, np_, PTR)
        e.store(st, P(s, 16), newcap, I64)
    d = s_data(e, st, s)
    put_cells(e, st, d, cs + [0])
    e.store(st, P(s, 8), n, I64)


def m_s_assign(e, st, a, I):
    if a[0].obj == a[1].obj and a[0].off == a[1].off:
        return
    s_set(e, st, a[0], s_get(e, st, a[1]))


def m_s_append(e, st, a, I):
    s, p, n = a
    n = conc(n)
    s_set(e, st, s, s_get(e, st, s) + cells(e, st, p, n))
    return s


def m_s_replace(e, st, a, I):
    s, pos, l1, p, l2 = a
    cur = s_get(e, st, s)
    new = cells(e, st, p, conc(l2))
    s_set(e, st, s, cur[:pos] + new + cur[pos + l1:])
    return s


def m_s_replace_aux(e, st, a, I):
    s, pos, n1, n2, c = a
    cur = s_get(e, st, s)
    cell = c if not is_sym(c) else ("e", c, 0)
    s_set(e, st, s, cur[:pos] + [cell] * conc(n2) + cur[pos + n1:])
    return s


def m_s_construct_nc(e, st, a, I):
    s, n, c = a
    # precondition: data ptr -> local buffer, length unspecified
    e.store(st, P(s, 8), 0, I64)
    cell = c if not is_sym(c) else ("e", c, 0)
    s_set(e, st, s, [cell] * conc(n))


def m_s_mutate(e, st, a, I):
    s, pos, l1, p, l2 = a
    cur = s_get(e, st, s)
    how_much = len(cur) - pos - l1
    newcap = len(cur) + l2 - l1
    cap = s_cap(e, st, s)
    if newcap > cap and newcap < 2 * cap:
        newcap = 2 * cap
    np_ = m_new(e, st, [newcap + 1], None)
    if pos:
        put_cells(e, st, np_, cur[:pos])
    if p.obj != 0 and l2:
        put_cells(e, st, P(np_, pos), cells(e, st, p, l2))
    if how_much:
        put_cells(e, st, P(np_, pos + l2), cur[pos + l1:])
    if not s_local(e, st, s):
        m_delete(e, st, [s_data(e, st, s)], None)
    e.store(st, s, np_, PTR)
    e.store(st, P(s, 16), newcap, I64)


def m_s_compare_cstr(e, st, a, I):
    x = cbytes(s_get(e, st, a[0]), "string compare")
    y = cstring(e, st, a[1])
    return ((x > y) - (x < y)) & 0xFFFFFFFF


def m_s_find(e, st, a, I):
    s, p, pos, n = a
    x = cbytes(s_get(e, st, s), "string find")
    y = cbytes(cells(e, st, p, n))
    r = x.find(y, pos)
    return r & M64


def m_s_move_assign(e, st, a, I):
    s, r = a
    if s.obj == r.obj and s.off == r.off:
        return s
    s_set(e, st, s, s_get(e, st, r))
    s_set(e, st, r, [])
    return s


def m_s_resize(e, st, a, I):
    s, n, c = a
    cur = s_get(e, st, s)
    n = conc(n, "resize len")
    cell = c if not is_sym(c) else ("e", c, 0)
    s_set(e, st, s, cur[:n] + [cell] * max(0, n - len(cur)))


# ---- std::string search family (symbolic characters: decisions fork the state, the fork re-executes the call)
def _cell_val(c):
    return c if type(c) is int else cell_bv(c)


def _in_set(dec, c, chars):
    """is character c one of chars?  (c, chars: ints or z3 8-bit terms)"""
    if not chars:
        return False
    if type(c) is int and all(type(x) is int for x in chars):
        return c in chars
    return dec(z3.Or(*[(_bvv(c) == _bvv(x)) for x in chars]))


def _bvv(x):
    return z3.BitVecVal(x, 8) if type(x) is int else x


NPOS64 = (1 << 64) - 1


def _str_scan(e, st, a, forward, negate, single_char):
    """find_first_of / find_last_of / find_first_not_of / find_last_not_of"""
    s = a[0]
    cs = [_cell_val(c) for c in s_get(e, st, s)]
    if single_char:
        ch, pos = a[1], a[2]
        chars = [ch & 0xFF if not is_sym(ch) else z3.Extract(7, 0, ch) if ch.size() > 8 else ch]
    else:
        p, pos, n = a[1], a[2], a[3]
        chars = [_cell_val(c) for c in cells(e, st, p, conc(n))]
    pos = conc(pos)
    dec = rx_decide(e, st)
    n = len(cs)
    if forward:
        rng = range(pos, n) if pos < n else []
    else:
        if n == 0:
            return NPOS64
        start = n - 1 if pos >= n or pos == NPOS64 else pos
        rng = range(start, -1, -1)
    for i in rng:
        hit = _in_set(dec, cs[i], chars)
        if hit != negate:
            return i
    return NPOS64


def m_s_find_first_of(e, st, a, I):
    return _str_scan(e, st, a, True, False, False)


def m_s_find_last_of(e, st, a, I):
    return _str_scan(e, st, a, False, False, False)


def m_s_find_first_not_of(e, st, a, I):
    return _str_scan(e, st, a, True, True, False)


def m_s_find_last_not_of(e, st, a, I):
    return _str_scan(e, st, a, False, True, False)


def m_s_find_char(e, st, a, I):
    return _str_scan(e, st, a, True, False, True)


def m_s_rfind_char(e, st, a, I):
    return _str_scan(e, st, a, False, False, True)


def m_s_find_first_not_of_char(e, st, a, I):
    return _str_scan(e, st, a, True, True, True)


def m_s_find_last_not_of_char(e, st, a, I):
    return _str_scan(e, st, a, False, True, True)


def m_s_erase(e, st, a, I):
    """basic_string::_M_erase(pos, n)"""
    s, pos, n = a
    pos, n = conc(pos), conc(n)
    cur = s_get(e, st, s)
    s_set(e, st, s, cur[:pos] + cur[pos + n:])


def m_s_find_sym(e, st, a, I):
    """find(const char*, pos, n) with symbolic characters"""
    s, p, pos, n = a
    cs = [_cell_val(c) for c in s_get(e, st, s)]
    pat = [_cell_val(c) for c in cells(e, st, p, conc(n))]
    pos = conc(pos)
    if all(type(c) is int for c in cs + pat):
        r = bytes(cs).find(bytes(pat), pos)
        return r & M64
    dec = rx_decide(e, st)
    if not pat:
        return pos if pos <= len(cs) else NPOS64
    for i in range(pos, len(cs) - len(pat) + 1):
        if dec(z3.And(*[_bvv(cs[i + k]) == _bvv(pat[k]) for k in range(len(pat))])):
            return i
    return NPOS64


# ---------------- libc
def m_strlen(e, st, a, I):
    p = a[0]
    o = e.get_obj_r(st, p.obj)
    i = p.off
    n = 0
    while True:
        if i >= o.size:
            raise e.violation(st, "strlen past object end")
        c = o.data[i]
        if type(c) is int:
            if c == 0:
                return n
        else:
            b = cell_bv(c)
            z = b == 0
            cz = e.sat(st, z)
            cn = e.sat(st, z3.Not(z))
            if cz and cn:
                o2 = e.fork(st)
                e.add_pc(o2, z)
                o2.frames[-1].ip -= 1
                e.work.append(o2)
                e.stats["forks"] += 1
                e.add_pc(st, z3.Not(z))
            elif cz:
                return n
        i += 1
        n += 1


def m_memcmp(e, st, a, I):
    p, q, n = a
    n = conc(n)
    x = cells(e, st, p, n)
    y = cells(e, st, q, n)
    if all(type(c) is int for c in x + y):
        bx, by = bytes(x), bytes(y)
        return ((bx > by) - (bx < by)) & 0xFFFFFFFF
    # symbolic: only equality information is reliable -> fork eq / ne
    eq = z3.And(*[cell_bv(c) == cell_bv(d) for c, d in zip(x, y)])
    ce = e.sat(st, eq)
    cn = e.sat(st, z3.Not(eq))
    if ce and cn:
        o2 = e.fork(st)
        e.add_pc(o2, z3.Not(eq))
        o2.frames[-1].ip -= 1
        e.work.append(o2)
        e.add_pc(st, eq)
        return 0
    if ce:
        return 0
    # find first differing byte needs ordering; approximate with 1 (callers here test ==0 only)
    return 1


def m_strstr(e, st, a, I):
    h = cstring(e, st, a[0])
    n = cstring(e, st, a[1])
    i = h.find(n)
    return NULL if i < 0 else P(a[0], i)


def m_strchr(e, st, a, I):
    h = cstring(e, st, a[0])
    c = a[1] & 0xFF
    if c == 0:
        return P(a[0], len(h))
    i = h.find(bytes([c]))
    return NULL if i < 0 else P(a[0], i)


def m_strcmp(e, st, a, I):
    x, y = cstring(e, st, a[0]), cstring(e, st, a[1])
    return ((x > y) - (x < y)) & 0xFFFFFFFF


def m_isspace(e, st, a, I):
    c = a[0]
    if not is_sym(c):
        return int(c in (9, 10, 11, 12, 13, 32))
    return z3.If(z3.Or(c == 32, z3.And(z3.UGE(c, 9), z3.ULE(c, 13))), z3.BitVecVal(1, 32), z3.BitVecVal(0, 32))


def m_strtol(e, st, a, I):
    s = cstring(e, st, a[0])
    m = re.match(rb"\s*[+-]?\d+", s)
    v = int(m.group(0)) if m else 0
    if a[1].obj != 0:
        e.store(st, a[1], P(a[0], m.end() if m else 0), PTR)
    return v & M64


def m_errno(e, st, a, I):
    if not hasattr(e, "errno_obj"):
        e.errno_obj = e.new_obj(e.gstate, 4, "global", "errno")
    return Ptr(e.errno_obj, 0)


def m_guard_acquire(e, st, a, I):
    b = e.load(st, a[0], I8)
    return 0 if b else 1


def m_guard_release(e, st, a, I):
    e.store(st, a[0], 1, I8)


def m_ret0(e, st, a, I):
    return 0


def m_retself(e, st, a, I):
    return a[0]


# ---------------- rb tree (no rebalancing: sound for ordered-container semantics)
def m_rb_insert(e, st, a, I):
    left, x, p, h = a
    if is_sym(left):
        left = e.concretize(st, bv(left, 8) if z3.is_bool(left) else left, 2, "rb insert_left")
    e.store(st, x, 1, I32)            # colour black (only header stays red)
    e.store(st, P(x, 8), p, PTR)
    e.store(st, P(x, 16), NULL, PTR)
    e.store(st, P(x, 24), NULL, PTR)

    def same(u, v):
        return u.obj == v.obj and u.off == v.off
    if left:
        e.store(st, P(p, 16), x, PTR)
        if same(p, h):
            e.store(st, P(h, 8), x, PTR)
            e.store(st, P(h, 24), x, PTR)
        elif same(p, e.load(st, P(h, 16), PTR)):
            e.store(st, P(h, 16), x, PTR)
    else:
        e.store(st, P(p, 24), x, PTR)
        if same(p, e.load(st, P(h, 24), PTR)):
            e.store(st, P(h, 24), x, PTR)


def m_rb_incr(e, st, a, I):
    x = a[0]

    def same(u, v):
        return u.obj == v.obj and u.off == v.off
    r = e.load(st, P(x, 24), PTR)
    if r.obj != 0:
        x = r
        while True:
            l = e.load(st, P(x, 16), PTR)
            if l.obj == 0:
                break
            x = l
        return x
    y = e.load(st, P(x, 8), PTR)
    while same(x, e.load(st, P(y, 24), PTR)):
        x = y
        y = e.load(st, P(y, 8), PTR)
    if not same(e.load(st, P(x, 24), PTR), y):
        x = y
    return x


def m_rb_decr(e, st, a, I):
    x = a[0]

    def same(u, v):
        return u.obj == v.obj and u.off == v.off
    col = e.load(st, x, I32)
    par = e.load(st, P(x, 8), PTR)
    if col == 0 and par.obj != 0 and same(e.load(st, P(par, 8), PTR), x):
        return e.load(st, P(x, 24), PTR)
    l = e.load(st, P(x, 16), PTR)
    if l.obj != 0:
        y = l
        while True:
            r = e.load(st, P(y, 24), PTR)
            if r.obj == 0:
                break
            y = r
        return y
    y = par
    while same(x, e.load(st, P(y, 16), PTR)):
        x = y
        y = e.load(st, P(y, 8), PTR)
    return y


def m_rb_erase(e, st, a, I):
    """_Rb_tree_rebalance_for_erase(z, header) without rebalancing (plain BST removal); returns z"""
    z, h = a

    def same(u, v):
        return u.obj == v.obj and u.off == v.off

    def L(n):
        return e.load(st, P(n, 16), PTR)

    def R(n):
        return e.load(st, P(n, 24), PTR)

    def PAR(n):
        return e.load(st, P(n, 8), PTR)

    def setL(n, v):
        e.store(st, P(n, 16), v, PTR)

    def setR(n, v):
        e.store(st, P(n, 24), v, PTR)

    def setP(n, v):
        e.store(st, P(n, 8), v, PTR)

    def transplant(u, v):
        up = PAR(u)
        if same(PAR(h), u):
            setP(h, v)
        elif same(L(up), u):
            setL(up, v)
        else:
            setR(up, v)
        if v.obj != 0:
            setP(v, up)

    zl, zr, zp = L(z), R(z), PAR(z)
    leftmost, rightmost = L(h), R(h)
    if zl.obj != 0 and zr.obj != 0:
        y = zr
        while L(y).obj != 0:
            y = L(y)
        if not same(y, zr):
            x = R(y)
            yp = PAR(y)
            setL(yp, x)
            if x.obj != 0:
                setP(x, yp)
            setR(y, zr)
            setP(zr, y)
        transplant(z, y)
        setL(y, zl)
        setP(zl, y)
        return z
    x = zr if zl.obj == 0 else zl
    transplant(z, x)
    if same(leftmost, z):
        if zr.obj == 0:
            setL(h, zp)
        else:
            m = x
            while L(m).obj != 0:
                m = L(m)
            setL(h, m)
    if same(rightmost, z):
        if zl.obj == 0:
            setR(h, zp)
        else:
            m = x
            while R(m).obj != 0:
                m = R(m)
            setR(h, m)
    return z


# ---------------- hashtable policy
PRIMES = [2, 3, 5, 7, 11, 13, 17, 19, 23, 29, 31, 37, 41, 43, 47, 53, 59, 61, 67, 71, 73, 79, 83, 89, 97, 103, 109, 113, 127, 137, 139, 149, 157, 167, 179, 193, 199, 211, 227, 241, 257, 277, 293, 313, 337, 359, 383, 409, 439, 467, 503, 541, 577, 619, 661, 709, 761, 823, 887, 953, 1031, 1109, 1193, 1289, 1381, 1493, 1613, 1741, 1879, 2029, 2179, 2357, 2549, 2753, 2971, 3209, 3469, 3739, 4027, 4349, 4703, 5087, 5503, 5953, 6427, 6949, 7517, 8123, 8783, 9497, 10273, 11113, 12011, 12983, 14033, 15173, 16411, 17749, 19183, 20753, 22447, 24281, 26267, 28411, 30727, 33223, 35933, 38873, 42043, 45481, 49201, 53201, 57557, 62233, 67307, 72817, 78779, 85229, 92203, 99733]


def next_bkt(e, st, pol, n):
    mlf = e.load(st, pol, ("float",))
    b = next((p for p in PRIMES if p >= n), None)
    if b is None:
        raise PathEnd("alloc-too-large", "hash bucket count %d" % n)
    e.store(st, P(pol, 8), int(math.floor(b * mlf)), I64)
    return b


def m_next_bkt(e, st, a, I):
    n = a[1]
    if is_sym(n):
        n = e.concretize(st, n, None, "bucket count hint")
    return next_bkt(e, st, a[0], n)


def m_need_rehash(e, st, a, I):
    pol, n_bkt, n_elt, n_ins = a
    nr = e.load(st, P(pol, 8), I64)
    mlf = e.load(st, pol, ("float",))
    if n_elt + n_ins > nr:
        min_bkts = max(n_elt + n_ins, 0 if nr else 11) / mlf
        if min_bkts >= n_bkt:
            return [1, next_bkt(e, st, pol, max(int(math.floor(min_bkts)) + 1, n_bkt * 2))]
        e.store(st, P(pol, 8), int(math.floor(n_bkt * mlf)), I64)
    return [0, 0]


def m_hash_bytes(e, st, a, I):
    b = cbytes(cells(e, st, a[0], conc(a[1])), "hash bytes")
    h = (a[2] ^ 0xcbf29ce484222325) & M64
    for c in b:
        h = ((h ^ c) * 0x100000001b3) & M64
    return h


def m_list_hook(e, st, a, I):
    x, pos = a
    prev = e.load(st, P(pos, 8), PTR)
    e.store(st, x, pos, PTR)
    e.store(st, P(x, 8), prev, PTR)
    e.store(st, prev, x, PTR)
    e.store(st, P(pos, 8), x, PTR)


def m_list_transfer(e, st, a, I):
    """std::__detail::_List_node_base::_M_transfer(first, last): splice [first,last) before this"""
    pos, first, last = a

    def same(u, v):
        return u.obj == v.obj and u.off == v.off
    if same(pos, last):
        return
    nxt = lambda n: e.load(st, n, PTR)
    prv = lambda n: e.load(st, P(n, 8), PTR)
    e.store(st, prv(last), pos, PTR)            # last->prev->next = this
    e.store(st, prv(first), last, PTR)          # first->prev->next = last
    e.store(st, prv(pos), first, PTR)           # this->prev->next = first
    tmp = prv(pos)
    e.store(st, P(pos, 8), prv(last), PTR)      # this->prev = last->prev
    e.store(st, P(last, 8), prv(first), PTR)    # last->prev = first->prev
    e.store(st, P(first, 8), tmp, PTR)          # first->prev = tmp


def m_list_unhook(e, st, a, I):
    x = a[0]
    n = e.load(st, x, PTR)
    p = e.load(st, P(x, 8), PTR)
    e.store(st, P(n, 8), p, PTR)
    e.store(st, p, n, PTR)


# ---------------- regex: forking symbolic matcher (regexsym.py), Python re only as a fallback for concrete subjects
REGEX = {}


def m_regex_compile(e, st, a, I):
    this, first, last, flags = a
    n = conc(e.binop("sub", last, first, 64))
    pat = cbytes(cells(e, st, first, n)).decode("latin1")
    REGEX[(this.obj, this.off)] = (pat, flags)
    e.regex_patterns = getattr(e, "regex_patterns", set()) | {pat}


def pyre(rx):
    pat, flags = REGEX[(rx.obj, rx.off)]
    return re.compile(pat.encode("latin1"), (re.I if flags & 1 else 0) | re.S * 0)


def rx_decide(e, st):
    """decision oracle for the symbolic matcher: forks the engine state (the fork re-executes the regex call)"""
    def decide(cond):
        if isinstance(cond, bool):
            return cond
        c = z3.simplify(cond)
        if z3.is_true(c):
            return True
        if z3.is_false(c):
            return False
        k = st.known.get(c.get_id())
        if k is not None and k[2]:
            return k[0]
        ct = e.sat(st, c)
        cf = e.sat(st, z3.Not(c))
        if ct and cf:
            o2 = e.fork(st)
            e.add_pc(o2, z3.Not(c))
            o2.known[c.get_id()] = (False, c, True)
            o2.frames[-1].ip -= 1
            e.work.append(o2)
            e.stats["forks"] += 1
            e.stats["regex_forks"] = e.stats.get("regex_forks", 0) + 1
            e.add_pc(st, c)
            st.known[c.get_id()] = (True, c, True)
            return True
        if not ct and not cf:
            raise PathEnd("infeasible")
        st.known[c.get_id()] = (ct, c, True)
        return ct
    return decide


def rx_matcher(e, st, rx):
    from . import regexsym
    pat, flags = REGEX[(rx.obj, rx.off)]
    key = (pat, flags & 1)
    cache = getattr(e, "_rxcache", None)
    if cache is None:
        cache = e._rxcache = {}
    if key not in cache:
        try:
            cache[key] = regexsym.parse(pat)
        except regexsym.RegexError as ex:
            cache[key] = ex
    ast = cache[key]
    if isinstance(ast, Exception):
        return None
    return regexsym.Matcher(ast[0], ast[1], bool(flags & 1), rx_decide(e, st))


def rx_chars(cs):
    return [c if type(c) is int else cell_bv(c) for c in cs]


def write_submatch(e, st, p, base, a, b, matched):
    e.store(st, p, P(base, a), PTR)
    e.store(st, P(p, 8), P(base, b), PTR)
    e.store(st, P(p, 16), int(matched), I8)


def m_regex_algo(e, st, a, I):
    first, last, mr, rx, flags, policy, match_mode = a
    n = conc(e.binop("sub", last, first, 64))
    cs = cells(e, st, first, n)
    mt = rx_matcher(e, st, rx)
    res = None
    if mt is not None:
        s = rx_chars(cs)
        if match_mode:
            r = mt.match_at(s, 0, full=True)
            res = None if r is None else (0, r[0], r[1], mt.ngroups)
        else:
            r = mt.search(s)
            res = None if r is None else (r[0], r[1], r[2], mt.ngroups)
    else:
        subj = cbytes(cs, "regex subject")
        r_ = pyre(rx)
        mm = r_.fullmatch(subj) if match_mode else r_.search(subj)
        if mm:
            caps = {g: mm.span(g) for g in range(1, r_.groups + 1) if mm.span(g)[0] >= 0}
            res = (mm.start(), mm.end(), caps, r_.groups)
        ngr = r_.groups
    ng = (res[3] if res else (mt.ngroups if mt is not None else ngr)) + 1
    cnt = (ng + 3) if res else 3
    old = e.load(st, mr, PTR)
    if old.obj != 0:
        m_delete(e, st, [old], None)
    buf = m_new(e, st, [cnt * 24], None)
    e.store(st, mr, buf, PTR)
    e.store(st, P(mr, 8), P(buf, cnt * 24), PTR)
    e.store(st, P(mr, 16), P(buf, cnt * 24), PTR)
    e.store(st, P(mr, 24), first, PTR)
    if not res:
        for i in range(3):
            write_submatch(e, st, P(buf, i * 24), first, n, n, False)
        return 0
    b0, e0, caps, _ = res
    write_submatch(e, st, buf, first, b0, e0, True)
    for g in range(1, ng):
        if g in caps:
            write_submatch(e, st, P(buf, g * 24), first, caps[g][0], caps[g][1], True)
        else:
            write_submatch(e, st, P(buf, g * 24), first, n, n, False)
    write_submatch(e, st, P(buf, ng * 24), first, n, n, False)
    write_submatch(e, st, P(buf, (ng + 1) * 24), first, 0, b0, b0 != 0)
    write_submatch(e, st, P(buf, (ng + 2) * 24), first, e0, n, e0 != n)
    return 1


def m_regex_replace(e, st, a, I):
    out, first, last, rx, fmt, flen, flags = a
    n = conc(e.binop("sub", last, first, 64))
    cs = cells(e, st, first, n)
    f = cbytes(cells(e, st, fmt, conc(flen)))
    if b"$" in f:
        raise NotImplementedError("regex_replace format with $-references")
    mt = rx_matcher(e, st, rx)
    if mt is not None:
        res = mt.replace_all(rx_chars(cs), list(f))
        res = [c if isinstance(c, int) else ("e", c, 0) for c in res]
    else:
        subj = cbytes(cs, "regex subject")
        res = list(pyre(rx).sub(f.replace(b"\\", b"\\\\"), subj))
    s = out
    s_set(e, st, s, s_get(e, st, s) + res)
    return out


# ---------------- std::filesystem::path (POSIX): only what is_relative_path needs
def m_fs_noop(e, st, a, I):
    return None


def m_fs_list_ctor(e, st, a, I):
    e.store(st, a[0], NULL, PTR)


def m_fs_has_root_dir(e, st, a, I):
    """path::has_root_directory() on POSIX: the pathname starts with '/'"""
    s = a[0]
    cs = s_get(e, st, s)
    if not cs:
        return 0
    c = cs[0]
    if type(c) is int:
        return int(c == 0x2F)
    return z3.If(cell_bv(c) == 0x2F, z3.BitVecVal(1, 1), z3.BitVecVal(0, 1)) == z3.BitVecVal(1, 1)


# ---------------- streams
# One input stream and one output buffer per state.  st.out is a single global byte buffer; positions
# reported by tellp are absolute positions in it (the native twin's streambuf does the same).
def m_tellp(e, st, a, I):
    pos = st.outpos
    return [len(st.out) if pos is None else pos, 0]


def m_seekp(e, st, a, I):
    st.outpos = conc(a[1])
    return a[0]


def m_write2(e, st, a, I):
    self_, p, n = a
    if is_sym(n):
        n = e.concretize(st, n, None, "write len")
    if n == 0:
        return self_
    if n < 0 or n >= (1 << 63):
        return self_                      # negative streamsize: sputn writes nothing
    cs = cells(e, st, p, n)
    pos = st.outpos
    if pos is None or pos >= len(st.out):
        st.out.extend(cs)
        if pos is not None:
            st.outpos = None
    else:
        st.out[pos:pos + n] = cs
        st.outpos = pos + n
    return self_


def m_put(e, st, a, I):
    c = a[1]
    st.out.append(c & 0xFF if not is_sym(c) else ("e", c, 0))
    return a[0]


def m_set_trunc(e, st, a, I):
    T = e.fresh("T", 32, st, log=False)
    st.trunc = T if is_sym(T) else z3.BitVecVal(T, 32)
    if is_sym(T):
        e.add_pc(st, z3.ULE(st.trunc, len(st.inp)))


def m_set_trunc_range(e, st, a, I):
    m_set_trunc(e, st, a, I)
    if is_sym(st.trunc):
        lo, hi = a
        c = z3.And(z3.UGE(st.trunc, min(lo, len(st.inp))), z3.ULE(st.trunc, min(hi, len(st.inp))))
        if not e.sat(st, c):
            raise PathEnd("infeasible")
        e.add_pc(st, c)


def in_cell(e, st, pos):
    """input byte at absolute position pos as seen through the truncation point"""
    return st.inp[pos]


def _incell(v):
    return ("e", v, 0) if is_sym(v) else v


def m_read2(e, st, a, I):
    self_, p, n = a
    T = st.trunc
    if is_sym(n):
        n = e.concretize(st, n, None, "read length")
    if n == 0:
        return self_
    if n >= (1 << 63):
        return self_                      # negative count: istream::read extracts nothing
    if T is not None:
        # symbolic truncation point: byte i is delivered iff pos+i < T (partial read, then failbit)
        avail = len(st.inp) - st.inpos
        m = min(n, max(avail, 0))
        if m:
            old = cells(e, st, p, m)
            new = []
            for i in range(m):
                pos = st.inpos + i
                ib = st.inp[pos]
                ob = old[i]
                if type(ib) is int and type(ob) is int and ib == ob:
                    new.append(ib)
                else:
                    new.append(("e", z3.If(z3.UGT(T, pos), cell_bv(ib), cell_bv(ob)), 0))
            put_cells(e, st, p, new)
        st.inpos += n
        return self_
    if st.eof:
        return self_
    if st.inp_fixed:
        avail = len(st.inp) - st.inpos
        if n > avail:
            st.eof = True
            n = avail
            if n <= 0:
                return self_
    else:
        if st.inpos + n > e.max_input:
            e.stats["input_cuts"] = e.stats.get("input_cuts", 0) + 1
            raise PathEnd("input-bound", "input longer than bound")
        while len(st.inp) < st.inpos + n:
            st.inp.append(_incell(e.fresh("in%d" % len(st.inp), 8, st, log=False)))
    o, off = e.check_access(st, p, n, "istream::read destination")
    if off is None:
        raise NotImplementedError("istream::read to symbolic offset")
    put_cells(e, st, p, st.inp[st.inpos:st.inpos + n])
    st.inpos += n
    return self_


def _getline_core(e, st, maxn, delim):
    """extract cells up to delim (forking on symbolic bytes); returns list of cells"""
    out = []
    T = st.trunc
    pos0, eof0 = st.inpos, st.eof

    def refork(cond):
        o2 = e.fork(st)
        e.add_pc(o2, cond)
        o2.frames[-1].ip -= 1          # re-execute the call in the fork from the original stream position
        o2.inpos, o2.eof = pos0, eof0
        e.work.append(o2)
        e.stats["forks"] += 1

    while (maxn is None or len(out) < maxn):
        if st.inpos >= len(st.inp):
            if st.inp_fixed or T is not None:
                st.eof = True
                break
            if st.inpos + 1 > e.max_input:
                raise PathEnd("input-bound", "input longer than bound")
            st.inp.append(_incell(e.fresh("in%d" % len(st.inp), 8, st, log=False)))
        c = st.inp[st.inpos]
        if T is not None:
            here = z3.UGT(T, st.inpos)
            if not e.sat(st, here):
                st.eof = True
                break
            if e.sat(st, z3.Not(here)):
                refork(z3.Not(here))       # fork: the stream ends here
                e.add_pc(st, here)
        if type(c) is not int:
            isd = cell_bv(c) == (delim & 0xFF)
            cz = e.sat(st, isd)
            cn = e.sat(st, z3.Not(isd))
            if cz and cn:
                if len(out) >= e.B + 2 and T is None and not st.inp_fixed:
                    # bound on symbolic line length: force the delimiter here
                    e.stats["bound_cuts"] = e.stats.get("bound_cuts", 0) + 1
                    e.add_pc(st, isd)
                    st.inpos += 1
                    return out, True
                refork(z3.Not(isd))
                e.add_pc(st, isd)
                st.inpos += 1
                return out, True
            if cz:
                st.inpos += 1
                return out, True
            st.inpos += 1
            out.append(c)
            continue
        st.inpos += 1
        if c == (delim & 0xFF):
            return out, True
        out.append(c)
    return out, False


def m_getline(e, st, a, I):
    """istream::getline(char*, n, delim)"""
    self_, buf, n, delim = a
    n = conc(n, "getline size")
    pos0 = st.inpos
    out, found = _getline_core(e, st, n - 1 if n > 0 else 0, delim)
    if n > 0:
        put_cells(e, st, buf, out + [0])
    return self_


def m_std_getline(e, st, a, I):
    """std::getline(istream&, string&, delim)"""
    self_, s, delim = a
    out, found = _getline_core(e, st, None, delim)
    s_set(e, st, s, out)
    return self_


def m_out_reset(e, st, a, I):
    st.outpos = None


def m_out_truncate(e, st, a, I):
    del st.out[a[0]:]
    st.outpos = None


def m_out_read(e, st, a, I):
    dst, pos, n = a
    if pos + n > len(st.out):
        raise e.violation(st, "harness: sym_out_read beyond the written output", aid="harness")
    put_cells(e, st, dst, list(st.out[pos:pos + n]))


def m_out_write(e, st, a, I):
    src, pos, n = a
    cs = cells(e, st, src, n)
    if pos + n > len(st.out):
        st.out.extend([0] * (pos + n - len(st.out)))
    st.out[pos:pos + n] = cs


def m_snapshot(e, st, a, I):
    """remember the bytes of every object reachable from [p, p+n) (deep snapshot)"""
    p, n = a
    objs = reachable(e, st, p, n)
    snap = {"root": (p.obj, p.off, n, list(e.get_obj_r(st, p.obj).data[p.off:p.off + n])), "objs": {}}
    for oid in objs:
        o = e.get_obj_r(st, oid)
        snap["objs"][oid] = (o.size, list(o.data), o.freed)
    lst = st.user.setdefault("_snaps", [])
    lst = list(lst)
    lst.append(snap)
    st.user["_snaps"] = lst
    return len(lst) - 1


def _cells_equal(x, y):
    conds = []
    for c, d in zip(x, y):
        if c is d:
            continue
        if type(c) is int and type(d) is int:
            if c != d:
                return None
            continue
        if type(c) is tuple and type(d) is tuple and c[0] == d[0] and c[1] is d[1] and c[2] == d[2]:
            continue
        pc_, pd = type(c) is tuple and c[0] == "p", type(d) is tuple and d[0] == "p"
        if pc_ or pd:
            if pc_ and pd and isinstance(c[1], Ptr) and isinstance(d[1], Ptr) and c[1].obj == d[1].obj and c[2] == d[2] \
                    and not is_sym(c[1].off) and not is_sym(d[1].off) and c[1].off == d[1].off:
                continue
            return None
        conds.append(cell_bv(c) == cell_bv(d))
    return conds


def m_unchanged(e, st, a, I):
    """true iff every object captured by the snapshot still exists with identical bytes"""
    snap = st.user["_snaps"][a[0]]
    conds = []
    oid, off, n, data = snap["root"]
    o = e.get_obj_r(st, oid)
    r = _cells_equal(data, o.data[off:off + n])
    if r is None:
        e.stats["unchanged_diff"] = "root object differs"
        return 0
    conds += r
    for oid, (size, data, freed) in snap["objs"].items():
        o = e.get_obj_r(st, oid)
        if o is None or o.freed != freed or o.size != size:
            return 0
        r = _cells_equal(data, o.data)
        if r is None:
            return 0
        conds += r
    if not conds:
        return 1
    return z3.And(*conds)


def m_out_clear(e, st, a, I):
    st.out = []
    st.outpos = None


def m_ref_hook(e, st, a, I):
    st.watch[0].append(a[0])


def m_str_hook(e, st, a, I):
    st.watch[1].append(a[0])


def m_watch_reset(e, st, a, I):
    st.watch = ([], [])
def m_watch_count(e, st, a, I):
    return len(st.watch[a[0]])
def m_watch_get(e, st, a, I):
    return st.watch[a[0]][a[1]]

def reachable(e, st, root, size):
    """object ids reachable through pointer cells starting from bytes [root, root+size)"""
    seen = set()
    work = []
    def scan(oid, lo, hi):
        o = e.get_obj_r(st, oid)
        if o is None or o.freed:
            return
        last = None
        for c in o.data[lo:hi]:
            if type(c) is tuple and c[0] == "p" and c[1] is not last:
                last = c[1]
                t = c[1]
                if isinstance(t, Ptr) and t.obj and t.obj not in seen:
                    ob = e.get_obj_r(st, t.obj)
                    if ob is not None and ob.kind in ("heap", "stack"):
                        seen.add(t.obj)
                        work.append(t.obj)
    scan(root.obj, root.off, root.off + size)
    while work:
        oid = work.pop()
        o = e.get_obj_r(st, oid)
        scan(oid, 0, o.size)
    return seen

def m_heap_disjoint(e, st, a, I):
    pa, na, pb, nb = a
    ra = reachable(e, st, pa, na)
    rb = reachable(e, st, pb, nb)
    ra.discard(pb.obj); rb.discard(pa.obj)
    common = (ra & rb) | ({pa.obj} & rb) | ({pb.obj} & ra)
    e.stats["heap_objs"] = (len(ra), len(rb))
    if common:
        names = [(oid, e.get_obj_r(st, oid).size) for oid in list(common)[:5]]
        print("SHARED heap objects:", names)
        return 0
    return 1

def m_in_rewind(e, st, a, I):
    st.inpos = 0

def _gname(e, st, oid):
    o = e.get_obj_r(st, oid)
    return o.name.replace("9nifly_ref", "5nifly") if o is not None else None

def m_deep_equal(e, st, a, I):
    pa, na, pb, nb = a
    if na != nb:
        return 0
    conds = []
    seen = set()
    work = [(pa, pb, na)]
    while work:
        x, y, n = work.pop()
        key = (x.obj, x.off, y.obj, y.off)
        if key in seen:
            continue
        seen.add(key)
        ox, oy = e.get_obj_r(st, x.obj), e.get_obj_r(st, y.obj)
        cx, cy = ox.data[x.off:x.off + n], oy.data[y.off:y.off + n]
        i = 0
        while i < n:
            c, d = cx[i], cy[i]
            pc_, pd = type(c) is tuple and c[0] == "p", type(d) is tuple and d[0] == "p"
            if pc_ != pd:
                # pointer vs null bytes etc.
                if (pc_ and type(d) is int and all(type(q) is int and q == 0 for q in cy[i:i+8])) or (pd and type(c) is int):
                    print("DEEP:", file=sys.stderr) if False else print("DEEP: pointer/non-pointer mismatch at", i); return 0
                print("DEEP:", file=sys.stderr) if False else print("DEEP: pointer/non-pointer mismatch at", i); return 0
            if pc_:
                p, q = c[1], d[1]
                if isinstance(p, Ptr) and isinstance(q, Ptr):
                    op, oq = e.get_obj_r(st, p.obj), e.get_obj_r(st, q.obj)
                    if p.obj == x.obj and q.obj == y.obj:
                        if is_sym(p.off) or is_sym(q.off):
                            conds.append(bv(p.off, 64) - x.off == bv(q.off, 64) - y.off)
                        elif (p.off - x.off) != (q.off - y.off):
                            print("DEEP:", file=sys.stderr) if False else print("DEEP: self pointer offset differs"); return 0
                    elif op is not None and oq is not None and op.kind in ("global", "func") :
                        if _gname(e, st, p.obj) != _gname(e, st, q.obj) or (not is_sym(p.off) and not is_sym(q.off) and p.off != q.off):
                            print("DEEP:", file=sys.stderr) if False else print("DEEP: global pointer differs", _gname(e, st, p.obj), _gname(e, st, q.obj)); return 0
                    elif op is not None and oq is not None:
                        if is_sym(p.off) or is_sym(q.off):
                            conds.append(bv(p.off, 64) == bv(q.off, 64))
                        elif p.off != q.off:
                            print("DEEP:", file=sys.stderr) if False else print("DEEP: heap pointer offset differs"); return 0
                        if op.size != oq.size:
                            print("DEEP:", file=sys.stderr) if False else print("DEEP: heap buffer size differs", op.size, oq.size); return 0
                        work.append((Ptr(p.obj, 0), Ptr(q.obj, 0), op.size))
                i += 8
                continue
            if type(c) is int and type(d) is int:
                if c != d:
                    print("DEEP:", file=sys.stderr) if False else print("DEEP: concrete byte differs at", i, c, d); return 0
            elif not (c is d or (type(c) is tuple and type(d) is tuple and c[1] is d[1] and c[2] == d[2])):
                conds.append(cell_bv(c) == cell_bv(d))
            i += 1
    if not conds:
        return 1
    return z3.And(*conds)

SPRE = "_ZNSt7__cxx1112basic_stringIcSt11char_traitsIcESaIcEE"
M3 = {
    SPRE + "9_M_assignERKS4_": m_s_assign,
    SPRE + "9_M_appendEPKcm": m_s_append,
    SPRE + "10_M_replaceEmmPKcm": m_s_replace,
    SPRE + "14_M_replace_auxEmmmc": m_s_replace_aux,
    SPRE + "12_M_constructEmc": m_s_construct_nc,
    SPRE + "9_M_mutateEmmPKcm": m_s_mutate,
    "_ZNKSt7__cxx1112basic_stringIcSt11char_traitsIcESaIcEE7compareEPKc": m_s_compare_cstr,
    "_ZNKSt7__cxx1112basic_stringIcSt11char_traitsIcESaIcEE4findEPKcmm": m_s_find_sym,
    "_ZNKSt7__cxx1112basic_stringIcSt11char_traitsIcESaIcEE4findEcm": m_s_find_char,
    "_ZNKSt7__cxx1112basic_stringIcSt11char_traitsIcESaIcEE5rfindEcm": m_s_rfind_char,
    "_ZNKSt7__cxx1112basic_stringIcSt11char_traitsIcESaIcEE13find_first_ofEPKcmm": m_s_find_first_of,
    "_ZNKSt7__cxx1112basic_stringIcSt11char_traitsIcESaIcEE12find_last_ofEPKcmm": m_s_find_last_of,
    "_ZNKSt7__cxx1112basic_stringIcSt11char_traitsIcESaIcEE17find_first_not_ofEPKcmm": m_s_find_first_not_of,
    "_ZNKSt7__cxx1112basic_stringIcSt11char_traitsIcESaIcEE16find_last_not_ofEPKcmm": m_s_find_last_not_of,
    "_ZNKSt7__cxx1112basic_stringIcSt11char_traitsIcESaIcEE17find_first_not_ofEcm": m_s_find_first_not_of_char,
    "_ZNKSt7__cxx1112basic_stringIcSt11char_traitsIcESaIcEE16find_last_not_ofEcm": m_s_find_last_not_of_char,
    "_ZNSt7__cxx1112basic_stringIcSt11char_traitsIcESaIcEE8_M_eraseEmm": m_s_erase,
    SPRE + "aSEOS4_": m_s_move_assign,
    SPRE + "6resizeEmc": m_s_resize,
    "_ZnwmRKSt9nothrow_t": lambda e, st, a, I: m_new(e, st, [a[0]], I),
    "strlen": m_strlen, "memcmp": m_memcmp, "bcmp": m_memcmp, "strstr": m_strstr, "strchr": m_strchr, "strcmp": m_strcmp,
    "isspace": m_isspace, "strtol": m_strtol, "__errno_location": m_errno,
    "__cxa_guard_acquire": m_guard_acquire, "__cxa_guard_release": m_guard_release, "clock": m_ret0,
    "_ZSt29_Rb_tree_insert_and_rebalancebPSt18_Rb_tree_node_baseS0_RS_": m_rb_insert,
    "_ZSt18_Rb_tree_incrementPSt18_Rb_tree_node_base": m_rb_incr, "_ZSt18_Rb_tree_incrementPKSt18_Rb_tree_node_base": m_rb_incr,
    "_ZSt18_Rb_tree_decrementPSt18_Rb_tree_node_base": m_rb_decr, "_ZSt18_Rb_tree_decrementPKSt18_Rb_tree_node_base": m_rb_decr,
    "_ZSt28_Rb_tree_rebalance_for_erasePSt18_Rb_tree_node_baseRS_": m_rb_erase,
    "_ZNKSt8__detail20_Prime_rehash_policy11_M_next_bktEm": m_next_bkt,
    "_ZNKSt8__detail20_Prime_rehash_policy14_M_need_rehashEmmm": m_need_rehash,
    "_ZSt11_Hash_bytesPKvmm": m_hash_bytes,
    "_ZNSt8__detail15_List_node_base7_M_hookEPS0_": m_list_hook,
    "_ZNSt8__detail15_List_node_base11_M_transferEPS0_S1_": m_list_transfer,
    "_ZNSt8__detail15_List_node_base9_M_unhookEv": m_list_unhook,
    "_ZNSt6localeC1Ev": m_nop, "_ZNSt6localeC1ERKS_": m_nop, "_ZNSt6localeD1Ev": m_nop, "_ZNSt6localeaSERKS_": m_retself,
    "_ZNSt7__cxx1111basic_regexIcNS_12regex_traitsIcEEE10_M_compileEPKcS5_NSt15regex_constants18syntax_option_typeE": m_regex_compile,
    "_ZNSo5tellpEv": m_tellp, "_ZNSo5seekpESt4fposI11__mbstate_tE": m_seekp, "_ZNSo5writeEPKcl": m_write2, "_ZNSi4readEPcl": m_read2,
    "_ZNSi7getlineEPclc": m_getline, "sym_out_reset": m_out_reset, "sym_in_rewind": m_in_rewind, "sym_deep_equal": m_deep_equal, "sym_heap_disjoint": m_heap_disjoint, "sym_watch_reset": m_watch_reset, "sym_watch_count": m_watch_count, "sym_watch_get": m_watch_get, "sym_set_truncation": m_set_trunc,
    "_ZNKSt10filesystem7__cxx114path18has_root_directoryEv": m_fs_has_root_dir,
    "_ZNKSt10filesystem7__cxx114path5_List13_Impl_deleterclEPNS2_5_ImplE": m_fs_noop,
    "_ZNSt10filesystem7__cxx114path14_M_split_cmptsEv": m_fs_noop,
    "_ZNSt10filesystem7__cxx114path5_ListC1Ev": m_fs_list_ctor,
    "_ZNSt8ios_base4InitC1Ev": m_nop, "_ZNSt8ios_base4InitD1Ev": m_nop,
    "_ZSt21__throw_bad_exceptionv": m_throw("bad_exception"),
    "_ZSt20__throw_out_of_rangePKc": m_throw("out_of_range"), "_ZSt24__throw_out_of_range_fmtPKcz": m_throw("out_of_range"),
    "_ZSt19__throw_logic_errorPKc": m_throw("logic_error"), "_ZSt24__throw_invalid_argumentPKc": m_throw("invalid_argument"),
    "_ZSt16__throw_bad_castv": m_throw("bad_cast"), "_ZSt25__throw_bad_function_callv": m_throw("bad_function_call"),
}


def install_prefix_models(e):
    """models selected by demangled-name pattern"""
    for nm in e.m.funcs:
        if "__regex_algo_impl" in nm:
            e.models[nm] = m_regex_algo
        elif "__regex_replace" in nm and nm.startswith("_ZSt15__regex_replace"):
            e.models[nm] = m_regex_replace




def _f32(v):
    if isinstance(v, tuple) and v[0] == "fbits":
        return z3.fpBVToFP(v[1], z3.Float32())
    if is_sym(v):
        return z3.fpBVToFP(v, z3.Float32())
    return z3.FPVal(v, z3.Float32())


def m_ref_f2h(e, st, a, I):
    """reference IEEE conversion binary32 -> binary16, round to nearest even (z3's fp.to_fp)"""
    x = a[0]
    if not (isinstance(x, tuple) or is_sym(x)):
        import numpy as np
        return int(np.float32(x).astype(np.float16).view(np.uint16))
    h = z3.fpFPToFP(z3.RNE(), _f32(x), z3.Float16())
    return z3.fpToIEEEBV(h)


def m_ref_h2f(e, st, a, I):
    """reference conversion binary16 -> binary32 (exact)"""
    h = a[0]
    if not is_sym(h):
        import numpy as np
        return float(np.uint16(h & 0xFFFF).view(np.float16).astype(np.float32))
    f = z3.fpFPToFP(z3.RNE(), z3.fpBVToFP(h, z3.Float16()), z3.Float32())
    return ("fbits", z3.fpToIEEEBV(f))


def m_f32_bits(e, st, a, I):
    x = a[0]
    if isinstance(x, tuple):
        return x[1]
    if is_sym(x):
        return x
    return struct.unpack("<I", struct.pack("<f", x))[0]


def m_user_note(e, st, a, I):
    """sym_note(key, value): attach a concrete key/value to the path (shows up in violation records)"""
    k = cstr(e, st, a[0])
    v = a[1]
    st.user[k] = v if not is_sym(v) else str(v)


def m_reach2(e, st, a, I):
    tag = cstr(e, st, a[0])
    st.reached.append(tag)
    e.reach[tag] = e.reach.get(tag, 0) + 1


# ---------------- Real mode (C20): sqrt / trig over the reals
def _rfresh(e, name):
    e.symcount += 1
    return z3.Real("%s_%d" % (name, e.symcount))


def m_sym_real(e, st, a, I):
    """sym_real(name): a fresh real number (replay value: a rational written into the replay as numerator/denominator)"""
    nm = cstr(e, st, a[0])
    if e.replay is not None:
        vals = e.replay["values"]
        k = e.replay.setdefault("_pos", 0)
        e.replay["_pos"] = k + 1
        v = vals[k][2] if k < len(vals) else 0
        return struct.unpack("<f", struct.pack("<I", v & 0xFFFFFFFF))[0]
    r = _rfresh(e, nm)
    st.symlog.append((nm, "real", r))
    return ("real", r)


def m_real_sqrt(e, st, a, I):
    x = a[0]
    if not is_real(x):
        return MODELS_SQRT(e, st, a, I)
    X = x[1]
    r = _rfresh(e, "sqrt")
    if not e.sat(st, X >= 0):
        raise PathEnd("infeasible")
    e.add_pc(st, z3.And(X >= 0, r >= 0, r * r == X))
    return ("real", r)


def _pi_axiom(e, st):
    if not st.user.get("_pi"):
        st.user["_pi"] = True
        e.add_pc(st, z3.And(REAL_PI > z3.RealVal("3.14159"), REAL_PI < z3.RealVal("3.1416")))


def _trig(e, st, ang):
    """(sin, cos) variables of a real angle expression, one pair per distinct expression, with sin^2+cos^2 = 1"""
    _pi_axiom(e, st)
    tab = st.user.get("_trig")
    tab = dict(tab) if tab else {}
    k = z3.simplify(ang).get_id()
    if k not in tab:
        s_, c_ = _rfresh(e, "sin"), _rfresh(e, "cos")
        e.add_pc(st, z3.And(s_ * s_ + c_ * c_ == 1, s_ >= -1, s_ <= 1, c_ >= -1, c_ <= 1,
                            z3.Implies(ang == 0, z3.And(s_ == 0, c_ == 1)),
                            z3.Implies(z3.And(ang > 0, ang < REAL_PI), s_ > 0),
                            z3.Implies(z3.And(ang >= 0, ang < REAL_PI / 2), c_ > 0),
                            z3.Implies(z3.And(ang > REAL_PI / 2, ang <= REAL_PI), c_ < 0)))
        tab[k] = (ang, s_, c_)
        st.user["_trig"] = tab
    return tab[k][1], tab[k][2]


REAL_PI = z3.Real("pi")


def m_real_cos(e, st, a, I):
    if not is_real(a[0]):
        return m_f1(math.cos)(e, st, a, I)
    return ("real", _trig(e, st, a[0][1])[1])


def m_real_sin(e, st, a, I):
    if not is_real(a[0]):
        return m_f1(math.sin)(e, st, a, I)
    return ("real", _trig(e, st, a[0][1])[0])


def m_real_asin(e, st, a, I):
    if not is_real(a[0]):
        return m_f1(math.asin)(e, st, a, I)
    y = a[0][1]
    _pi_axiom(e, st)
    r = _rfresh(e, "asin")
    ax = [r >= -REAL_PI / 2, r <= REAL_PI / 2]
    for (ang, s_, c_) in (st.user.get("_trig") or {}).values():
        ax.append(z3.Implies(z3.And(y == s_, ang >= -REAL_PI / 2, ang <= REAL_PI / 2), r == ang))
    e.add_pc(st, z3.And(*ax))
    return ("real", r)


def m_real_acos(e, st, a, I):
    if not is_real(a[0]):
        return m_f1(math.acos)(e, st, a, I)
    y = a[0][1]
    _pi_axiom(e, st)
    r = _rfresh(e, "acos")
    ax = [r >= 0, r <= REAL_PI]
    for (ang, s_, c_) in (st.user.get("_trig") or {}).values():
        ax.append(z3.Implies(z3.And(y == c_, ang >= 0, ang <= REAL_PI), r == ang))
    e.add_pc(st, z3.And(*ax))
    return ("real", r)


def m_real_fabs(e, st, a, I):
    if not is_real(a[0]):
        return m_f1(abs)(e, st, a, I)
    x = a[0][1]
    return ("real", z3.If(x >= 0, x, -x))


def m_real_pi(e, st, a, I):
    _pi_axiom(e, st)
    return ("real", REAL_PI)


def MODELS_SQRT(e, st, a, I):
    x = a[0]
    if isinstance(x, tuple) or is_sym(x):
        raise PathEnd("unsupported", "symbolic float sqrt")
    r = math.sqrt(x) if x >= 0 else math.nan
    return f32round(r) if I.ty[0] == "float" else r


ALL = {}
ALL.update(MODELS)
ALL.update(M2)
ALL.update(M3)
ALL.update({
    "nifly_verif_ref_hook": m_ref_hook, "nifly_verif_str_hook": m_str_hook,
    "sym_set_truncation_range": m_set_trunc_range,
    "sym_note": m_user_note, "sym_out_truncate": m_out_truncate, "sym_out_read": m_out_read, "sym_out_write": m_out_write,
    "sym_snapshot": m_snapshot, "sym_unchanged": m_unchanged, "sym_reach": m_reach2, "sym_out_clear": m_out_clear,
    "_ZNSo3putEc": m_put,
    "sym_ref_f2h": m_ref_f2h, "sym_ref_h2f": m_ref_h2f,
    "sym_real": m_sym_real, "sym_pi": m_real_pi,
    "sqrt": m_real_sqrt, "sqrtf": m_real_sqrt, "cos": m_real_cos, "cosf": m_real_cos, "sin": m_real_sin, "sinf": m_real_sin,
    "asin": m_real_asin, "asinf": m_real_asin, "acos": m_real_acos, "acosf": m_real_acos,
})


def install(e):
    global _ENG
    _ENG = e
    e.models.update(ALL)
    INTRINSICS["llvm.sqrt"] = m_real_sqrt
    INTRINSICS["llvm.fabs"] = m_real_fabs
    e.reach = {}
    install_prefix_models(e)
    for nm in e.m.funcs:
        if nm.startswith("_ZSt7getlineIcSt11char_traitsIcESaIcEERSt13basic_istream"):
            e.models[nm] = m_std_getline


# ---------------- per-property stubs (C12/C13): float-heavy helpers whose results are not part of the property
def m_stub_bsphere(e, st, a, I):
    """BoundingSphere(const std::vector<Vector3>&): an arbitrary sphere (4 fresh symbolic floats)"""
    this = a[0]
    for k in range(4):
        e.store(st, P(this, 4 * k), ("fbits", e.fresh("bsphere", 32, st, log=False)), ("float",))


def m_stub_noop(e, st, a, I):
    return None


def install_stubs(e, kinds):
    for nm in e.m.funcs:
        if "bsphere" in kinds and nm.startswith("_ZN5nifly14BoundingSphereC") and "St6vector" in nm:
            e.models[nm] = m_stub_bsphere
        if "tangents" in kinds and "CalcTangentSpace" in nm and nm.startswith("_ZN5nifly"):
            e.models[nm] = m_stub_noop
