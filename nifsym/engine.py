"""nifsym engine: KLEE-style symbolic executor for LLVM-14 bitcode (LLVM-C via ctypes + z3).

Values: python int / z3 BitVec (ints), python float / ("fbits", bv) (floats), Ptr(obj, off) (pointers),
Lin (linear combination of object bases from ptr<->int arithmetic).  Memory: per-object byte cells
(int | ("e", bvexpr, byteindex) | ("p", Ptr, byteindex)), copy-on-write between forked states.
"""
import sys, struct, time, math, os, random
import ctypes as C
import z3
from . import llvmc as ll

sys.setrecursionlimit(100000)
M64 = (1 << 64) - 1


class Ptr:
    __slots__ = ("obj", "off")

    def __init__(self, obj, off=0):
        self.obj = obj
        self.off = off

    def __repr__(self):
        return "Ptr(%d,%s)" % (self.obj, self.off)


NULL = Ptr(0, 0)


class Lin:
    """integer-typed linear combination of object base addresses (from ptrtoint arithmetic)"""
    __slots__ = ("objs", "off")

    def __init__(self, objs, off):
        self.objs = objs
        self.off = off

    def __repr__(self):
        return "Lin(%s,%s)" % (self.objs, self.off)


class Obj:
    __slots__ = ("size", "data", "kind", "name", "owner", "freed", "base")

    def __init__(self, size, kind, name, owner, base):
        self.size = size
        self.data = [0] * size
        self.kind = kind
        self.name = name
        self.owner = owner
        self.freed = False
        self.base = base


class State:
    """one execution state (path prefix)"""

    def __init__(self):
        self.mem = {}
        self.pc = []
        self.frames = []
        self.tok = object()
        self.lastmodel = None
        self.known = {}
        self.watch = ([], [])
        self.trunc = None
        self.inp = []        # current input stream cells
        self.inp0 = self.inp  # the *external* input (first stream), kept for replay files
        self.inpos = 0
        self.out = []
        self.outpos = None
        self.eof = False
        self.inp_fixed = False
        self.symlog = []     # (name, width, expr) in creation order
        self.reached = []
        self.icount = 0
        self.prio = 0
        self.user = {}
        self.endmsg = ""


class NraSolver:
    """push/pop/add/check facade that answers every check() with a fresh one-shot QF_NRA (nlsat) solver;
    used in Real mode, where z3's incremental solver returns 'unknown' on the non-linear queries"""

    def __init__(self, timeout_ms):
        self.stack = [[]]
        self.timeout = timeout_ms
        self.last = None

    def push(self):
        self.stack.append([])

    def pop(self):
        self.stack.pop()

    def add(self, *cs):
        self.stack[-1].extend(cs)

    def set(self, *a, **k):
        pass

    def check(self):
        # bit-vector leftovers (zext of comparison results etc.) are blasted to booleans first
        s = z3.Then("simplify", "propagate-values", "bit-blast", "simplify", "qfnra-nlsat").solver()
        s.set("timeout", self.timeout)
        for lvl in self.stack:
            for c in lvl:
                s.add(c)
        self.last = s
        return s.check()

    def model(self):
        return self.last.model()

    def reason_unknown(self):
        return self.last.reason_unknown() if self.last is not None else ""


class WorkList:
    """states ordered by priority class (= number of non-minimal count choices taken so far), LIFO inside a
    class: the slice with all counts minimal is explored exhaustively first, then one count raised, ..."""

    def __init__(self):
        self.buckets = {}
        self.n = 0
        self.pops = 0

    def append(self, st):
        self.buckets.setdefault(st.prio, []).append(st)
        self.n += 1

    def pop(self):
        k = min(self.buckets)
        b = self.buckets[k]
        self.pops += 1
        # mostly depth-first (newest state), every third pop the oldest state of the class: alternatives of
        # *early* decisions (e.g. the key type read at the start of a block) are reached even when the budget ends
        st = b.pop(0) if (self.pops % 3 == 0 and len(b) > 2) else b.pop()
        if not b:
            del self.buckets[k]
        self.n -= 1
        return st

    def __len__(self):
        return self.n

    def __bool__(self):
        return self.n > 0


class PathEnd(Exception):
    def __init__(self, kind, msg=""):
        self.kind = kind
        self.msg = msg


class Violation(Exception):
    pass


def is_sym(v):
    return isinstance(v, z3.ExprRef)


def mask(w):
    return (1 << w) - 1


def to_signed(v, w):
    return v - (1 << w) if v >> (w - 1) else v


def bv(v, w):
    if is_sym(v):
        if z3.is_bool(v):
            return z3.If(v, z3.BitVecVal(1, w), z3.BitVecVal(0, w))
        return v
    return z3.BitVecVal(v, w)


def boolz(v):
    if is_sym(v):
        if z3.is_bool(v):
            return v
        return v == z3.BitVecVal(1, 1)
    return z3.BoolVal(bool(v))


def to_real(v):
    """Real-mode value of a float operand (exact: python floats are dyadic rationals)"""
    if isinstance(v, tuple):
        if v[0] == "real":
            return v[1]
        raise NotImplementedError("bit-level float in Real mode")
    if isinstance(v, float):
        if v != v or v in (math.inf, -math.inf):
            raise NotImplementedError("NaN/Inf constant in Real mode")
        from fractions import Fraction
        fr = Fraction(v)
        return z3.RealVal("%d/%d" % (fr.numerator, fr.denominator))
    if isinstance(v, int):
        return z3.RealVal(v)
    raise NotImplementedError("operand in Real mode: %r" % (v,))


def is_real(v):
    return isinstance(v, tuple) and v[0] == "real"


def f32round(x):
    try:
        return struct.unpack("<f", struct.pack("<f", x))[0]
    except OverflowError:
        return math.copysign(math.inf, x)


class Module:
    def __init__(self, path):
        self.ctx, self.mod = ll.load_module(path)
        self.dl = ll.GetModuleDataLayout(self.mod)
        self.tycache = {}
        self.funcs = {}      # name -> llvm value
        self.decoded = {}    # name -> Func
        f = ll.GetFirstFunction(self.mod)
        while f:
            self.funcs[ll.name(f)] = f
            f = ll.GetNextFunction(f)
        self.globals = {}
        g = ll.GetFirstGlobal(self.mod)
        while g:
            self.globals[ll.name(g)] = g
            g = ll.GetNextGlobal(g)

    def ty(self, t):
        r = self.tycache.get(t)
        if r is not None:
            return r
        k = ll.TK[ll.GetTypeKind(t)]
        if k == "int":
            r = ("int", ll.GetIntTypeWidth(t))
        elif k == "pointer":
            r = ("ptr",)
        elif k == "float":
            r = ("float",)
        elif k == "double":
            r = ("double",)
        elif k == "void":
            r = ("void",)
        elif k == "struct":
            n = ll.CountStructElementTypes(t)
            size = ll.ABISizeOfType(self.dl, t) if n or True else 0
            fields = []
            for i in range(n):
                fields.append((ll.OffsetOfElement(self.dl, t, i), self.ty(ll.StructGetTypeAtIndex(t, i))))
            r = ("struct", tuple(fields), size)
        elif k == "array":
            et = ll.GetElementType(t)
            r = ("array", ll.GetArrayLength(t), self.ty(et), ll.ABISizeOfType(self.dl, et))
        elif k == "vector":
            et = ll.GetElementType(t)
            r = ("vector", ll.GetVectorSize(t), self.ty(et), ll.ABISizeOfType(self.dl, et))
        elif k == "function":
            r = ("func",)
        elif k == "label":
            r = ("label",)
        elif k == "metadata":
            r = ("metadata",)
        elif k == "token":
            r = ("token",)
        else:
            raise NotImplementedError("type kind " + k)
        self.tycache[t] = r
        return r

    def sizeof(self, t):
        return ll.ABISizeOfType(self.dl, t)


def tsize(t):
    k = t[0]
    if k == "int":
        return (t[1] + 7) // 8
    if k == "ptr":
        return 8
    if k == "float":
        return 4
    if k == "double":
        return 8
    if k == "struct":
        return t[2]
    if k == "array":
        return t[1] * t[3]
    if k == "vector":
        return t[1] * t[3]
    raise NotImplementedError(t)


class Instr:
    __slots__ = ("op", "dst", "a", "ty", "x", "text")


class Func:
    pass


class Engine:
    def __init__(self, path):
        self.m = Module(path)
        self.gobj = {}          # global name -> obj id
        self.fobj = {}          # function name -> obj id
        self.objfn = {}         # obj id -> function name
        self.gmem = {}          # objects for globals (shared, immutable template)
        self.next_obj = 1
        self.next_base = 0x10000
        self.models = {}
        self.stats = dict(instr=0, queries=0, qtime=0.0, paths=0, forks=0)
        self.solver = z3.Solver()
        self.sstack = []
        self.symcount = 0
        self.violations = []
        self.ends = {}
        self.fn_exec = {}
        self.decoded = {}
        self.gaps = {}
        self.throws = {}
        self.throw_is_violation = False
        self.huge_alloc_is_violation = False
        self.replay = None
        self.real_mode = False
        self.real_timeout_ms = 120000
        self.samples = []
        self.max_samples = 6
        self.trace_ends = bool(os.environ.get("TRACEENDS"))
        self.progress = bool(os.environ.get("PROGRESS"))
        self.entry_name = ""
        self.entry_args = []
        self.B = 2                      # cap on symbolic counts / lengths (B+1 smallest values are explored)
        self.max_input = 512            # cap on lazily created input bytes
        self.max_instr = 5_000_000      # per-path instruction budget
        self.max_depth = 400
        self.max_alloc = 1 << 24
        self.deadline = None
        self.solver.set("timeout", 60000)

    # ---------- object allocation
    def new_obj(self, st, size, kind, name=""):
        oid = self.next_obj
        self.next_obj += 1
        base = self.next_base
        self.next_base += (size + 31) // 16 * 16 + 16
        o = Obj(size, kind, name, st.tok, base)
        st.mem[oid] = o
        return oid

    def global_ptr(self, st, gv):
        nm = ll.name(gv)
        oid = self.gobj.get(nm)
        if oid is not None:
            return Ptr(oid, 0)
        vt = ll.GlobalGetValueType(gv)
        init = ll.GetInitializer(gv) if not ll.IsDeclaration(gv) else None
        size = self.m.sizeof(vt) if ll.GetTypeKind(vt) not in (9,) else 8
        if init is None:
            size = max(size, 256)
        oid = self.new_obj(self.gstate, size, "global", nm)
        self.gobj[nm] = oid
        if init is not None:
            self.write_const(self.gstate, oid, 0, init)
        return Ptr(oid, 0)

    def func_ptr(self, f):
        nm = ll.name(f)
        oid = self.fobj.get(nm)
        if oid is None:
            oid = self.new_obj(self.gstate, 1, "func", nm)
            self.fobj[nm] = oid
            self.objfn[oid] = nm
        return Ptr(oid, 0)

    def write_const(self, st, oid, off, c):
        """write constant initializer c into object"""
        t = self.m.ty(ll.TypeOf(c))
        vk = ll.VK[ll.GetValueKind(c)]
        if vk == "const_aggregate_zero" or vk == "undef" or vk == "poison":
            return
        if vk in ("constant_struct",):
            for i, (fo, ft) in enumerate(t[1]):
                self.write_const(st, oid, off + fo, ll.GetOperand(c, i))
            return
        if vk in ("constant_array", "constant_vector"):
            es = t[3]
            for i in range(t[1]):
                self.write_const(st, oid, off + i * es, ll.GetOperand(c, i))
            return
        if vk in ("const_data_array", "const_data_vector"):
            es = t[3]
            if t[2] == ("int", 8):
                b = ll.as_bytes(c)
                o = st.mem[oid]
                o.data[off:off + len(b)] = list(b)
                return
            for i in range(t[1]):
                self.write_const(st, oid, off + i * es, ll.GetElementAsConstant(c, i))
            return
        v = self.const_value(c)
        self.store(st, Ptr(oid, off), v, t)

    def const_value(self, c):
        vk = ll.VK[ll.GetValueKind(c)]
        t = self.m.ty(ll.TypeOf(c))
        if vk == "const_int":
            return ll.ConstIntGetZExtValue(c) & mask(t[1]) if t[1] <= 64 else self._bigint(c, t[1])
        if vk == "const_fp":
            lost = C.c_int()
            return ll.ConstRealGetDouble(c, C.byref(lost))
        if vk == "const_pointer_null":
            return NULL
        if vk in ("undef", "poison"):
            return self.zero_of(t)
        if vk == "const_aggregate_zero":
            return self.zero_of(t)
        if vk == "global_variable":
            return self.global_ptr(self.gstate, c)
        if vk == "function":
            return self.func_ptr(c)
        if vk == "global_alias":
            return self.const_value(ll.AliasGetAliasee(c))
        if vk == "constant_expr":
            opc = ll.OPC[ll.GetConstOpcode(c)]
            if opc in ("bitcast", "addrspacecast"):
                return self.const_value(ll.GetOperand(c, 0))
            if opc == "getelementptr":
                base = self.const_value(ll.GetOperand(c, 0))
                st = ll.GetGEPSourceElementType(c)
                idx = [self.const_value(ll.GetOperand(c, i)) for i in range(1, ll.GetNumOperands(c))]
                off = self.gep_offset(st, idx)
                return Ptr(base.obj, base.off + off)
            if opc == "ptrtoint":
                return self.const_value(ll.GetOperand(c, 0))
            if opc == "inttoptr":
                v = self.const_value(ll.GetOperand(c, 0))
                return v if isinstance(v, Ptr) else Ptr(0, v)
            if opc in ("sub", "add"):
                a = self.const_value(ll.GetOperand(c, 0))
                b = self.const_value(ll.GetOperand(c, 1))
                return self.binop(opc, a, b, t[1])
            raise NotImplementedError("constexpr " + opc + " " + ll.vstr(c))
        if vk in ("constant_struct", "constant_array", "constant_vector"):
            return [self.const_value(ll.GetOperand(c, i)) for i in range(ll.GetNumOperands(c))]
        if vk in ("const_data_array", "const_data_vector"):
            return [self.const_value(ll.GetElementAsConstant(c, i)) for i in range(t[1])]
        raise NotImplementedError("const kind " + vk + " " + ll.vstr(c))

    def _bigint(self, c, w):
        s = ll.vstr(c).split()[-1]
        return int(s) & mask(w)

    def zero_of(self, t):
        k = t[0]
        if k == "int":
            return 0
        if k == "ptr":
            return NULL
        if k in ("float", "double"):
            return 0.0
        if k == "struct":
            return [self.zero_of(ft) for (_, ft) in t[1]]
        if k in ("array", "vector"):
            return [self.zero_of(t[2]) for _ in range(t[1])]
        raise NotImplementedError(t)

    def gep_offset(self, srcty, idx):
        """constant or symbolic offset; idx python ints / z3"""
        off = 0
        # first index scales by sizeof(srcty)
        t = srcty
        first = True
        for i in idx:
            if first:
                sz = self.m.sizeof(t)
                off = self.add_off(off, i, sz)
                first = False
                continue
            k = ll.TK[ll.GetTypeKind(t)]
            if k == "struct":
                off = self.add_off(off, ll.OffsetOfElement(self.m.dl, t, i), 1)
                t = ll.StructGetTypeAtIndex(t, i)
            else:
                t = ll.GetElementType(t)
                off = self.add_off(off, i, self.m.sizeof(t))
        return off

    @staticmethod
    def add_off(off, i, scale):
        if is_sym(i):
            if i.size() < 64:
                i = z3.SignExt(64 - i.size(), i)
            term = i * scale if scale != 1 else i
            return (off + term) if is_sym(off) or off else term
        i = to_signed(i & M64, 64) if i >= 0 else i
        if is_sym(off):
            return off + (i * scale)
        return off + i * scale

    # ---------- decode
    def decode(self, name):
        f = self.decoded.get(name)
        if f:
            return f
        fv = self.m.funcs[name]
        fn = Func()
        fn.name = name
        slots = {}
        nparams = ll.CountParams(fv)
        for i in range(nparams):
            slots[ll.GetParam(fv, i)] = len(slots)
        fn.nparams = nparams
        bbs = []
        bb = ll.GetFirstBasicBlock(fv)
        bbindex = {}
        while bb:
            bbindex[bb] = len(bbs)
            bbs.append(bb)
            bb = ll.GetNextBasicBlock(bb)
        # assign slots
        for bb in bbs:
            i = ll.GetFirstInstruction(bb)
            while i:
                slots[i] = len(slots)
                i = ll.GetNextInstruction(i)
        fn.nslots = len(slots)

        def opnd(v):
            s = slots.get(v)
            if s is not None:
                return ("r", s)
            vk = ll.VK[ll.GetValueKind(v)]
            if vk == "basic_block":
                return ("b", bbindex[ll.ValueAsBasicBlock(v)])
            if vk in ("metadata_as_value", "inline_asm"):
                return ("c", None)
            return ("c", self.const_value(v))

        fn.blocks = []
        for bb in bbs:
            ins = []
            i = ll.GetFirstInstruction(bb)
            while i:
                I = Instr()
                I.op = ll.OPC[ll.GetInstructionOpcode(i)]
                I.dst = slots[i]
                I.ty = self.m.ty(ll.TypeOf(i))
                I.x = None
                I.text = None
                n = ll.GetNumOperands(i)
                op = I.op
                if op == "phi":
                    inc = {}
                    for k in range(ll.CountIncoming(i)):
                        inc[bbindex[ll.GetIncomingBlock(i, k)]] = opnd(ll.GetIncomingValue(i, k))
                    I.a = inc
                elif op in ("call", "invoke"):
                    na = ll.GetNumArgOperands(i)
                    I.a = [opnd(ll.GetOperand(i, k)) for k in range(na)]
                    cv = ll.GetCalledValue(i)
                    if ll.VK[ll.GetValueKind(cv)] == "global_alias":
                        cv = ll.AliasGetAliasee(cv)
                    if ll.VK[ll.GetValueKind(cv)] == "function":
                        I.x = ("direct", ll.name(cv))
                    elif ll.VK[ll.GetValueKind(cv)] == "inline_asm":
                        I.x = ("asm", None)
                    else:
                        I.x = ("indirect", opnd(cv))
                    if op == "invoke":
                        I.x = I.x + (bbindex[ll.GetNormalDest(i)], bbindex[ll.GetUnwindDest(i)])
                elif op == "br":
                    if ll.IsConditional(i):
                        I.a = [opnd(ll.GetCondition(i))]
                        I.x = (bbindex[ll.GetSuccessor(i, 0)], bbindex[ll.GetSuccessor(i, 1)])
                    else:
                        I.a = []
                        I.x = (bbindex[ll.GetSuccessor(i, 0)],)
                elif op == "switch":
                    I.a = [opnd(ll.GetOperand(i, 0))]
                    cases = []
                    for k in range(2, n, 2):
                        cases.append((self.const_value(ll.GetOperand(i, k)), bbindex[ll.ValueAsBasicBlock(ll.GetOperand(i, k + 1))]))
                    I.x = (bbindex[ll.GetSwitchDefaultDest(i)], cases)
                else:
                    I.a = [opnd(ll.GetOperand(i, k)) for k in range(n)]
                    if op == "icmp":
                        I.x = ll.ICMP[ll.GetICmpPredicate(i)]
                        ot = self.m.ty(ll.TypeOf(ll.GetOperand(i, 0)))
                        I.text = ot[1] if ot[0] == "int" else 64
                    elif op == "fcmp":
                        I.x = ll.FCMP[ll.GetFCmpPredicate(i)]
                    elif op == "alloca":
                        at = ll.GetAllocatedType(i)
                        I.x = self.m.sizeof(at)
                    elif op == "getelementptr":
                        I.x = ll.GetGEPSourceElementType(i)
                        # all-constant indices: fold the offset at decode time
                        if all(o[0] == "c" and isinstance(o[1], int) for o in I.a[1:]):
                            I.text = self.gep_offset(I.x, [o[1] for o in I.a[1:]])
                    elif op in ("extractvalue", "insertvalue"):
                        ni = ll.GetNumIndices(i)
                        p = ll.GetIndices(i)
                        I.x = [p[k] for k in range(ni)]
                    elif op == "store":
                        I.ty = self.m.ty(ll.TypeOf(ll.GetOperand(i, 0)))
                    elif op in ("trunc", "zext", "sext", "fptoui", "fptosi", "uitofp", "sitofp", "fptrunc", "fpext", "bitcast"):
                        I.x = self.m.ty(ll.TypeOf(ll.GetOperand(i, 0)))
                    elif op == "atomicrmw":
                        I.x = ll.GetAtomicRMWBinOp(i)
                    elif op == "shufflevector":
                        I.x = [ll.GetMaskValue(i, k) for k in range(ll.GetNumMaskElements(i))]
                if op in ("add", "sub", "mul", "udiv", "sdiv", "urem", "srem", "shl", "lshr", "ashr", "and", "or", "xor"):
                    pass
                ins.append(I)
                i = ll.GetNextInstruction(i)
            fn.blocks.append(ins)
        self.decoded[name] = fn
        return fn

    # ---------- memory
    def get_obj_w(self, st, oid):
        o = st.mem.get(oid)
        if o is None:
            o = self.gstate.mem.get(oid)
            if o is None:
                raise Violation("access to unknown object %d" % oid)
        if o.owner is not st.tok:
            n = Obj.__new__(Obj)
            n.size = o.size
            n.data = list(o.data)
            n.kind = o.kind
            n.name = o.name
            n.owner = st.tok
            n.freed = o.freed
            n.base = o.base
            st.mem[oid] = n
            o = n
        return o

    def get_obj_r(self, st, oid):
        o = st.mem.get(oid)
        if o is None:
            o = self.gstate.mem.get(oid)
        return o

    def resolve(self, st, p):
        if p.obj == 0 and not is_sym(p.off) and p.off >= 0x10000:
            import bisect
            # linear scan over objects (spike)
            for mem in (st.mem, self.gstate.mem):
                for oid, o in mem.items():
                    if o.base <= p.off <= o.base + o.size:
                        return Ptr(oid, p.off - o.base)
        return p

    def check_access(self, st, p, n, what):
        if p.obj == 0:
            p2 = self.resolve(st, p)
            if p2.obj != 0:
                p.obj, p.off = p2.obj, p2.off
        if p.obj == 0:
            raise self.violation(st, "null/invalid pointer %s (%s)" % (what, p), aid="memory")
        o = self.get_obj_r(st, p.obj)
        if o is None:
            raise self.violation(st, "dangling object", aid="memory")
        if o.freed:
            raise self.violation(st, "use after free " + what, aid="memory")
        off = p.off
        if is_sym(off):
            # can it be out of bounds?
            oob = z3.Or(z3.ULT(z3.BitVecVal(o.size - n, 64), off)) if o.size >= n else z3.BoolVal(True)
            if self.sat(st, oob):
                raise self.violation(st, "out-of-bounds %s sym offset, obj %s size %d" % (what, o.name, o.size), oob, aid="memory")
            return o, None
        if off < 0 or off + n > o.size:
            raise self.violation(st, "out-of-bounds %s off %d n %d obj %s size %d" % (what, off, n, o.name or o.kind, o.size), aid="memory")
        return o, off

    def load(self, st, p, t):
        k = t[0]
        if k == "struct":
            return [self.load(st, Ptr(p.obj, self.add_off(p.off, fo, 1)), ft) for (fo, ft) in t[1]]
        if k in ("array", "vector"):
            return [self.load(st, Ptr(p.obj, self.add_off(p.off, i * t[3], 1)), t[2]) for i in range(t[1])]
        n = tsize(t)
        o, off = self.check_access(st, p, n, "load")
        if off is None:
            return self.load_sym(st, o, p, n, t)
        cells = o.data[off:off + n]
        return self.assemble(cells, n, t)

    def load_sym(self, st, o, p, n, t):
        # large constant tables (e.g. half.hpp's 2048-entry mantissa table): balanced mux tree over every aligned
        # entry of the table (the bounds check has already been discharged), no enumeration of feasible offsets
        if o.kind == "global" and o.size >= 64 * n and t[0] != "ptr" and all(type(c) is int for c in o.data) \
                and not self.sat(st, z3.URem(p.off, z3.BitVecVal(n, 64)) != 0):
            offs = list(range(0, o.size - n + 1, n))
            w = n * 8
            leaves = [z3.BitVecVal(int.from_bytes(bytes(o.data[c:c + n]), "little"), w) for c in offs]

            def tree(lo, hi):
                if lo == hi:
                    return leaves[lo]
                mid = (lo + hi + 1) // 2
                return z3.If(z3.ULT(p.off, z3.BitVecVal(offs[mid], 64)), tree(lo, mid - 1), tree(mid, hi))
            res = tree(0, len(offs) - 1)
            if t[0] in ("float", "double"):
                return ("fbits", res)
            if t[0] == "int" and t[1] != w:
                res = z3.Extract(t[1] - 1, 0, res)
            return res
        # ite chain over feasible aligned offsets
        res = None
        offs = self.values(st, p.off, 1030)
        if len(offs) > 1024:
            raise NotImplementedError("too many symbolic offsets")
        vals = [(c, self.assemble(o.data[c:c + n], n, t)) for c in offs]
        if len(vals) == 1:
            return vals[0][1]
        if any(isinstance(v, Ptr) for _, v in vals):
            # pointers must stay concrete: fork on the offset value
            for c, v in vals[1:]:
                o2 = self.fork(st)
                self.add_pc(o2, p.off == c)
                o2.frames[-1].ip -= 1
                self.work.append(o2)
                self.stats["forks"] += 1
            self.add_pc(st, p.off == vals[0][0])
            return vals[0][1]
        w = n * 8
        res = self.tobv(vals[-1][1], t, w)
        for c, v in reversed(vals[:-1]):
            res = z3.If(p.off == c, self.tobv(v, t, w), res)
        res = z3.simplify(res)
        if t[0] in ("float", "double"):
            return ("fbits", res)
        if t[0] == "int" and t[1] != w:
            res = z3.Extract(t[1] - 1, 0, res)
        return res

    def tobv(self, v, t, w):
        if isinstance(v, tuple) and v[0] == "fbits":
            return v[1]
        if t[0] == "float" and not is_sym(v):
            return z3.BitVecVal(struct.unpack("<I", struct.pack("<f", v))[0], 32)
        if t[0] == "double" and not is_sym(v):
            return z3.BitVecVal(struct.unpack("<Q", struct.pack("<d", v))[0], 64)
        if is_sym(v) and z3.is_bool(v):
            v = bv(v, 1)
        if is_sym(v):
            return z3.ZeroExt(w - v.size(), v) if v.size() < w else v
        return z3.BitVecVal(v, w)

    def assemble(self, cells, n, t):
        c0 = cells[0]
        if type(c0) is tuple and c0[0] == "f":
            # Real-mode float cell group: must be read back whole
            if all(type(c) is tuple and c[0] == "f" and c[1] is c0[1] and c[2] == i for i, c in enumerate(cells)) and c0[3] == n:
                return ("real", c0[1])
            raise NotImplementedError("partial access to a Real-mode float")
        if all(type(c) is int for c in cells):
            v = int.from_bytes(bytes(cells), "little")
            k = t[0]
            if k == "int":
                return v & mask(t[1])
            if k == "ptr":
                return Ptr(0, v)
            if k == "float":
                return struct.unpack("<f", struct.pack("<I", v))[0]
            if k == "double":
                return struct.unpack("<d", struct.pack("<Q", v))[0]
        if type(c0) is tuple:
            tag = c0[0]
            if tag == "p" and n == 8 and all(type(c) is tuple and c[0] == "p" and c[1] is c0[1] and c[2] == i for i, c in enumerate(cells)):
                return c0[1]
            if tag == "e" and c0[2] == 0 and all(type(c) is tuple and c[0] == "e" and c[1] is c0[1] and c[2] == i for i, c in enumerate(cells)):
                e = c0[1]
                if e.size() == n * 8:
                    if t[0] in ("float", "double"):
                        return ("fbits", e)
                    if t[0] == "int" and t[1] < n * 8:
                        return z3.Extract(t[1] - 1, 0, e)
                    return e
        # generic: concat bytes
        parts = []
        for c in cells:
            if type(c) is int:
                parts.append(z3.BitVecVal(c, 8))
            elif c[0] == "e":
                parts.append(z3.Extract(c[2] * 8 + 7, c[2] * 8, c[1]))
            else:
                raise NotImplementedError("partial pointer load")
        e = z3.simplify(z3.Concat(*reversed(parts))) if len(parts) > 1 else parts[0]
        if t[0] in ("float", "double"):
            return ("fbits", e)
        if t[0] == "int" and t[1] < n * 8:
            return z3.Extract(t[1] - 1, 0, e)
        if t[0] == "ptr":
            raise NotImplementedError("symbolic pointer load")
        return e

    def store(self, st, p, v, t):
        k = t[0]
        if k == "struct":
            for (fo, ft), fv in zip(t[1], v):
                self.store(st, Ptr(p.obj, self.add_off(p.off, fo, 1)), fv, ft)
            return
        if k in ("array", "vector"):
            for i, fv in enumerate(v):
                self.store(st, Ptr(p.obj, self.add_off(p.off, i * t[3], 1)), fv, t[2])
            return
        n = tsize(t)
        o, off = self.check_access(st, p, n, "store")
        cells = self.disassemble(v, n, t)
        if off is None:
            # symbolic offset store: conditional update of feasible cells
            cands = self.values(st, p.off)
            o = self.get_obj_r(st, p.obj)
            hasptr = isinstance(v, (Ptr, Lin)) or any(type(c) is tuple and c[0] == "p" for cand in cands for c in o.data[cand:cand + n])
            if hasptr or len(cands) == 1:
                for c in cands[1:]:
                    o2 = self.fork(st)
                    self.add_pc(o2, p.off == c)
                    o2.frames[-1].ip -= 1
                    self.work.append(o2)
                    self.stats["forks"] += 1
                if len(cands) > 1:
                    self.add_pc(st, p.off == cands[0])
                o = self.get_obj_w(st, p.obj)
                o.data[cands[0]:cands[0] + n] = cells
                return
            o = self.get_obj_w(st, p.obj)
            w = n * 8
            newv = self.tobv(v, t, w)
            for cand in cands:
                if True:
                    old = self.tobv(self.assemble(o.data[cand:cand + n], n, ("int", w)), ("int", w), w)
                    e = z3.simplify(z3.If(p.off == cand, newv, old))
                    for i in range(n):
                        o.data[cand + i] = ("e", e, i)
            return
        o = self.get_obj_w(st, p.obj)
        if o.kind == "func":
            raise self.violation(st, "store to function", aid="memory")
        o.data[off:off + n] = cells

    def disassemble(self, v, n, t):
        if isinstance(v, Ptr):
            if v.obj == 0 and not is_sym(v.off):
                return list((v.off & M64).to_bytes(8, "little"))[:n]
            return [("p", v, i) for i in range(n)]
        if isinstance(v, tuple) and v[0] == "fbits":
            e = v[1]
            return [("e", e, i) for i in range(n)]
        if isinstance(v, tuple) and v[0] == "real":
            return [("f", v[1], i, n) for i in range(n)]
        if is_sym(v):
            if z3.is_bool(v):
                v = bv(v, 8)
            if z3.is_fp(v):
                v = z3.fpToIEEEBV(v)
            if v.size() < n * 8:
                v = z3.ZeroExt(n * 8 - v.size(), v)
            return [("e", v, i) for i in range(n)]
        k = t[0]
        if k == "float":
            return list(struct.pack("<f", f32round(v)))
        if k == "double":
            return list(struct.pack("<d", v))
        return list((v & mask(n * 8)).to_bytes(n, "little"))

    # ---------- solver
    def add_pc(self, st, c):
        st.pc.append(c)
        m = getattr(st, "lastmodel", None)
        if m is not None:
            try:
                if not z3.is_true(m.eval(c, model_completion=True)):
                    st.lastmodel = None
            except z3.Z3Exception:
                st.lastmodel = None

    def sync(self, st):
        s = self.solver
        stack = self.sstack
        pc = st.pc
        k = 0
        n = min(len(stack), len(pc))
        while k < n and stack[k] is pc[k]:
            k += 1
        for _ in range(len(stack) - k):
            s.pop()
        del stack[k:]
        for c in pc[k:]:
            s.push()
            s.add(c)
            stack.append(c)

    def sat(self, st, cond, want_model=False):
        """is cond satisfiable together with the path constraint of st?"""
        if not is_sym(cond):
            return bool(cond)
        cond = z3.simplify(cond)
        if z3.is_true(cond):
            return True
        if z3.is_false(cond):
            return False
        # facts cache: conditions already known to be valid / unsatisfiable under (a prefix of) this path
        known = st.known
        cid = cond.get_id()
        k = known.get(cid)
        if k is not None:
            self.stats["facthit"] = self.stats.get("facthit", 0) + 1
            return k[0]
        neg = None
        if z3.is_not(cond):
            neg = cond.arg(0)
            k = known.get(neg.get_id())
            if k is not None and k[2]:
                # the negation is valid -> cond unsat; the negation is unsat -> cond valid
                self.stats["facthit"] = self.stats.get("facthit", 0) + 1
                return not k[0]
        m = st.lastmodel
        if m is not None:
            try:
                if z3.is_true(m.eval(cond, model_completion=True)):
                    self.stats["cachehit"] = self.stats.get("cachehit", 0) + 1
                    return True
            except z3.Z3Exception:
                pass
        t0 = time.time()
        if self.real_mode and not isinstance(self.solver, NraSolver):
            # non-linear real arithmetic: one-shot queries to the nlsat-based QF_NRA solver (the incremental
            # default solver answers "unknown" on these)
            self.solver = NraSolver(self.real_timeout_ms)
            self.sstack = []
        self.sync(st)
        s = self.solver
        s.push()
        s.add(cond)
        r = s.check()
        if r == z3.sat and st.lastmodel is None:
            st.lastmodel = s.model()
        s.pop()
        self.stats["queries"] += 1
        self.stats["qtime"] += time.time() - t0
        if r == z3.unknown:
            raise PathEnd("unknown", "solver unknown: " + str(s.reason_unknown())[:100])
        if r == z3.unsat:
            # (satisfiable?, expr kept alive so that the AST id is not recycled, decided=valid-or-unsat)
            known[cid] = (False, cond, True)
        return r == z3.sat

    def note_valid(self, st, cond):
        """record that cond is implied by the path constraint of st"""
        if is_sym(cond):
            c = z3.simplify(cond)
            if not (z3.is_true(c) or z3.is_false(c)):
                st.known[c.get_id()] = (True, c, True)

    def values(self, st, x, limit=65):
        """enumerate feasible values of bitvector x (up to limit)"""
        self.sync(st)
        s = self.solver
        s.push()
        out = []
        while len(out) < limit:
            r = s.check()
            self.stats["queries"] += 1
            if r != z3.sat:
                break
            v = s.model().eval(x, model_completion=True).as_long()
            out.append(v)
            s.add(x != v)
        s.pop()
        return sorted(out)

    def model(self, st, extra=None):
        self.sync(st)
        s = self.solver
        s.push()
        if extra is not None:
            s.add(extra)
        r = s.check()
        m = s.model() if r == z3.sat else None
        out = {}
        if m is not None:
            for d in m.decls():
                out[d.name()] = m[d]
        s.pop()
        return out

    def violation(self, st, msg, extra=None, aid=None):
        """record a counterexample for the current path (+extra) and return the PathEnd to raise"""
        rp = self.replay_of(st, extra)
        if rp is None and extra is not None:
            rp = self.replay_of(st)
        model = {}
        if rp is not None:
            m = rp.pop("_model", None)
            if m is not None:
                for d in m.decls():
                    try:
                        model[d.name()] = m[d].as_long()
                    except Exception:
                        model[d.name()] = str(m[d])
        stack = [fr.fn.name for fr in reversed(st.frames[-8:])]
        self.violations.append({"msg": msg, "aid": aid or msg.split(":")[0], "stack": stack, "model": model,
                                "replay": rp, "reached": list(st.reached),
                                "user": {k: v for k, v in st.user.items() if isinstance(v, (int, float, str, bool)) and not str(k).startswith("_")}})
        return PathEnd("violation", msg)

    def minval(self, st, x, above=None):
        """smallest feasible unsigned value of x under pc (and > above): windowed search, few queries in the
        common case of small counts"""
        self.sync(st)
        s = self.solver
        w = x.size()
        s.push()
        try:
            if above is not None:
                s.add(z3.UGT(x, above))
            lo = 0 if above is None else above + 1
            # try the immediate candidate first (counts are usually unconstrained)
            s.push()
            s.add(x == lo)
            r = s.check()
            self.stats["queries"] += 1
            s.pop()
            if r == z3.sat:
                return lo
            if r == z3.unknown:
                raise PathEnd("unknown", "solver unknown")
            v = None
            for hi in (lo + 64, lo + 4096, (1 << w) - 1):
                hi = min(hi, (1 << w) - 1)
                s.push()
                s.add(z3.ULE(x, hi))
                r = s.check()
                self.stats["queries"] += 1
                if r == z3.sat:
                    v = s.model().eval(x, model_completion=True).as_long()
                s.pop()
                if r == z3.unknown:
                    raise PathEnd("unknown", "solver unknown")
                if v is not None:
                    break
            if v is None:
                return None
            # binary search in (lo, v]
            lo += 1
            while lo < v:
                mid = (lo + v - 1) // 2
                s.push()
                s.add(z3.ULE(x, mid))
                r = s.check()
                self.stats["queries"] += 1
                if r == z3.sat:
                    v = s.model().eval(x, model_completion=True).as_long()
                elif r == z3.unsat:
                    lo = mid + 1
                else:
                    s.pop()
                    raise PathEnd("unknown", "solver unknown")
                s.pop()
            return v
        finally:
            s.pop()

    def concretize(self, st, x, maxvals=None, what="value"):
        """return a concrete value of x for st; fork the other small feasible values (each re-executes the current
        instruction); values beyond the maxvals smallest are cut and counted in bound_cuts"""
        if not is_sym(x):
            return x
        if z3.is_bool(x):
            x = bv(x, 8)
        if maxvals is None:
            maxvals = self.B + 1
        vals = []
        above = None
        while len(vals) < maxvals:
            v = self.minval(st, x, above)
            if v is None:
                break
            vals.append(v)
            above = v
            if v == (1 << x.size()) - 1:
                break
        if not vals:
            raise PathEnd("infeasible")
        if len(vals) == maxvals and vals[-1] != (1 << x.size()) - 1 and self.sat(st, z3.UGT(x, vals[-1])):
            self.stats["bound_cuts"] = self.stats.get("bound_cuts", 0) + 1
        for i, v in enumerate(vals[1:]):
            o = self.fork(st)
            self.add_pc(o, x == v)
            o.frames[-1].ip -= 1
            o.prio = st.prio + i + 1
            self.work.append(o)
            self.stats["forks"] += 1
        self.add_pc(st, x == vals[0])
        return vals[0]

    def concrete_ptr(self, st, p, what="pointer", limit=64):
        """make the offset of p concrete: fork one state per feasible offset (re-executing the instruction)"""
        if not isinstance(p, Ptr) or not is_sym(p.off):
            return p
        vals = self.values(st, p.off, limit + 1)
        if not vals:
            raise PathEnd("infeasible")
        if len(vals) > limit:
            raise NotImplementedError("too many feasible offsets for " + what)
        for v in vals[1:]:
            o = self.fork(st)
            self.add_pc(o, p.off == v)
            o.frames[-1].ip -= 1
            self.work.append(o)
            self.stats["forks"] += 1
        if len(vals) > 1:
            self.add_pc(st, p.off == vals[0])
        return Ptr(p.obj, to_signed(vals[0], 64))

    # ---------- values
    def fresh(self, name, w, st=None, log=True):
        rp = self.replay
        if rp is not None:
            # concrete replay mode: every symbolic input is fixed to the recorded model value
            if log:
                k = rp.setdefault("_pos", 0)
                vals = rp["values"]
                rp["_pos"] = k + 1
                v = vals[k][2] if k < len(vals) else 0
                (st or self.cur).symlog.append((name, w, z3.BitVecVal(v, w)))
                return v & mask(w)
            if name == "T":
                return (rp.get("trunc") or 0) & mask(w)
            if name.startswith("in"):
                b = bytes.fromhex(rp.get("input", ""))
                i = int(name[2:])
                return b[i] if i < len(b) else 0
            return 0
        self.symcount += 1
        v = z3.BitVec("%s_%d" % (name, self.symcount), w)
        if log:
            (st or self.cur).symlog.append((name, w, v))
        return v

    def binop(self, op, a, b, w):
        if isinstance(a, (Ptr, Lin)) or isinstance(b, (Ptr, Lin)):
            return self.ptr_binop(op, a, b, w)
        if not is_sym(a) and not is_sym(b):
            m = mask(w)
            if op == "add":
                return (a + b) & m
            if op == "sub":
                return (a - b) & m
            if op == "mul":
                return (a * b) & m
            if op == "and":
                return a & b
            if op == "or":
                return a | b
            if op == "xor":
                return a ^ b
            if op == "shl":
                return (a << b) & m if b < w else 0
            if op == "lshr":
                return a >> b if b < w else 0
            if op == "ashr":
                return (to_signed(a, w) >> min(b, w - 1)) & m
            if op == "udiv":
                return a // b
            if op == "urem":
                return a % b
            if op == "sdiv":
                sa, sb = to_signed(a, w), to_signed(b, w)
                q = abs(sa) // abs(sb)
                return (q if (sa < 0) == (sb < 0) else -q) & m
            if op == "srem":
                sa, sb = to_signed(a, w), to_signed(b, w)
                r = abs(sa) % abs(sb)
                return (r if sa >= 0 else -r) & m
            raise NotImplementedError(op)
        if w == 1:
            A, B = boolz(a), boolz(b)
            if op == "and":
                return z3.And(A, B)
            if op == "or":
                return z3.Or(A, B)
            if op == "xor":
                return z3.Xor(A, B)
            if op in ("add", "sub"):
                return z3.Xor(A, B)
        A, B = bv(a, w), bv(b, w)
        if op == "add":
            return A + B
        if op == "sub":
            return A - B
        if op == "mul":
            return A * B
        if op == "and":
            return A & B
        if op == "or":
            return A | B
        if op == "xor":
            return A ^ B
        if op == "shl":
            return A << B
        if op == "lshr":
            return z3.LShR(A, B)
        if op == "ashr":
            return A >> B
        if op == "udiv":
            return z3.UDiv(A, B)
        if op == "urem":
            return z3.URem(A, B)
        if op == "sdiv":
            return A / B
        if op == "srem":
            return z3.SRem(A, B)
        raise NotImplementedError(op)

    def ptr_binop(self, op, a, b, w):
        if op in ("add", "sub"):
            def lin(v):
                if isinstance(v, Lin):
                    return dict(v.objs), v.off
                if isinstance(v, Ptr):
                    return ({v.obj: 1} if v.obj else {}), v.off
                return {}, v
            ao, aoff = lin(a)
            bo, boff = lin(b)
            sgn = 1 if op == "add" else -1
            for k, c in bo.items():
                ao[k] = ao.get(k, 0) + sgn * c
                if ao[k] == 0:
                    del ao[k]
            off = self.binop(op, aoff, boff, 64)
            if not ao:
                return off
            if len(ao) == 1 and list(ao.values())[0] == 1:
                if not is_sym(off):
                    off = to_signed(off, 64)
                return Ptr(list(ao.keys())[0], off)
            return Lin(ao, off)
        if op in ("and", "or", "xor", "lshr", "urem", "shl", "ashr", "mul", "udiv"):
            A = self.addr(a) if isinstance(a, (Ptr, Lin)) else a
            B = self.addr(b) if isinstance(b, (Ptr, Lin)) else b
            return self.binop(op, A, B, w)
        raise NotImplementedError("ptr binop %s %s %s" % (op, a, b))

    def addr(self, p):
        if isinstance(p, Lin):
            t = p.off
            for k, c in p.objs.items():
                o = self.gstate.mem.get(k) or self.cur.mem.get(k)
                t = t + c * o.base
            return t & M64 if not is_sym(t) else t
        if p.obj == 0:
            return p.off
        o = self.gstate.mem.get(p.obj) or self.cur.mem.get(p.obj)
        if is_sym(p.off):
            return p.off + o.base
        return (o.base + p.off) & M64

    def icmp(self, pred, a, b, w):
        if isinstance(a, Lin):
            a = self.addr(a)
        if isinstance(b, Lin):
            b = self.addr(b)
        if isinstance(a, Ptr) or isinstance(b, Ptr):
            if not isinstance(a, Ptr):
                a = Ptr(0, a)
            if not isinstance(b, Ptr):
                b = Ptr(0, b)
            if a.obj == b.obj:
                a, b, w = a.off, b.off, 64
                if pred in ("ult", "ule", "ugt", "uge"):
                    pred = "s" + pred[1:]
            elif pred in ("eq", "ne") and not is_sym(a.off) and not is_sym(b.off):
                return 1 if pred == "ne" else 0
            else:
                a, b, w = self.addr(a), self.addr(b), 64
        if not is_sym(a) and not is_sym(b):
            if pred[0] == "s":
                a, b = to_signed(a, w), to_signed(b, w)
            return int({"eq": a == b, "ne": a != b, "ugt": a > b, "uge": a >= b, "ult": a < b, "ule": a <= b,
                        "sgt": a > b, "sge": a >= b, "slt": a < b, "sle": a <= b}[pred])
        if w == 1:
            A, B = boolz(a), boolz(b)
            if pred == "eq":
                return A == B
            if pred == "ne":
                return A != B
        A, B = bv(a, w), bv(b, w)
        r = {"eq": lambda: A == B, "ne": lambda: A != B, "ugt": lambda: z3.UGT(A, B), "uge": lambda: z3.UGE(A, B),
             "ult": lambda: z3.ULT(A, B), "ule": lambda: z3.ULE(A, B), "sgt": lambda: A > B, "sge": lambda: A >= B,
             "slt": lambda: A < B, "sle": lambda: A <= B}[pred]()
        return r

    # ---------- execution
    def ctor_names(self):
        ctors = []
        gc = self.m.globals.get("llvm.global_ctors")
        if gc:
            init = ll.GetInitializer(gc)
            for i in range(ll.GetNumOperands(init)):
                ent = ll.GetOperand(init, i)
                f = ll.GetOperand(ent, 1)
                if ll.VK[ll.GetValueKind(f)] == "function":
                    ctors.append(ll.name(f))
        return ctors

    def run(self, entry, args, budget=None, seed=0, max_paths=None):
        g = State()
        self.gstate = g
        self.cur = g
        st = self.fork(g)
        st.mem = {}
        fn = self.decode(entry)
        self.push_frame(st, fn, list(args), None)
        # static initialisers run first (pushed last)
        for c in reversed(self.ctor_names()):
            self.push_frame(st, self.decode(c), [], None)
        work = WorkList()
        work.append(st)
        self.work = work
        t0 = time.time()
        rnd = random.Random(seed)
        self.deadline = None if budget is None else t0 + budget
        while work:
            if self.deadline is not None and time.time() > self.deadline:
                self.stats["unexplored"] = len(work)
                break
            if max_paths is not None and self.stats["paths"] >= max_paths:
                self.stats["unexplored"] = len(work)
                break
            # DFS by default; once half of the budget is gone pick states at random so that
            # the explored part is spread over the tree
            st = work.pop()
            self.cur = st
            try:
                self.exec_path(st, work)
                kind = "ok"
            except PathEnd as e:
                kind = e.kind
                st.endmsg = e.msg
                if self.trace_ends:
                    print("PATHEND", e.kind, e.msg, "|", self.stack_str(st), file=sys.stderr)
            except NotImplementedError as e:
                kind = "engine-gap"
                self.gaps[str(e)[:160]] = self.gaps.get(str(e)[:160], 0) + 1
                if self.trace_ends:
                    print("ENGINE-GAP", e, "|", self.stack_str(st), file=sys.stderr)
            except z3.Z3Exception as e:
                kind = "engine-gap"
                self.gaps["z3: " + str(e)[:120]] = self.gaps.get("z3: " + str(e)[:120], 0) + 1
                if self.trace_ends:
                    import traceback
                    traceback.print_exc()
            except (TypeError, AttributeError, IndexError, KeyError, ValueError, AssertionError, OverflowError, ZeroDivisionError) as e:
                import traceback
                kind = "engine-gap"
                tb = traceback.extract_tb(e.__traceback__)[-1]
                key = "internal %s: %s @%s:%d" % (type(e).__name__, str(e)[:80], os.path.basename(tb.filename), tb.lineno)
                self.gaps[key] = self.gaps.get(key, 0) + 1
                if self.trace_ends:
                    traceback.print_exc()
            self.stats["paths"] += 1
            self.ends[kind] = self.ends.get(kind, 0) + 1
            if kind == "ok":
                self.on_path_done(st)
            if self.progress and self.stats["paths"] % 50 == 0:
                print("progress", self.stats, self.ends, "work", len(work), file=sys.stderr, flush=True)
        self.stats["wall"] = time.time() - t0

    def stack_str(self, st, n=6):
        return " <- ".join(fr.fn.name[:70] for fr in reversed(st.frames[-n:]))

    def on_path_done(self, st):
        """keep the input model of a few completed paths as evidence samples / validation inputs"""
        if len(self.samples) < self.max_samples and st.reached:
            rp = self.replay_of(st)
            if rp is not None:
                rp["reached"] = list(st.reached)
                rp["out_sha"] = self.out_digest(st, rp.get("_model"))
                rp.pop("_model", None)
                self.samples.append(rp)

    def out_digest(self, st, m):
        import hashlib
        if not st.out:
            return None
        bs = bytearray()
        for c in st.out:
            if type(c) is int:
                bs.append(c)
            elif c[0] == "e" and m is not None:
                v = m.eval(c[1], model_completion=True)
                try:
                    bs.append((v.as_long() >> (8 * c[2])) & 0xFF)
                except Exception:
                    return None
            else:
                return None
        return hashlib.sha256(bytes(bs)).hexdigest()

    def replay_of(self, st, extra=None):
        """concrete input assignment for the path of st (plus optional extra constraint)"""
        self.sync(st)
        s = self.solver
        s.push()
        try:
            if extra is not None:
                s.add(extra)
            r = s.check()
            self.stats["queries"] += 1
            if r != z3.sat:
                return None
            m = s.model()
            vals = []
            for (nm, w, e) in st.symlog:
                v = m.eval(e, model_completion=True)
                if w == "real":
                    # Real-mode input: the native twin receives the nearest single-precision float
                    try:
                        fv = float(v.numerator_as_long()) / float(v.denominator_as_long())
                    except Exception:
                        fv = float(v.approx(12).numerator_as_long()) / float(v.approx(12).denominator_as_long())
                    vals.append([nm, 32, struct.unpack("<I", struct.pack("<f", f32round(fv)))[0]])
                else:
                    vals.append([nm, w, v.as_long()])
            inp = []
            for c in st.inp0:
                if type(c) is int:
                    inp.append(c)
                elif c[0] == "e":
                    inp.append((m.eval(c[1], model_completion=True).as_long() >> (8 * c[2])) & 0xFF)
                else:
                    inp.append(0)
            rp = {"entry": self.entry_name, "args": list(self.entry_args), "values": vals,
                  "input": bytes(inp).hex(), "_model": m}
            if st.trunc is not None:
                rp["trunc"] = m.eval(st.trunc, model_completion=True).as_long()
            return rp
        finally:
            s.pop()

    def fork(self, st):
        n = State()
        n.mem = dict(st.mem)
        n.pc = list(st.pc)
        n.tok = object()
        st.tok = object()
        n.lastmodel = st.lastmodel
        n.known = dict(st.known)
        n.watch = (list(st.watch[0]), list(st.watch[1]))
        n.trunc = st.trunc
        n.inp = list(st.inp)
        n.inp0 = n.inp if st.inp0 is st.inp else list(st.inp0)
        n.inpos = st.inpos
        n.out = list(st.out)
        n.outpos = st.outpos
        n.eof = st.eof
        n.inp_fixed = st.inp_fixed
        n.symlog = list(st.symlog)
        n.reached = list(st.reached)
        n.icount = st.icount
        n.prio = st.prio
        n.user = dict(st.user)
        n.frames = []
        for fr in st.frames:
            f2 = Frame.__new__(Frame)
            f2.fn = fr.fn
            f2.env = list(fr.env)
            f2.bb = fr.bb
            f2.ip = fr.ip
            f2.prev = fr.prev
            f2.ret = fr.ret
            f2.allocas = list(fr.allocas)
            f2.invoke = fr.invoke
            n.frames.append(f2)
        return n

    def push_frame(self, st, fn, args, ret, invoke=None):
        fr = Frame.__new__(Frame)
        fr.fn = fn
        fr.env = [None] * fn.nslots
        fr.env[:len(args)] = args
        fr.bb = 0
        fr.ip = 0
        fr.prev = None
        fr.ret = ret
        fr.allocas = []
        fr.invoke = invoke
        st.frames.append(fr)
        self.fn_exec[fn.name] = self.fn_exec.get(fn.name, 0) + 1
        if len(st.frames) > self.max_depth:
            raise self.violation(st, "stack depth exceeded (unbounded recursion?)", aid="recursion")

    def val(self, fr, o):
        if o[0] == "r":
            return fr.env[o[1]]
        return o[1]

    def exec_path(self, st, work):
        stats = self.stats
        limit = st.icount + 200000
        while st.frames:
            fr = st.frames[-1]
            block = fr.fn.blocks[fr.bb]
            I = block[fr.ip]
            fr.ip += 1
            stats["instr"] += 1
            st.icount += 1
            if st.icount > limit:
                limit = st.icount + 200000
                if st.icount > self.max_instr:
                    raise self.violation(st, "instruction budget exceeded (hang?)", aid="hang")
                if self.deadline is not None and time.time() > self.deadline + 5:
                    raise PathEnd("budget", "time budget")
            op = I.op
            env = fr.env
            a = I.a
            if op == "load":
                p = env[a[0][1]] if a[0][0] == "r" else a[0][1]
                env[I.dst] = self.load(st, p, I.ty)
            elif op == "store":
                v = self.val(fr, a[0])
                p = self.val(fr, a[1])
                self.store(st, p, v, I.ty)
            elif op == "getelementptr":
                base = self.val(fr, a[0])
                if I.text is not None:
                    off = I.text
                else:
                    idx = [self.val(fr, x) for x in a[1:]]
                    off = self.gep_offset(I.x, idx)
                if not isinstance(base, Ptr):
                    base = Ptr(0, base)
                env[I.dst] = Ptr(base.obj, self.add_off(base.off, off, 1)) if (is_sym(off) or off) else base
            elif op == "bitcast":
                v = self.val(fr, a[0])
                env[I.dst] = self.bitcast(v, I.x, I.ty)
            elif op == "br":
                if len(I.x) == 1:
                    self.goto(fr, I.x[0])
                else:
                    c = self.val(fr, a[0])
                    if not is_sym(c):
                        self.goto(fr, I.x[0] if c else I.x[1])
                    else:
                        self.branch(st, work, boolz(c), I.x[0], I.x[1])
            elif op == "icmp":
                x = self.val(fr, a[0])
                y = self.val(fr, a[1])
                w = I.text
                env[I.dst] = self.icmp(I.x, x, y, w)
            elif op == "phi":
                # evaluate all phis of block simultaneously
                vals = []
                k = fr.ip - 1
                while k < len(block) and block[k].op == "phi":
                    vals.append((block[k].dst, self.val(fr, block[k].a[fr.prev])))
                    k += 1
                for d, v in vals:
                    env[d] = v
                stats["instr"] += k - fr.ip
                fr.ip = k
            elif op in ("add", "sub", "mul", "and", "or", "xor", "shl", "lshr", "ashr", "udiv", "sdiv", "urem", "srem"):
                x = self.val(fr, a[0])
                y = self.val(fr, a[1])
                if op in ("udiv", "sdiv", "urem", "srem"):
                    if is_sym(y):
                        z = (bv(y, I.ty[1]) == 0)
                        if self.sat(st, z):
                            raise self.violation(st, "division by zero", z, aid="div0")
                    elif y == 0:
                        raise self.violation(st, "division by zero", aid="div0")
                env[I.dst] = self.binop(op, x, y, I.ty[1])
            elif op in ("call", "invoke"):
                self.do_call(st, fr, I, work)
            elif op == "ret":
                rv = self.val(fr, a[0]) if a else None
                for oid in fr.allocas:
                    o = self.get_obj_w(st, oid)
                    o.freed = True
                st.frames.pop()
                if st.frames:
                    caller = st.frames[-1]
                    if fr.ret is not None:
                        caller.env[fr.ret] = rv
                    if fr.invoke is not None:
                        self.goto(caller, fr.invoke)
            elif op == "alloca":
                n = self.val(fr, a[0])
                oid = self.new_obj(st, I.x * n, "stack", fr.fn.name)
                fr.allocas.append(oid)
                env[I.dst] = Ptr(oid, 0)
            elif op in ("zext", "sext", "trunc"):
                v = self.val(fr, a[0])
                env[I.dst] = self.intcast(op, v, I.x[1] if I.x[0] == "int" else 64, I.ty[1])
            elif op == "select":
                c = self.val(fr, a[0])
                x = self.val(fr, a[1])
                y = self.val(fr, a[2])
                if not is_sym(c):
                    env[I.dst] = x if c else y
                else:
                    env[I.dst] = self.ite(st, work, boolz(c), x, y, I.ty)
            elif op == "ptrtoint":
                env[I.dst] = self.val(fr, a[0])
            elif op == "inttoptr":
                v = self.val(fr, a[0])
                env[I.dst] = v if isinstance(v, Ptr) else Ptr(0, v)
            elif op == "switch":
                v = self.val(fr, a[0])
                default, cases = I.x
                if not is_sym(v):
                    tgt = default
                    for cv, cb in cases:
                        if cv == v:
                            tgt = cb
                            break
                    self.goto(fr, tgt)
                else:
                    self.switch(st, work, v, default, cases)
            elif op == "extractvalue":
                v = self.val(fr, a[0])
                for i in I.x:
                    v = v[i]
                env[I.dst] = v
            elif op == "insertvalue":
                agg = self.val(fr, a[0])
                v = self.val(fr, a[1])
                env[I.dst] = self.insertvalue(agg, v, I.x)
            elif op == "unreachable":
                raise self.violation(st, "unreachable executed", aid="unreachable")
            elif op in ("fadd", "fsub", "fmul", "fdiv", "fcmp", "fneg", "fptoui", "fptosi", "uitofp", "sitofp", "fpext", "fptrunc"):
                vals = [self.val(fr, x) for x in a]
                if vals and isinstance(vals[0], list):
                    # vector float op: element-wise
                    n = len(vals[0])
                    env[I.dst] = [self.fop(st, op, _ScalarView(I), [(v[k] if isinstance(v, list) else v) for v in vals]) for k in range(n)]
                else:
                    env[I.dst] = self.fop(st, op, I, vals)
            elif op == "extractelement":
                v = self.val(fr, a[0])
                env[I.dst] = v[self.val(fr, a[1])]
            elif op == "insertelement":
                v = list(self.val(fr, a[0]))
                v[self.val(fr, a[2])] = self.val(fr, a[1])
                env[I.dst] = v
            elif op == "landingpad" or op == "resume":
                raise PathEnd("exception", "landingpad reached")
            elif op == "freeze":
                env[I.dst] = self.val(fr, a[0])
            elif op == "atomicrmw":
                p = self.val(fr, a[0])
                v = self.val(fr, a[1])
                old = self.load(st, p, I.ty)
                bop = {1: "add", 2: "sub", 0: None}[I.x]
                self.store(st, p, self.binop(bop, old, v, I.ty[1]) if bop else v, I.ty)
                env[I.dst] = old
            else:
                raise NotImplementedError("opcode " + op)
        return

    def insertvalue(self, agg, v, idx):
        agg = list(agg)
        if len(idx) == 1:
            agg[idx[0]] = v
        else:
            agg[idx[0]] = self.insertvalue(agg[idx[0]], v, idx[1:])
        return agg

    def goto(self, fr, bb):
        fr.prev = fr.bb
        fr.bb = bb
        fr.ip = 0

    def branch(self, st, work, c, bt, bf):
        fr = st.frames[-1]
        c = z3.simplify(c)
        if z3.is_true(c):
            return self.goto(fr, bt)
        if z3.is_false(c):
            return self.goto(fr, bf)
        k = st.known.get(c.get_id())
        if k is not None and k[2]:
            self.stats["facthit"] = self.stats.get("facthit", 0) + 1
            return self.goto(fr, bt if k[0] else bf)
        ct = self.sat(st, c)
        cf = self.sat(st, z3.Not(c))
        if ct and cf:
            self.stats["forks"] += 1
            other = self.fork(st)
            nc = z3.Not(c)
            self.add_pc(other, nc)
            other.known[c.get_id()] = (False, c, True)
            self.goto(other.frames[-1], bf)
            work.append(other)
            self.add_pc(st, c)
            st.known[c.get_id()] = (True, c, True)
            self.goto(fr, bt)
        elif ct:
            st.known[c.get_id()] = (True, c, True)
            self.goto(fr, bt)
        elif cf:
            st.known[c.get_id()] = (False, c, True)
            self.goto(fr, bf)
        else:
            raise PathEnd("infeasible")

    def switch(self, st, work, v, default, cases):
        w = v.size()
        rest = []
        first = True
        targets = []
        for cv, cb in cases:
            c = v == z3.BitVecVal(cv, w)
            if self.sat(st, c):
                targets.append((c, cb))
            rest.append(z3.Not(c))
        d = z3.And(*rest) if rest else z3.BoolVal(True)
        if self.sat(st, d):
            targets.append((d, default))
        if not targets:
            raise PathEnd("infeasible")
        if len(targets) == 1:
            self.note_valid(st, targets[0][0])
        for c, cb in targets[1:]:
            other = self.fork(st)
            self.add_pc(other, c)
            self.goto(other.frames[-1], cb)
            work.append(other)
            self.stats["forks"] += 1
        c, cb = targets[0]
        self.add_pc(st, c)
        self.goto(st.frames[-1], cb)

    def ite(self, st, work, c, x, y, t):
        if isinstance(x, Ptr) or isinstance(y, Ptr):
            if isinstance(x, Ptr) and isinstance(y, Ptr) and x.obj == y.obj:
                return Ptr(x.obj, z3.If(c, bv(x.off, 64), bv(y.off, 64)))
            # fork on condition
            ct = self.sat(st, c)
            cf = self.sat(st, z3.Not(c))
            if ct and cf:
                other = self.fork(st)
                self.add_pc(other, z3.Not(c))
                fr2 = other.frames[-1]
                I = fr2.fn.blocks[fr2.bb][fr2.ip - 1]
                fr2.env[I.dst] = y
                work.append(other)
                self.stats["forks"] += 1
                self.add_pc(st, c)
                return x
            return x if ct else y
        if t[0] == "int":
            w = t[1]
            if w == 1:
                return z3.If(c, boolz(x), boolz(y))
            return z3.If(c, bv(x, w), bv(y, w))
        if t[0] in ("float", "double"):
            if (isinstance(x, tuple) and x[0] == "real") or (isinstance(y, tuple) and y[0] == "real"):
                return ("real", z3.If(c, to_real(x), to_real(y)))
            return ("fbits", z3.If(c, self.fbits(x, t), self.fbits(y, t)))
        if t[0] in ("vector", "array"):
            return [self.ite(st, work, c, xi, yi, t[2]) for xi, yi in zip(x, y)]
        raise NotImplementedError("select on " + str(t))

    def fbits(self, v, t):
        w = 32 if t[0] == "float" else 64
        return self.tobv(v, t, w)

    def intcast(self, op, v, wi, wo):
        if isinstance(v, Ptr):
            if op == "trunc":
                return self.intcast(op, self.addr(v), 64, wo)
            return v
        if not is_sym(v):
            if op == "zext":
                return v
            if op == "trunc":
                return v & mask(wo)
            return to_signed(v, wi) & mask(wo)
        if op == "zext":
            if z3.is_bool(v):
                return z3.If(v, z3.BitVecVal(1, wo), z3.BitVecVal(0, wo))
            return z3.ZeroExt(wo - wi, v)
        if op == "sext":
            if z3.is_bool(v):
                return z3.If(v, z3.BitVecVal(mask(wo), wo), z3.BitVecVal(0, wo))
            return z3.SignExt(wo - wi, v)
        if wo == 1:
            return z3.Extract(0, 0, v) == 1
        return z3.Extract(wo - 1, 0, v)

    def bitcast(self, v, ti, to):
        if ti == to or ti[0] == "ptr":
            return v
        if ti[0] == "int" and to[0] in ("float", "double"):
            if is_sym(v):
                return ("fbits", v)
            return struct.unpack("<f", struct.pack("<I", v))[0] if to[0] == "float" else struct.unpack("<d", struct.pack("<Q", v))[0]
        if ti[0] in ("float", "double") and to[0] == "int":
            if isinstance(v, tuple):
                return v[1]
            return struct.unpack("<I", struct.pack("<f", v))[0] if ti[0] == "float" else struct.unpack("<Q", struct.pack("<d", v))[0]
        if ti[0] == "vector" and to[0] == "int":
            # pack elements little-endian
            es = ti[3] * 8
            parts = [self.tobv(e, ti[2], es) for e in v]
            if all(not is_sym(e) and not isinstance(e, tuple) for e in v):
                r = 0
                for i, e in enumerate(v):
                    r |= z3.simplify(parts[i]).as_long() << (i * es)
                return r
            return z3.Concat(*reversed(parts))
        if ti[0] == "int" and to[0] == "vector":
            es = to[3] * 8
            out = []
            for i in range(to[1]):
                if is_sym(v):
                    e = z3.Extract(i * es + es - 1, i * es, v)
                    out.append(("fbits", e) if to[2][0] in ("float", "double") else e)
                else:
                    e = (v >> (i * es)) & mask(es)
                    out.append(self.bitcast(e, ("int", es), to[2]))
            return out
        if ti[0] == "vector" and to[0] == "vector" and ti[1] == to[1]:
            return [self.bitcast(e, ti[2], to[2]) for e in v]
        raise NotImplementedError("bitcast %s -> %s" % (ti, to))

    def fop_real(self, st, op, I, vals):
        """Real mode (C20): float arithmetic over the reals, no rounding"""
        if op in ("uitofp", "sitofp"):
            x = vals[0]
            if is_sym(x):
                w = I.x[1]
                xi = z3.BV2Int(x, op == "sitofp")
                return ("real", z3.ToReal(xi))
            return ("real", z3.RealVal(to_signed(x, I.x[1]) if op == "sitofp" else x))
        if op in ("fpext", "fptrunc"):
            return ("real", to_real(vals[0]))
        if op == "fneg":
            return ("real", -to_real(vals[0]))
        X, Y = to_real(vals[0]), to_real(vals[1])
        if op == "fadd":
            return ("real", X + Y)
        if op == "fsub":
            return ("real", X - Y)
        if op == "fmul":
            return ("real", z3.simplify(X * Y))
        if op == "fdiv":
            self.stats["real_div"] = self.stats.get("real_div", 0) + 1
            # division by a possibly-zero value has no meaning over the reals: the path is restricted to Y != 0
            nz = Y != 0
            if not self.sat(st, nz):
                raise PathEnd("infeasible")
            if self.sat(st, z3.Not(nz)):
                self.add_pc(st, nz)
                self.stats["real_div_nonzero_assumed"] = self.stats.get("real_div_nonzero_assumed", 0) + 1
            # q = X / Y encoded as a fresh variable with q * Y == X (keeps the NRA problem polynomial)
            if z3.is_rational_value(Y):
                return ("real", z3.simplify(X / Y))
            self.symcount += 1
            q = z3.Real("div_%d" % self.symcount)
            self.add_pc(st, q * Y == X)
            return ("real", q)
        if op == "fcmp":
            p = I.x
            base = {"eq": X == Y, "gt": X > Y, "ge": X >= Y, "lt": X < Y, "le": X <= Y, "ne": X != Y}
            if p in ("ord", "true"):
                return 1
            if p in ("uno", "false"):
                return 0
            return base[p[1:]]
        raise NotImplementedError("Real-mode float op " + op)

    def fop(self, st, op, I, vals):
        if self.real_mode and (any(is_real(v) for v in vals) or (op in ("uitofp", "sitofp") and is_sym(vals[0]))):
            return self.fop_real(st, op, I, vals)
        if all(isinstance(v, (int, float)) for v in vals):
            x = vals[0]
            single = I.ty[0] == "float"
            if op == "fadd":
                r = x + vals[1]
            elif op == "fsub":
                r = x - vals[1]
            elif op == "fmul":
                r = x * vals[1]
            elif op == "fdiv":
                y = vals[1]
                r = x / y if y != 0 else (math.nan if x == 0 or x != x else math.copysign(math.inf, x) * math.copysign(1, y))
            elif op == "fneg":
                r = -x
            elif op == "fcmp":
                y = vals[1]
                p = I.x
                unord = x != x or y != y
                base = {"eq": x == y, "gt": x > y, "ge": x >= y, "lt": x < y, "le": x <= y, "ne": x != y}
                if p == "ord":
                    return int(not unord)
                if p == "uno":
                    return int(unord)
                if p[0] == "o":
                    return int((not unord) and base[p[1:]])
                return int(unord or base[p[1:]])
            elif op in ("fpext",):
                return x
            elif op == "fptrunc":
                return f32round(x)
            elif op in ("uitofp",):
                r = float(x)
            elif op == "sitofp":
                r = float(to_signed(x, I.x[1]))
            elif op in ("fptoui", "fptosi"):
                return int(x) & mask(I.ty[1])
            return f32round(r) if single else r
        return self.fop_bits(st, op, I, vals)

    def fop_bits(self, st, op, I, vals):
        """IEEE-exact float operation on symbolic bit patterns (z3 FP theory, round-to-nearest-even); results are
        ("fbits", bv) again, comparisons are z3 Bools.  NaN payloads are z3's canonical ones."""
        F32, F64 = z3.Float32(), z3.Float64()
        RNE = z3.RNE()

        def sort_of_bits(w):
            return F32 if w == 32 else F64

        def to_fp(v, srt):
            if isinstance(v, tuple) and v[0] == "fbits":
                b = v[1]
                if not is_sym(b):
                    b = z3.BitVecVal(b, 32 if srt == F32 else 64)
                return z3.fpBVToFP(b, srt)
            if isinstance(v, (int, float)):
                x = float(v)
                if x != x:
                    return z3.fpNaN(srt)
                if x in (math.inf, -math.inf):
                    return z3.fpInfinity(srt, x < 0)
                return z3.FPVal(x, srt)
            raise PathEnd("unsupported", "symbolic float op %s on %r" % (op, type(v)))

        def bits(fp):
            return ("fbits", z3.fpToIEEEBV(fp))
        if op in ("uitofp", "sitofp"):
            x = vals[0]
            srt = F32 if I.ty[0] == "float" else F64
            if z3.is_bool(x):
                x = z3.If(x, z3.BitVecVal(1, 8), z3.BitVecVal(0, 8))
            if op == "uitofp":
                return bits(z3.fpToFPUnsigned(RNE, x, srt))
            return bits(z3.fpToFP(RNE, x, srt))
        # operand sort: from the first symbolic operand
        w = None
        for v in vals:
            if isinstance(v, tuple) and v[0] == "fbits" and is_sym(v[1]):
                w = v[1].size()
                break
        if w is None:
            raise PathEnd("unsupported", "symbolic float op " + op)
        srt = sort_of_bits(w)
        a = to_fp(vals[0], srt)
        if op in ("fptoui", "fptosi"):
            wo = I.ty[1]
            return z3.fpToUBV(z3.RTZ(), a, z3.BitVecSort(wo)) if op == "fptoui" else z3.fpToSBV(z3.RTZ(), a, z3.BitVecSort(wo))
        if op in ("fpext", "fptrunc"):
            return bits(z3.fpFPToFP(RNE, a, F32 if I.ty[0] == "float" else F64))
        if op == "fneg":
            return bits(z3.fpNeg(a))
        b = to_fp(vals[1], srt)
        if op == "fadd":
            return bits(z3.fpAdd(RNE, a, b))
        if op == "fsub":
            return bits(z3.fpSub(RNE, a, b))
        if op == "fmul":
            return bits(z3.fpMul(RNE, a, b))
        if op == "fdiv":
            return bits(z3.fpDiv(RNE, a, b))
        if op == "fcmp":
            p = I.x
            unord = z3.Or(z3.fpIsNaN(a), z3.fpIsNaN(b))
            base = {"eq": z3.fpEQ(a, b), "gt": z3.fpGT(a, b), "ge": z3.fpGEQ(a, b), "lt": z3.fpLT(a, b), "le": z3.fpLEQ(a, b), "ne": z3.Not(z3.fpEQ(a, b))}
            if p == "ord":
                return z3.Not(unord)
            if p == "uno":
                return unord
            if p in ("true",):
                return 1
            if p in ("false",):
                return 0
            if p[0] == "o":
                return z3.And(z3.Not(unord), base[p[1:]])
            return z3.Or(unord, base[p[1:]])
        raise PathEnd("unsupported", "symbolic float op " + op)

    # ---------- calls
    def do_call(self, st, fr, I, work):
        x = I.x
        args = [self.val(fr, a) for a in I.a]
        if x[0] == "direct":
            name = x[1]
        elif x[0] == "indirect":
            fp = self.val(fr, x[1])
            if not isinstance(fp, Ptr) or fp.obj not in self.objfn:
                raise self.violation(st, "indirect call through bad pointer %s" % (fp,), aid="memory")
            name = self.objfn[fp.obj]
        else:
            raise NotImplementedError("inline asm")
        inv = x[2] if I.op == "invoke" else None
        # WATCH: record 'this' of reference serialisation calls
        w = getattr(st, "watch", None)
        if w is not None:
            if name.startswith("_ZN5nifly10NiBlockRefI") and "4SyncE" in name:
                w[0].append(args[0])
            elif name.startswith("_ZN5nifly11NiStringRef4ReadE") or name.startswith("_ZN5nifly11NiStringRef5WriteE"):
                w[1].append(args[0])
        mdl = self.models.get(name)
        if mdl is None and name.startswith("llvm."):
            mdl = self.intrinsic(name)
        if mdl is not None:
            r = mdl(self, st, args, I)
            if I.ty[0] != "void":
                fr.env[I.dst] = r
            if inv is not None:
                self.goto(fr, inv)
            return
        fv = self.m.funcs.get(name)
        if fv is None or ll.IsDeclaration(fv):
            raise NotImplementedError("unmodelled external " + name)
        fn = self.decode(name)
        self.push_frame(st, fn, args, I.dst if I.ty[0] != "void" else None, inv)

    def intrinsic(self, name):
        base = name.split(".")
        key = ".".join(base[:2]) if base[1] not in ("experimental", "eh") else ".".join(base[:3])
        return INTRINSICS.get(key)


def I_w(x, y):
    for v in (x, y):
        if is_sym(v):
            return 1 if z3.is_bool(v) else v.size()
    return 64


class Frame:
    pass


class _ScalarView:
    """instruction view with the element type of a vector instruction (for element-wise float ops)"""

    def __init__(self, I):
        self.op = I.op
        self.x = I.x[2] if isinstance(I.x, tuple) and I.x and I.x[0] == "vector" else I.x
        self.ty = I.ty[2] if I.ty[0] == "vector" else I.ty
        self.a = I.a
        self.dst = I.dst


# ---------------- intrinsics / models
def m_memcpy(e, st, args, I):
    dst, src, n = args[0], args[1], args[2]
    if is_sym(n):
        n = e.concretize(st, n, None, "memcpy len")
    if n == 0:
        return dst
    if n >= (1 << 40):
        raise e.violation(st, "memcpy with huge length %d" % n, aid="memory")
    if isinstance(src, Ptr) and is_sym(src.off):
        src = e.concrete_ptr(st, src, "memcpy source")
    if isinstance(dst, Ptr) and is_sym(dst.off):
        dst = e.concrete_ptr(st, dst, "memcpy destination")
    so, soff = e.check_access(st, src, n, "memcpy-src")
    do_, doff = e.check_access(st, dst, n, "memcpy-dst")
    cells = list(so.data[soff:soff + n])
    d = e.get_obj_w(st, dst.obj)
    d.data[doff:doff + n] = cells
    return dst


def m_memset(e, st, args, I):
    dst, c, n = args[0], args[1], args[2]
    if is_sym(n):
        n = e.concretize(st, n, None, "memset len")
    if n == 0:
        return dst
    if n >= (1 << 40):
        raise e.violation(st, "memset with huge length %d" % n, aid="memory")
    if isinstance(dst, Ptr) and is_sym(dst.off):
        dst = e.concrete_ptr(st, dst, "memset destination")
    do_, doff = e.check_access(st, dst, n, "memset")
    d = e.get_obj_w(st, dst.obj)
    cell = c if not is_sym(c) else ("e", c, 0)
    d.data[doff:doff + n] = [cell] * n
    return dst


def m_nop(e, st, args, I):
    return None


def m_minmax(kind):
    def f(e, st, args, I):
        a, b = args
        w = I.ty[1]
        pred = {"umax": "ugt", "umin": "ult", "smax": "sgt", "smin": "slt"}[kind]
        c = e.icmp(pred, a, b, w)
        if not is_sym(c):
            return a if c else b
        return z3.If(c, bv(a, w), bv(b, w))
    return f


def m_assume(e, st, args, I):
    c = args[0]
    if is_sym(c):
        e.add_pc(st, boolz(c))
    elif not c:
        raise PathEnd("infeasible")


def m_umul_ov(e, st, args, I):
    a, b = args
    w = I.ty[1][0][1][1]
    if not is_sym(a) and not is_sym(b):
        r = a * b
        return [r & mask(w), int(r > mask(w))]
    A, B = bv(a, w), bv(b, w)
    return [A * B, z3.Not(z3.BVMulNoOverflow(A, B, False))]


def m_f1(fn, name=None):
    def f(e, st, args, I):
        x = args[0]
        if isinstance(x, tuple) and x[0] == "fbits" and is_sym(x[1]) and name:
            b = x[1]
            srt = z3.Float32() if b.size() == 32 else z3.Float64()
            if name == "fabs":
                return ("fbits", b & z3.BitVecVal((1 << (b.size() - 1)) - 1, b.size()))
            fp = z3.fpBVToFP(b, srt)
            if name == "sqrt":
                r = z3.fpSqrt(z3.RNE(), fp)
            else:
                rm = {"floor": z3.RTN(), "ceil": z3.RTP(), "round": z3.RNA(), "trunc": z3.RTZ()}[name]
                r = z3.fpRoundToIntegral(rm, fp)
            return ("fbits", z3.fpToIEEEBV(r))
        if isinstance(x, tuple) or is_sym(x):
            raise PathEnd("unsupported", "symbolic float intrinsic")
        r = fn(x)
        return f32round(r) if I.ty[0] == "float" else r
    return f


def _round_half_away(x):
    return math.floor(x + 0.5) if x >= 0 else -math.floor(-x + 0.5)


def m_ctlz(e, st, args, I):
    x = args[0]
    w = I.ty[1]
    if is_sym(x):
        raise NotImplementedError("symbolic ctlz")
    return w - x.bit_length()


def m_cttz(e, st, args, I):
    x = args[0]
    w = I.ty[1]
    if is_sym(x):
        raise NotImplementedError("symbolic cttz")
    return w if x == 0 else (x & -x).bit_length() - 1


def m_abs(e, st, args, I):
    x = args[0]
    w = I.ty[1]
    if not is_sym(x):
        sx = to_signed(x, w)
        return (-sx if sx < 0 else sx) & mask(w)
    return z3.If(x < 0, -x, x)


INTRINSICS = {
    "llvm.abs": m_abs,
    "llvm.ctlz": m_ctlz, "llvm.cttz": m_cttz,
    "llvm.fabs": m_f1(abs, "fabs"), "llvm.sqrt": m_f1(lambda x: math.sqrt(x) if x >= 0 else math.nan, "sqrt"),
    "llvm.floor": m_f1(math.floor, "floor"), "llvm.ceil": m_f1(math.ceil, "ceil"), "llvm.round": m_f1(_round_half_away, "round"), "llvm.trunc": m_f1(math.trunc, "trunc"),
    "llvm.memcpy": m_memcpy, "llvm.memmove": m_memcpy, "llvm.memset": m_memset,
    "llvm.lifetime": m_nop, "llvm.dbg": m_nop, "llvm.experimental.noalias": m_nop,
    "llvm.umax": m_minmax("umax"), "llvm.umin": m_minmax("umin"), "llvm.smax": m_minmax("smax"), "llvm.smin": m_minmax("smin"),
    "llvm.assume": m_assume, "llvm.umul": m_umul_ov,
}


def m_new(e, st, args, I):
    n = args[0]
    if is_sym(n):
        n = e.concretize(st, n, None, "alloc size")
    if n > e.max_alloc:
        e.stats["huge_alloc"] = e.stats.get("huge_alloc", 0) + 1
        if e.huge_alloc_is_violation:
            raise e.violation(st, "huge allocation %d bytes" % n, aid="huge-allocation")
        raise PathEnd("alloc-too-large", str(n))
    oid = e.new_obj(st, n, "heap", "new")
    # uninitialised memory: leave zero for spike
    return Ptr(oid, 0)


def m_delete(e, st, args, I):
    p = args[0]
    if p.obj == 0 and not is_sym(p.off):
        return
    if is_sym(p.off):
        off = e.concretize(st, p.off, 4, "delete ptr")
        p = Ptr(p.obj, off)
        if p.obj == 0:
            return
    o = e.get_obj_w(st, p.obj)
    if o.freed:
        raise e.violation(st, "double free", aid="memory")
    if o.kind != "heap" or p.off != 0:
        raise e.violation(st, "invalid free", aid="memory")
    o.freed = True


def m_throw(kind):
    def f(e, st, args, I):
        st.endmsg = kind
        e.throws[kind] = e.throws.get(kind, 0) + 1
        if e.throw_is_violation:
            raise e.violation(st, "exception thrown: " + kind, aid="exception")
        raise PathEnd("throw", kind)
    return f


def m_atexit(e, st, args, I):
    return 0


def cstr(e, st, p):
    o = e.get_obj_r(st, p.obj)
    out = []
    i = p.off
    while o.data[i] != 0:
        out.append(o.data[i])
        i += 1
    return bytes(out).decode()


def m_sym(w):
    def f(e, st, args, I):
        return e.fresh(cstr(e, st, args[0]), w, st)
    return f


def m_sym_bytes(e, st, args, I):
    p, n, nm = args
    o = e.get_obj_w(st, p.obj)
    nm = cstr(e, st, nm)
    for i in range(n):
        v = e.fresh(nm, 8, st)
        o.data[p.off + i] = ("e", v, 0) if is_sym(v) else v


def m_sym_assume(e, st, args, I):
    c = args[0]
    if not is_sym(c):
        if not c:
            raise PathEnd("infeasible")
        return
    c = boolz(c)
    if not e.sat(st, c):
        raise PathEnd("infeasible")
    e.add_pc(st, c)


def m_sym_assert(e, st, args, I):
    c = args[0]
    e.stats["asserts"] = e.stats.get("asserts", 0) + 1
    if not is_sym(c):
        if not c:
            raise e.violation(st, "assertion failed: " + cstr(e, st, args[1]), aid=cstr(e, st, args[1]).split(":")[0])
        return
    c = boolz(c)
    if e.sat(st, z3.Not(c)):
        pe = e.violation(st, "assertion failed: " + cstr(e, st, args[1]), z3.Not(c), aid=cstr(e, st, args[1]).split(":")[0])
        # keep exploring the side on which the assertion holds
        if not e.sat(st, c):
            raise pe
        e.add_pc(st, c)
        return
    e.stats["proved"] = e.stats.get("proved", 0) + 1


def m_sqrtf(e, st, args, I):
    return f32round(math.sqrt(args[0])) if args[0] >= 0 else math.nan


MODELS = {
    "_Znwm": m_new, "_Znam": m_new, "_ZdlPv": m_delete, "_ZdaPv": m_delete,
    "_ZSt20__throw_length_errorPKc": m_throw("length_error"), "_ZSt17__throw_bad_allocv": m_throw("bad_alloc"),
    "_ZSt28__throw_bad_array_new_lengthv": m_throw("bad_array_new_length"),
    "__cxa_atexit": m_atexit,
    "sym_u32": m_sym(32), "sym_u16": m_sym(16), "sym_u8": m_sym(8), "sym_u64": m_sym(64), "sym_bytes": m_sym_bytes, "sym_assume": m_sym_assume, "sym_assert": m_sym_assert,
    "sqrtf": m_sqrtf, "sqrt": m_f1(lambda x: math.sqrt(x) if x >= 0 else math.nan),
    "cosf": m_f1(math.cos), "sinf": m_f1(math.sin), "cos": m_f1(math.cos), "sin": m_f1(math.sin),
    "acosf": m_f1(math.acos), "asinf": m_f1(math.asin), "acos": m_f1(math.acos), "asin": m_f1(math.asin),
}

