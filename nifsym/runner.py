"""Job runner: executes harness entries symbolically in a process pool and aggregates the results."""
import os, sys, time, json, traceback, multiprocessing as mp

_ENGINES = {}


def _engine(module):
    from . import engine as E, models as M
    e = E.Engine(module)
    M.install(e)
    return e


CACHE_DIR = os.path.join(os.path.dirname(os.path.dirname(os.path.abspath(__file__))), "build", "results")


_ENGINE_HASH = None


def _engine_hash():
    global _ENGINE_HASH
    if _ENGINE_HASH is None:
        import hashlib, glob
        h = hashlib.sha256()
        for p in sorted(glob.glob(os.path.join(os.path.dirname(os.path.abspath(__file__)), "*.py"))):
            h.update(open(p, "rb").read())
        _ENGINE_HASH = h.hexdigest()[:16]
    return _ENGINE_HASH


def _cache_path(job):
    import hashlib
    key = hashlib.sha256((_engine_hash() + json.dumps(job, sort_keys=True, default=str)).encode()).hexdigest()[:32]
    return os.path.join(CACHE_DIR, key + ".json")


def run_job_cached(job):
    """Results are a deterministic function of (module bitcode hash = part of the module path, job parameters),
    so properties that share a harness entry (C01/C02/C07) reuse each other's job results; flagged in evidence."""
    p = _cache_path(job)
    if os.path.exists(p):
        try:
            r = json.load(open(p))
            r["cached"] = True
            return r
        except Exception:
            pass
    r = run_job(job)
    if r.get("ok"):
        os.makedirs(CACHE_DIR, exist_ok=True)
        tmp = p + ".tmp%d" % os.getpid()
        with open(tmp, "w") as f:
            json.dump(r, f, default=str)
        os.replace(tmp, p)
    return r


def run_job(job):
    """job: dict(module, entry, args, budget, B, max_input, opts...) -> result dict (JSON-able)"""
    t0 = time.time()
    res = {"job": {k: v for k, v in job.items() if k != "module"}, "ok": False}
    try:
        from . import engine as E
        e = _engine(job["module"])
        e.B = job.get("B", 2)
        e.max_input = job.get("max_input", 512)
        e.max_instr = job.get("max_instr", 5_000_000)
        e.max_samples = job.get("samples", 3)
        e.throw_is_violation = job.get("throw_is_violation", False)
        e.huge_alloc_is_violation = job.get("huge_alloc_is_violation", False)
        e.entry_name = job["entry"]
        e.entry_args = list(job.get("args", []))
        # per-query solver time-out scaled to the job's budget (a stuck floating-point query must not eat a short job);
        # queries that time out end their path as "unknown" (counted, never success)
        bud = job.get("budget") or 300
        e.solver.set("timeout", int(min(60000, max(4000, bud * 400))))
        for k, v in job.get("engine_opts", {}).items():
            setattr(e, k, v)
        if job.get("stubs"):
            from . import models as M
            M.install_stubs(e, job["stubs"])
        hook = job.get("setup")
        if hook:
            mod, fn = hook.rsplit(".", 1)
            getattr(__import__(mod, fromlist=[fn]), fn)(e, job)
        e.run(job["entry"], e.entry_args, budget=job.get("budget"), seed=job.get("seed", 0), max_paths=job.get("max_paths"))
        res.update(ok=True, stats=e.stats, ends=e.ends, gaps=e.gaps, throws=e.throws, reach=getattr(e, "reach", {}),
                   samples=e.samples,
                   violations=[{k: v for k, v in vi.items()} for vi in _dedup(e.violations)],
                   nviol=len(e.violations),
                   functions=sorted(e.fn_exec.items(), key=lambda kv: -kv[1])[:400],
                   nfunctions=len(e.fn_exec))
    except Exception as ex:
        res["error"] = "%s: %s" % (type(ex).__name__, ex)
        res["trace"] = traceback.format_exc()[-3000:]
    res["wall"] = time.time() - t0
    return res


def _dedup(viols, per_aid=4):
    cnt = {}
    out = []
    for v in viols:
        k = v["aid"]
        cnt[k] = cnt.get(k, 0) + 1
        if cnt[k] <= per_aid:
            out.append(v)
    return out


def run_jobs(jobs, nproc=None, progress=True, cache=False):
    nproc = nproc or min(16, os.cpu_count() or 4, max(1, len(jobs)))
    results = []
    fn = run_job_cached if cache else run_job
    if nproc == 1 or len(jobs) == 1:
        for j in jobs:
            results.append(fn(j))
        return results
    ctx = mp.get_context("fork")
    with ctx.Pool(nproc, maxtasksperchild=8) as pool:
        for i, r in enumerate(pool.imap_unordered(fn, jobs)):
            results.append(r)
            if progress and os.environ.get("PROGRESS") and (i + 1) % 10 == 0:
                print("  .. %d/%d jobs" % (i + 1, len(jobs)), file=sys.stderr, flush=True)
    return results


if __name__ == "__main__":
    # debugging entry: python -m nifsym.runner module.bc entry args...
    job = {"module": sys.argv[1], "entry": sys.argv[2], "args": [int(x) for x in sys.argv[3:]],
           "budget": float(os.environ.get("BUDGET", "300")), "B": int(os.environ.get("B", "2"))}
    r = run_job(job)
    r.pop("functions", None)
    for v in r.get("violations", []):
        v["model"] = dict(list(v["model"].items())[:20])
    print(json.dumps(r, indent=1, default=str)[:6000])
