"""C16: truncated files never crash the loader."""
from props import fblock, fmfile
ID = "C16"
LEVEL = "model_checking"
MODULES = fmfile.modules()
prepare = fblock.prepare
BOUNDS = {
    "quick": {"block_types": "all registered (from Factory.cpp)", "version": "symbolic (file,user,stream) under the loader's acceptance predicate", "count_cap_B": 1, "input_bytes_L": 256, "budget_s_per_type": 9},
    "thorough": {"block_types": "all registered", "version": "symbolic, split into 3 version classes", "count_cap_B": 2, "input_bytes_L": 512, "budget_s_per_type": 120},
}
ASSUMPTIONS = ['the completed block is produced by the library itself (Get of arbitrary bytes then Put), so every prefix is a prefix of a file the library writes', 'faults in the first (untruncated) Get are unloadable inputs', 'file level: the Miniball bounding-sphere computation (BoundingSphere(vector) constructor) is replaced by a stub returning an arbitrary sphere, because its floating-point control flow over truncation-dependent vertex values is beyond the solver budget; all other float code on truncated data (normal/weight conversions) runs IEEE-exact in z3 FP']
LEVEL_TEXT = "Bounded symbolic model checking: block level - a complete block is loaded from symbolic bytes, written, and re-read through a stream with a *symbolic truncation point* T (byte i arrives iff i < T, exactly istream::read's partial-read behaviour), then enumerated, written, cloned and destroyed; file level - whole files with symbolic T. Oracle = engine built-ins (memory faults, division by zero, unbounded recursion, hang, huge allocation, exception)."
LEVEL_NOTE = 'Bounds as in evidence; operator new never fails except that requests > 16 MB are reported as huge-allocation and confirmed natively.'
AIDS = ("C01-",)


def owns_violation(v):
    r = v.get("reached", [])
    return v["aid"] in fblock.BUILTIN and "loaded" in r


def jobs(tier, seed):
    J = fblock.jobs_for("h_trunc", tier, seed, budget_quick=9, extra=dict(huge_alloc_is_violation=True, throw_is_violation=True))
    for j in J:
        j["mod"] = "fblock"
    F = []
    if tier == "quick":
        # truncation points of each file are split into 8 ranges explored by parallel jobs
        for ver, feat in ((fmfile.SSE, fmfile.SKIN), (fmfile.FO4, fmfile.EXTRA | fmfile.SEGMENTS | fmfile.SKIN), (fmfile.OB, fmfile.SKIN | fmfile.COLL | fmfile.STRIPPART), (fmfile.SK, fmfile.STRIPS)):
            for seg in range(8):
                F.append(dict(entry="h_file_trunc", args=[ver, feat, 1, seg, 8], budget=120, mod="fmfile", huge_alloc_is_violation=True, throw_is_violation=True, stubs=["bsphere"]))
    else:
        # thorough: the quick model list of the F-model family, 8 truncation ranges each, 300 s per range
        # (all 44 thorough models x 8 ranges x 1200 s would take hours)
        for j in fmfile.jobs("h_file_trunc", "quick", extra_args=[1, 0, 1], budget=300, huge_alloc_is_violation=True, throw_is_violation=True, stubs=["bsphere"]):
            for seg in range(8):
                k = dict(j)
                k["args"] = j["args"][:3] + [seg, 8]
                F.append(k)
    return F + J  # the long file-level jobs start first


def signature(job, v):
    if job.get("mod") == "fmfile":
        top = next((f for f in v["stack"] if "nifly" in f), "")
        rc = v.get("user", {}).get("rc")
        return "%s:%s:%s%s" % (job["entry"], v["aid"], top[:50], "" if rc in (None, 0) else ":loadfailed")
    return "%s:%s:%s" % (job["entry"], fblock.type_of(job), v["aid"])
