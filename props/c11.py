"""C11: a copied model is equal to and fully independent of its source."""
from props.fmodel import *
from props import c06, fblock
ID = "C11"
LEVEL = "model_checking"
MODULES = {"fmedit": dict(harness=c06.HARNESS, entries=c06.ENTRIES), "fblock": dict(harness=[fblock.GEN], entries=fblock.ENTRIES)}
prepare = fblock.prepare
ENGINE_ONLY_AIDS = ("C11-shared", "C11-shared-assign", "C11-shared-copies", "C11-independent", "C11-clone-shared")
BOUNDS = {
    "quick": {"block_level": "Clone() of all registered block types on symbolic input (B=1, L=256, 7 s per type): equal bytes, disjoint heap, survives the source", "models": "OB/FO3/SK/SSE/FO4/FO76 API-built models (NiTriShape and BSTriShape families), skinned/unskinned, with collision/extra data/controller", "copies": "copy constructor and copy assignment", "edits_on_copy": "delete vertex, set vertices + rename, delete shape, delete block + sort, SetTriangles/UpdateBounds through the shape object", "destruction_order": "source first / copies first"},
    "thorough": {"models": "more feature combinations (concrete geometry)", "copies": "as quick", "edits_on_copy": "as quick", "destruction_order": "both"},
}
ASSUMPTIONS = [
    "independence is decided by the engine's heap primitives: sym_heap_disjoint walks every pointer cell reachable from each NifFile object (exact, because the engine knows which bytes are pointers) and sym_snapshot/sym_unchanged compares every reachable byte of the source before and after editing the copy",
    "use-after-free / double free during destruction are engine built-ins; those are replayed natively under ASan, the heap-sharing assertions are confirmed by concrete re-execution in the engine",
]
LEVEL_TEXT = ("Bounded symbolic model checking of NifFile's copy constructor / assignment (CopyFrom, LinkGeomData) on the real code: the copy "
              "must save to identical bytes, share no heap object with its source (engine reachability over pointer cells), leave every byte "
              "reachable from the source unchanged when edited, and both destruction orders must be free of memory errors.")
LEVEL_NOTE = "Small API-built models per version; edit battery fixed; engine heap model trusted."

MODELS_Q = [(SSE, LEGACYSHAPE | EXTRA), (FO4, LEGACYSHAPE), (OB, SKIN | COLL), (FO3, SKIN | EXTRA), (SK, SKIN | CTRL | SHAPE2), (SSE, SKIN | EXTRA), (FO4, SKIN | EXTRA | LOOSE), (FO76, SHAPE2)]


def jobs(tier, seed):
    J = []
    bud = 120 if tier == "quick" else 600
    models = MODELS_Q if tier == "quick" else MODELS_Q + [(v, f) for v in range(6) for f in (0, SKIN | BONETYPE, EXTRA | CTRL | LOOSE | CHILDNODE | SHAPE2)]
    for ver, feat in models:
        for edit in range(5):
            for order in (0, 1):
                if tier == "quick" and (edit + order) % 2 == 1 and ver in (FO3, FO76):
                    continue
                J.append(dict(entry="h_c11", args=[ver, feat, edit, order, 0], budget=bud, mod="fmedit"))
    # the source is the model as built in memory (not loaded); strips, a data-less first shape, a derived bone type
    for ver, feat in [(SK, STRIPS | DATALESS), (FO3, DATALESS | SKIN), (OB, STRIPS | SKIN), (SSE, SKIN | BONETYPE), (FO4, SKIN)]:
        for edit in (1, 4) if tier == "quick" else range(5):
            for kind in (0, 1):
                J.append(dict(entry="h_c11", args=[ver, feat, edit, (edit + kind) % 2, kind], budget=bud, mod="fmedit"))
    # block level: Clone() of every registered block type on symbolic input (NifFile's copy clones every block)
    J += [dict(j, mod="fblock") for j in fblock.jobs_for("h_clone", tier, seed, budget_quick=7, budget_thorough=90)]
    return J


def owns_violation(v):
    return v["aid"].startswith("C11-") or (v["aid"] in BUILTIN and "loaded" in v.get("reached", []))


def signature(job, v):
    if job.get("mod") == "fblock":
        return "%s:%s:%s" % (job["entry"], fblock.type_of(job), v["aid"])
    return "%s:%s" % (job["entry"], v["aid"])
