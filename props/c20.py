"""C20: transform algebra and bounding spheres obey their geometric laws."""
ID = "C20"
LEVEL = "other"
HARNESS = ["c20_math.cpp"]
MODULE = "c20"
BOUNDS = {
    "quick": {"arithmetic": "Real mode: every float operation of the IR is interpreted over the reals (no rounding), inputs are arbitrary reals", "obligations": "Matrix3 product/transpose/determinant laws, Invert (both sides, singular case), InverseTransform o t and t o InverseTransform = identity (as transform and on a point), ComposeTransforms vs sequential ApplyTransform, ToMatrix, ApplyTransformToDiff, RotVecToMat orthonormal + det 1 (all code branches), RotMatToVec(RotVecToMat(v)) = v for 0.02<|v|<1 (asin branch) and 1.1<|v|<3 (acos branch), average/median of n<=3 identical transforms, bounding sphere of <=2 points, BSTriShape / NiTriShapeData UpdateBounds after the vertices moved (<=2 vertices, caches filled before)", "solver": "z3 nlsat (QF_NRA), 120 s per query"},
    "thorough": {"arithmetic": "as quick", "obligations": "as quick plus bounding sphere of 3 points (attempted, inconclusive queries are reported) and averages of n<=4", "solver": "z3 nlsat, 600 s per query"},
}
ASSUMPTIONS = [
    "the claim is: the formulas in the code satisfy the laws exactly over the real numbers (this is what catches a swapped index, sign, operand or composition order). 'Within float tolerance' for general inputs is NOT claimed: it needs a floating-point error analysis (z3 FP answered unknown after 300 s on a four-operation tolerance query)",
    "sqrt(x) is a fresh r >= 0 with r*r = x; x/y is a fresh q with q*y = x on paths where y != 0; sin/cos of an angle are a pair (s,c) with s*s+c*c = 1 and sign facts on [0,pi]; asin/acos return the angle whose sin/cos was taken when it lies in the principal range (axioms instantiated per call site, listed in nifsym/models.py)",
    "rotation-vector round trip: only 0.02 < |v| < 1 and 1.1 < |v| < 3 (two code branches); the branch at a half turn (cosang <= -1) and |v| in [1,1.1] are outside the claim",
    "bounding spheres (Miniball) for more than 2 points are outside the quick claim",
    "native validation uses a float tolerance of 2e-3 (relative) on the same assertions",
]
EXPLANATION = ("Solver-based check of the real code in 'Real mode': nifsym executes the LLVM bitcode of Object3d.hpp/.cpp symbolically with "
               "float operations mapped to exact real arithmetic; every law becomes a set of polynomial (non-linear real arithmetic) "
               "obligations that z3's nlsat procedure proves unsatisfiable for ALL real inputs (no bound on magnitudes), or refutes with a "
               "concrete counterexample that is replayed natively with a tolerance. This is a proof of the algebraic identities of the "
               "implemented formulas, not of their floating-point error.")
LEVEL_TEXT = EXPLANATION
LEVEL_NOTE = "Trusted: the Real-mode interpretation of fadd/fsub/fmul/fdiv/fcmp, the sqrt/trig axioms, z3 nlsat. Unknown/timeouts are reported as inconclusive, never as success."
TECHNIQUE = "symbolic execution of the LLVM bitcode over the reals (nifsym Real mode) + z3 nlsat (QF_NRA) per obligation"


def jobs(tier, seed):
    q = tier == "quick"
    eo = dict(real_mode=True, real_timeout_ms=120000 if q else 600000)
    J = []

    def add(entry, args, budget=280):
        J.append(dict(entry=entry, args=args, budget=budget if q else 1800, engine_opts=eo, samples=2))
    add("h_mat3_algebra", [])
    add("h_xform_compose", [])
    for s in (0, 1):
        add("h_mat3_invert", [s])
        add("h_xform_inverse", [s])
        add("h_rotvec_roundtrip", [s])
    add("h_rotvec_orthonormal", [])
    for n in (1, 2, 3) if q else (1, 2, 3, 4):
        for med in (0, 1):
            add("h_average", [n, med])
    add("h_bounds", [1])
    add("h_bounds", [2])
    for kind in (0, 1):
        for n in (1, 2):
            add("h_shape_bounds", [kind, n])
    if not q:
        add("h_bounds", [3])
    return J


def owns_violation(v):
    return True


def signature(job, v):
    return "%s:%s" % (job["entry"], v["aid"])
