"""C14: cloning a shape yields a self-contained copy and leaves the source untouched."""
from props.fmodel import *
from props import c06
ID = "C14"
LEVEL = "model_checking"
HARNESS = c06.HARNESS
MODULE = c06.MODULE
ENTRIES = c06.ENTRIES
ENGINE_ONLY_AIDS = ("C14-source-modified",)
# CloneShape collects references in std::set<NiRef*>: the order in which cloned blocks are appended depends on heap
# addresses, so engine and native output bytes legitimately differ in block order; validation compares outcomes only
VALIDATE_OUT_SHA = False
BOUNDS = {
    "quick": {"source_shapes": "skinned and unskinned shapes with shader, texture set, skin instance/data/partition (OB/FO3/SK/SSE/FO4/FO76), NiTriStrips geometry (FO3, SK), a bone of a derived node type (BSValueNode)", "destination": "same model, fresh model of the same version, other built model", "repeat": "clone once and twice"},
    "thorough": {"source_shapes": "as quick plus extra data / controller / derived bone type", "destination": "all three", "repeat": "once and twice"},
}
ASSUMPTIONS = [
    "block content is compared on serialised bytes with every reference field replaced by a tag, recursively along the references (bones are matched by name, not cloned); the reference positions come from the OUSNIUS_NIFLY_VERIF hook",
    "source-untouched is decided by an engine memory snapshot of everything reachable from the source NifFile (other-model destinations) and by comparing the source's raw save before/after",
]
LEVEL_TEXT = ("Bounded symbolic model checking of NifFile::CloneShape / CloneChildren / CloneNamedNode on the real code for small API-built "
              "models: the clone's geometry, bone list and (recursively) every referenced block must equal the source's, every reference of "
              "the clone must resolve inside the destination to a copy (not the source's own block), the source model must be byte-unchanged, "
              "and the destination must save and reload with the clone intact.")
LEVEL_NOTE = "Small models; payload concrete or symbolic; engine models as DESIGN.md 2.5."

MODELS_Q = [(SSE, SKIN | EXTRA), (SK, SKIN | BONETYPE | STRIPS), (FO4, SKIN | BONETYPE), (OB, SKIN), (FO3, STRIPS), (FO76, 0), (SSE, SKIN | SHADERCTRL | BONETREE), (SK, SKIN | BONETREE | SHADERCTRL), (FO4, SHADERCTRL)]


def jobs(tier, seed):
    J = []
    bud = 120 if tier == "quick" else 600
    models = MODELS_Q if tier == "quick" else MODELS_Q + [(v, f) for v in range(6) for f in (SKIN | BONETYPE, EXTRA | CTRL, SKIN | COLL | SHAPE2)]
    for ver, feat in models:
        for dest in (0, 1, 2):
            for twice in (0, 1):
                if tier == "quick" and twice and dest == 2:
                    continue
                J.append(dict(entry="h_c14", args=[ver, feat, dest, twice], budget=bud))
    return J


def owns_violation(v):
    return v["aid"].startswith("C14-") or (v["aid"] in BUILTIN and "loaded" in v.get("reached", []))


def signature(job, v):
    return "%s:%s" % (job["entry"], v["aid"])
