"""C05: every serialised block or string reference is enumerated by its owner."""
from props import fblock
ID = "C05"
LEVEL = "model_checking"
HARNESS = [fblock.GEN]
MODULE = "fblock"
ENTRIES = fblock.ENTRIES
prepare = fblock.prepare
BOUNDS = {
    "quick": {"block_types": "all registered (from Factory.cpp)", "version": "symbolic (file,user,stream) under the loader's acceptance predicate", "count_cap_B": 1, "input_bytes_L": 256, "budget_s_per_type": 12},
    "thorough": {"block_types": "all registered", "version": "symbolic, split into 3 version classes", "count_cap_B": 2, "input_bytes_L": 512, "budget_s_per_type": 120},
}
ASSUMPTIONS = ['arbitrary input bytes <= L, counts <= B, symbolic version', 'a fault inside Get is an unloadable input']
LEVEL_TEXT = "Bounded symbolic model checking with the OUSNIUS_NIFLY_VERIF hooks: during Get and Put of every registered block type (symbolic version and input switch every optional section / array on and off) each NiBlockRef<T>::Sync and each index-storing NiStringRef::Read/Write reports its object; the harness asserts membership in GetChildRefs/GetPtrs/GetStringRefs and of the child's index in GetChildIndices."
LEVEL_NOTE = 'Bounds as in evidence; string references are only counted when the version stores table indices (file >= 20.1.0.3); references serialised by code not going through the two hooked functions would be missed (none exist: stream.Sync never takes a .index operand directly, checked by grep in the spec).'
AIDS = ("C01-",)


def owns_violation(v):
    return v["aid"].startswith("C05-")


def jobs(tier, seed):
    return fblock.jobs_for("h_refs", tier, seed)


def signature(job, v):
    return "%s:%s:%s" % (job["entry"], fblock.type_of(job), v["aid"])
