"""C13: geometry written through the API is what is read back, in every version."""
from props.fmodel import *
ID = "C13"
LEVEL = "model_checking"
HARNESS = ["c13_geom.cpp"]
MODULE = "c13"
VALIDATE_OUT_SHA = False  # BoundingSphere / CalcTangentSpace are stubbed in the engine run, so bounds and tangent bytes differ natively
BOUNDS = {
    "quick": {"half_kernels": "all 65536 half values and all non-NaN 32-bit floats (symbolic, no bound)", "create": "OB/FO3/SK/SSE/FO4/FO76, 3 vertices of which 2 carry symbolic position and UV bit patterns, 1 triangle; read back immediately and after save+reload", "setters": "SetVertsForShape/SetUvsForShape/SetTriangles on 4-vertex shapes (skinned and unskinned) with symbolic values; wrong-sized UV input", "quantised": "byte-stored normals of BSTriShape: all 256 byte values are fixed points of get->set"},
    "thorough": {"half_kernels": "as quick", "create": "all 3 vertices symbolic, with and without normals", "setters": "as quick, all versions", "quantised": "as quick"},
}
ASSUMPTIONS = [
    "half storage: the file round trip is proved equal to the library's own float->half->float kernels, and the kernels are proved equal to the IEEE 754 conversions (round to nearest even) for every input by separate obligations (compositional)",
    "BoundingSphere(vector) is replaced by an arbitrary sphere and CalcTangentSpace by a no-op in the create/setter harnesses (their float results are not part of this property); NaN inputs are excluded",
    "meshes at the 65535-vertex / 65535-triangle limits, tangent/bitangent/colour/eye-data setters (float tolerance statements) are outside the claim",
    "SetVertsForShape with a different vertex count re-creates the geometry by design and is not treated as 'wrong-sized input'",
]
LEVEL_TEXT = ("Bounded symbolic model checking on the real code: CreateShapeFromData + getters + Save/Load with symbolic IEEE bit patterns for "
              "positions and UVs in six game versions (z3 bit-vector/FP reasoning, bit-exact assertions), the vendored half.hpp conversion "
              "kernels proved equal to the IEEE conversions for all inputs (2048-entry tables encoded as mux trees), exact setter/getter "
              "pairs, and exhaustive byte-domain quantisation fixed points.")
LEVEL_NOTE = "Small meshes; stubs listed in assumptions; z3 floating-point theory trusted."


def jobs(tier, seed):
    q = tier == "quick"
    st = ["bsphere", "tangents"]
    J = [dict(entry="h_half_to_float", args=[], budget=400), dict(entry="h_float_to_half", args=[], budget=400)]
    for ver in range(6):
        for wn in ((1,) if q else (0, 1)):
            J.append(dict(entry="h_create", args=[ver, wn, 2 if q else 3], budget=200 if q else 1500, stubs=st))
        for sk in (0, 1):
            J.append(dict(entry="h_setget", args=[ver, sk, 1, 1 if q else 2], budget=200 if q else 1500, stubs=st))
    for ver in (SSE, FO4, FO76):
        J.append(dict(entry="h_quant", args=[ver], budget=150, stubs=st))
    return J


def owns_violation(v):
    return v["aid"].startswith("C13-") or (v["aid"] in BUILTIN and "loaded" in v.get("reached", []))


def signature(job, v):
    return "%s:%s" % (job["entry"], v["aid"])
