"""C06: block-graph edits keep every reference on its target and the header consistent."""
from props.fmodel import *
ID = "C06"
LEVEL = "model_checking"
HARNESS = ["fm_edit.cpp"]
MODULE = "fmedit"
ENTRIES = ("h_c06", "h_c03", "h_c11", "h_c14")
BOUNDS = {
    "quick": {"operations": "AddBlock(NiNode|NiStringExtraData), DeleteBlock(i), ReplaceBlock(i,new), SetBlockOrder(transposition a<->b), DeleteBlockByType(5 type names incl. absent, orphanedOnly), DeleteUnreferencedBlocks; opcode and every index argument symbolic", "sequence_length_K": "1 on 5 graphs (exhaustive), 2 on an empty model and two small graphs (split by first operation)", "graphs": "<= 14 blocks"},
    "thorough": {"operations": "as quick", "sequence_length_K": "1 and 2 on all graphs, 3 on the empty model and the unskinned SSE model (budgeted, exhaustive=false when the budget ends)", "graphs": "<= 20 blocks"},
}
ASSUMPTIONS = [
    "index arguments satisfy the documented precondition i < numBlocks (or NIF_NPOS for DeleteBlock); SetBlockOrder receives permutations (transpositions of two symbolic positions)",
    "oracle = object identity: block addresses and (reference field, target, owner) triples recorded before each operation",
    "random long sequences beyond K are not explored (outside the claim)",
]
LEVEL_TEXT = ("Bounded symbolic model checking of NiHeader::AddBlock/DeleteBlock/ReplaceBlock/SetBlockOrder/DeleteBlockByType and "
              "NifFile::DeleteUnreferencedBlocks on the real code: K operations with symbolic opcode and symbolic index arguments from "
              "small valid graphs and the empty model; after each step z3 proves every reference designates the same object (or is empty "
              "iff its target was deleted), no slot is empty or duplicated, the header's type table matches; finally Save+Load gives the same graph.")
LEVEL_NOTE = "K<=2 quick, <=3 thorough; small graphs; engine models as DESIGN.md 2.5."

G1 = [(SSE, SKIN), (FO4, EXTRA | LOOSE), (OB, SKIN | COLL), (SK, CTRL | SHAPE2), (FO3, EXTRA | CHILDNODE)]


def jobs(tier, seed):
    J = []
    q = tier == "quick"
    for ver, feat in G1 + [(SSE, -1)]:
        for first in range(6):   # one job per first operation (parallel, each small enough to finish)
            J.append(dict(entry="h_c06", args=[ver, feat, 1, first, 0], budget=150 if q else 900))
    k2 = [(SSE, -1), (SSE, 0), (FO4, LOOSE)] if q else [(SSE, -1), (SSE, 0), (FO4, LOOSE), (OB, SKIN), (SK, CTRL), (SSE, SKIN | EXTRA)]
    for ver, feat in k2:
        for first in range(6):
            J.append(dict(entry="h_c06", args=[ver, feat, 2, first, 0], budget=150 if q else 1500))
    if not q:
        for ver, feat in [(SSE, -1), (SSE, 0)]:
            for first in range(6):
                J.append(dict(entry="h_c06", args=[ver, feat, 3, first, 0], budget=1500))
    return J


def owns_violation(v):
    return v["aid"].startswith("C06-") or v["aid"] in BUILTIN


def signature(job, v):
    if v["aid"] in BUILTIN:
        top = next((f for f in v["stack"] if "nifly" in f), "")
        return "%s:%s:%s" % (job["entry"], v["aid"], top[:60])
    return "%s:%s" % (job["entry"], v["aid"])
