"""C03: blocks of unknown type survive load and save untouched."""
from props.fmodel import *
from props import c06
ID = "C03"
LEVEL = "model_checking"
HARNESS = c06.HARNESS
MODULE = c06.MODULE
ENTRIES = c06.ENTRIES
BOUNDS = {
    "quick": {"files": "API-built FO3/SK/SSE/FO4/FO76 models (20.2.0.7, with block sizes), <= 14 blocks, <= 8 block types", "relabelled_subsets": "every single type, all types at once, and 6 further subsets per model", "payload": "every relabelled block's payload is fully symbolic (its recorded size)", "save_options": "raw and default; also saving a copy (copy constructor) and an already used object the model was assigned to"},
    "thorough": {"files": "as quick, more feature combinations", "relabelled_subsets": "every non-empty subset of the model's block types (<= 255 per model)", "payload": "symbolic", "save_options": "raw and default"},
}
ASSUMPTIONS = [
    "an unknown type is produced by replacing the first character of a type name in the header's type table (same length, no factory matches); payload sizes are the recorded block sizes",
    "the oracle walks header and blocks with its own parser (harness code, shares no nifly code)",
    "files without a size table (< 20.2.0.5) are outside the claim (rejected by design)",
]
LEVEL_TEXT = ("Bounded symbolic model checking of NifFile::Load/Save with NiUnknown blocks on the real code: the bytes of every re-labelled "
              "block are symbolic, so z3 proves for all payloads that position, type name, declared size and payload bytes are unchanged in "
              "the output, that no block was added/removed/reordered and that every input string index still denotes the same string.")
LEVEL_NOTE = "Subsets of types enumerated (bounded), payload symbolic; small API-built files."

MODELS = [(SSE, SKIN | EXTRA | LOOSE), (FO4, EXTRA | SHAPE2), (SK, SKIN | CTRL), (FO3, EXTRA | LOOSE | CHILDNODE), (FO76, EXTRA), (FO3, EXTRA | SRCTEX | TEXPATH)]


def jobs(tier, seed):
    J = []
    bud = 100 if tier == "quick" else 600
    for ver, feat in MODELS:
        if tier == "quick":
            masks = [1 << t for t in range(10)] + [0x3FF, 0x1FF, 0xFF, 3, 6, 12, 0x15, 0x2A, 0x30]
        else:
            masks = list(range(1, 256)) + [0x3FF, 0x300, 0x155, 0x2AA]
        for mk in masks:
            for raw in (0, 1):
                J.append(dict(entry="h_c03", args=[ver, feat, mk, raw, 0], budget=bud))
        for mk in masks[:3] + masks[-2:]:
            J.append(dict(entry="h_c03", args=[ver, feat, mk, 1, 1], budget=bud))
            J.append(dict(entry="h_c03", args=[ver, feat, mk, 0, 2], budget=bud))
    return J


def owns_violation(v):
    return v["aid"].startswith("C03-") or (v["aid"] in BUILTIN and "loaded" in v.get("reached", []))


def signature(job, v):
    return "%s:%s" % (job["entry"], v["aid"])
