"""C07: saved header tables describe the written file exactly."""
from props import fblock, fmfile
ID = "C07"
LEVEL = "model_checking"
MODULES = dict(fmfile.modules(), fmedit=dict(harness=["fm_edit.cpp"], entries=("h_c06", "h_c03", "h_c11", "h_c14")))
prepare = fblock.prepare
BOUNDS = {
    "quick": {"block_types": "all registered (from Factory.cpp)", "version": "symbolic (file,user,stream) under the loader's acceptance predicate", "count_cap_B": 1, "input_bytes_L": 256, "budget_s_per_type": 12},
    "thorough": {"block_types": "all registered", "version": "symbolic, split into 3 version classes", "count_cap_B": 2, "input_bytes_L": 512, "budget_s_per_type": 120},
}
ASSUMPTIONS = ['block level: arbitrary input bytes <= L, counts <= B, symbolic version']
LEVEL_TEXT = "Bounded symbolic model checking: for every registered block type, symbolic version and input, the number of bytes Put writes equals the stream's block-size counter that Save records in the header's size table; file level: an independent walker over Save output."
LEVEL_NOTE = 'Bounds as in evidence; shares the block-level exploration with C01.'
AIDS = ("C01-",)


def owns_violation(v):
    return v["aid"].startswith("C07-")


def jobs(tier, seed):
    J = fblock.jobs_for("h_roundtrip", tier, seed)
    for j in J:
        j["mod"] = "fblock"
    J += fmfile.jobs("h_file_fixedpoint", tier, sympos=True) + fmfile.jobs("h_file_repeat", tier, extra_args=[0])
    # header tables after edit sequences: the C06 harness ends with the same walker (C06's own assertions switched off, so a broken edit is judged by the written tables)
    from props import c06
    for j in c06.jobs(tier, seed):
        if j["args"][2] == 1 or tier == "thorough":
            j["mod"] = "fmedit"
            j["args"] = j["args"][:4] + [1]   # C06's own assertions off: the run continues to the table walker
            J.append(j)
    return J


def signature(job, v):
    if job.get("mod") == "fmedit":
        return "%s:%s" % (job["entry"], v["aid"])
    if job.get("mod") == "fmfile":
        top = next((f for f in v["stack"] if "nifly" in f), "")
        rc = v.get("user", {}).get("rc")
        return "%s:%s:%s%s" % (job["entry"], v["aid"], top[:50], "" if rc in (None, 0) else ":loadfailed")
    return "%s:%s:%s" % (job["entry"], fblock.type_of(job), v["aid"])
