"""C02: saving is repeatable and never alters the in-memory model."""
from props import fblock, fmfile
ID = "C02"
LEVEL = "model_checking"
MODULES = fmfile.modules()
prepare = fblock.prepare
BOUNDS = {
    "quick": {"block_types": "all registered (from Factory.cpp)", "version": "symbolic (file,user,stream) under the loader's acceptance predicate", "count_cap_B": 1, "input_bytes_L": 256, "budget_s_per_type": 12},
    "thorough": {"block_types": "all registered", "version": "symbolic, split into 3 version classes", "count_cap_B": 2, "input_bytes_L": 512, "budget_s_per_type": 120},
}
ASSUMPTIONS = ['block level: arbitrary input bytes <= L, counts <= B, symbolic version', 'a fault inside the first Get is an unloadable input, not a violation']
LEVEL_TEXT = 'Bounded symbolic model checking on the real code: after Get on symbolic input under a symbolic version, Put is called three times on the same object and the three outputs must be byte-identical (solver equality); file-level: the same NifFile saved three times, query battery before/after.'
LEVEL_NOTE = 'Bounds as in evidence; shares the block-level exploration with C01 (job results are reused when the bitcode is unchanged, flagged in evidence).'
AIDS = ("C01-",)


def owns_violation(v):
    return v["aid"].startswith("C02-")


def jobs(tier, seed):
    J = fblock.jobs_for("h_roundtrip", tier, seed)
    for j in J:
        j["mod"] = "fblock"
    J += fmfile.jobs("h_file_repeat", tier, extra_args=[1]) + fmfile.jobs("h_file_repeat", tier, extra_args=[0])
    return J


def signature(job, v):
    if job.get("mod") == "fmfile":
        top = next((f for f in v["stack"] if "nifly" in f), "")
        rc = v.get("user", {}).get("rc")
        return "%s:%s:%s%s" % (job["entry"], v["aid"], top[:50], "" if rc in (None, 0) else ":loadfailed")
    return "%s:%s:%s" % (job["entry"], fblock.type_of(job), v["aid"])
