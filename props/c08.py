"""C08: wire format stays compatible with the reference release for all types/versions."""
import os, shutil
from props import fblock
from nifsym import build
ID = "C08"
LEVEL = "translation_validation"
REF_REPO = os.path.join(build.VERIF, "ref")
GEN_REF = os.path.join(build.BUILD, "gen", "fblock_gen_ref.cpp")
HARNESS = ["c08_top.cpp", fblock.GEN, GEN_REF]
MODULE = "c08"
ENTRIES = ("h_c08",)
VALIDATE = False   # sym_deep_equal is an engine primitive; the native twin cannot confirm content comparisons
ENGINE_ONLY_AIDS = ("C08-content",)
BOUNDS = {
    "quick": {"block_types": "all registered", "version": "symbolic", "count_cap_B": 1, "input_bytes_L": 256, "budget_s_per_type": 14},
    "thorough": {"block_types": "all registered", "version": "symbolic, 3 version classes", "count_cap_B": 2, "input_bytes_L": 512, "budget_s_per_type": 150},
}
ASSUMPTIONS = [
    "reference = /verif/ref: snapshot of the pinned commit plus the fix: commits recorded in known_findings.json (ref/COMMIT), compiled with -Dnifly=nifly_ref and linked into the same module",
    "inputs: arbitrary bytes <= L, counts <= B, symbolic version accepted by the reference loader; real sample files are covered by the repository's golden-file tests",
    "content comparison = engine deep comparison of the two objects and every heap buffer they own (vtable/typeinfo pointers compared by name modulo the namespace); skipped when sizeof differs",
    "a deliberate wire-format change must be accompanied by refreshing /verif/ref (tools/refresh_ref.sh)",
]
LEVEL_TEXT = ("Translation validation by lock-step symbolic execution: the reference build and the current build of every registered "
              "block type decode the same symbolic bytes under the same symbolic version in one engine run; z3 must prove they consume "
              "the same number of bytes, re-encode to identical bytes, hold deep-equal content, and read each other's output back to the "
              "same bytes.  This catches same-size field swaps and version gates moved on both the read and the write side, which no "
              "round-trip check can see because nifly's single Sync() keeps reader and writer in step.")
LEVEL_NOTE = "programs = number of (type) pairs explored x 2 builds; bounds as in evidence; models as DESIGN.md 2.5."
EXPLANATION = LEVEL_TEXT


def prepare():
    fblock.prepare()
    body = open(fblock.GEN).read()
    old = open(GEN_REF).read() if os.path.exists(GEN_REF) else None
    if old != body:
        open(GEN_REF, "w").write(body)


def owns_violation(v):
    return v["aid"].startswith("C08-") or (v["aid"] in fblock.BUILTIN and "loaded" in v.get("reached", []))


def jobs(tier, seed):
    return fblock.jobs_for("h_c08", tier, seed, budget_quick=14, budget_thorough=150)


def signature(job, v):
    return "%s:%s:%s" % (job["entry"], fblock.type_of(job), v["aid"])


def programs(cov):
    return 2 * len(fblock.types())
