"""C01: load/save round trip is exact and reaches a byte-level fixed point."""
from props import fblock, fmfile
ID = "C01"
LEVEL = "model_checking"
MODULES = fmfile.modules()
prepare = fblock.prepare
BOUNDS = {
    "quick": {"block_types": "all registered (from Factory.cpp)", "version": "symbolic (file,user,stream) under the loader's acceptance predicate", "count_cap_B": 1, "input_bytes_L": 256, "budget_s_per_type": 12},
    "thorough": {"block_types": "all registered", "version": "symbolic, split into 3 version classes", "count_cap_B": 2, "input_bytes_L": 512, "budget_s_per_type": 120},
}
ASSUMPTIONS = [
    "block level: input = arbitrary bytes X of <= L bytes with every element count / string length <= B (B+1 smallest feasible values of each symbolic count are explored, larger ones cut and counted)",
    "a memory fault inside the *first* Get means X is not a loadable block (unloadable-input, logged, not a C01 violation); after it, any fault or divergence is",
    "types whose exploration does not finish within the per-type budget are listed in jobs_unfinished (exhaustive=false)",
]
LEVEL_TEXT = ("Bounded symbolic model checking of Get/Put of every registered block type on the real code: for a symbolic version "
              "and symbolic input bytes the written block Y1 is re-read (must consume exactly |Y1| bytes) and re-written (must equal "
              "Y1 byte for byte, solver equality over symbolic cells).  Every version gate is split at its true boundary by z3.")
LEVEL_TEXT += ("  A second block-level entry (h_strings, file >= 20.1.0.3, valid string indices) repeats the round trip under the real "
               "life cycle of string references: FillStringRefs after Get, UpdateHeaderStrings before Put.")
LEVEL_NOTE = "Bounds B/L/budget as in evidence; stream + libstdc++ externals are models (DESIGN.md 2.5); file-level F-model runs complement the block level."
AIDS = ("C01-",)


def owns_violation(v):
    if v["aid"].startswith("C01-"):
        return True
    return v["aid"] in fblock.BUILTIN and "loaded" in v.get("reached", [])


def jobs(tier, seed):
    J = fblock.jobs_for("h_roundtrip", tier, seed)
    J += fblock.jobs_for("h_strings", tier, seed, budget_quick=6, budget_thorough=45)
    for j in J:
        j["mod"] = "fblock"
    J += fmfile.jobs("h_file_fixedpoint", tier, sympos=True)
    return J


def signature(job, v):
    if job.get("mod") == "fmfile":
        top = next((f for f in v["stack"] if "nifly" in f), "")
        return "%s:%s:%s" % (job["entry"], v["aid"], top[:50])
    return "%s:%s:%s" % (job["entry"], fblock.type_of(job), v["aid"])
