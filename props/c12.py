"""C12: LE<->SE conversion preserves geometry and skinning and yields a valid file."""
from props.fmodel import *
ID = "C12"
LEVEL = "model_checking"
HARNESS = ["c12_convert.cpp"]
MODULE = "c12"
VALIDATE_OUT_SHA = False  # BoundingSphere / CalcTangentSpace are stubbed in the engine run
SKINF, COLORS, DUPNAME, SYMGEOM, FOURBONES, TWOPARTS, WHITEALPHA, SEGMENTED, TRIPLENAME = 1, 2, 4, 8, 16, 32, 64, 128, 256
BOUNDS = {
    "quick": {"models": "4-vertex / 2-triangle LE (NiTriShape) and SE (BSTriShape) models built through the API and reloaded: unskinned, skinned with 2 or 4 bones per vertex, one or two partitions, vertex colours (coloured, and white with varying alpha), two sibling shapes with equal names", "symbolic": "vertex positions and UVs as symbolic IEEE bit patterns (one model per direction); option booleans removeParallax/calcBounds/fixBSXFlags/fixShaderFlags enumerated (4 combinations)", "checks": "bit-identical positions, triangle multiset, UV bits, colours within 1/255, bone list, per-vertex weights, shader, distinct sibling names, save+reload in the target version, partition coverage, there-and-back"},
    "thorough": {"models": "as quick, all feature combinations", "symbolic": "as quick, all 16 option combinations", "checks": "as quick"},
}
ASSUMPTIONS = [
    "BoundingSphere(vector) is an arbitrary sphere and CalcTangentSpace a no-op (their float results are outside this property)",
    "strips (NiTriStrips + triangulation), skinned BSSegmentedTriShape, dynamic/head-part shapes and model-space-normal shaders are not built by the harness (outside the claim)",
    "weights are dyadic rationals, compared with a 2e-3 tolerance (SE stores half floats)",
]
LEVEL_TEXT = ("Bounded symbolic model checking of NifFile::OptimizeFor (LE->SE and SE->LE), RenameDuplicateShapes and the partition/weight "
              "transfer on the real code, on small API-built models with symbolic vertex payload and enumerated option combinations; the "
              "oracle compares geometry, skinning and names before/after, reloads the converted file and converts back.")
LEVEL_NOTE = "Small models; stubs as listed; engine models as DESIGN.md 2.5."


def jobs(tier, seed):
    q = tier == "quick"
    st = ["bsphere", "tangents"]
    J = []
    feats = [0, SKINF, SKINF | COLORS, COLORS | WHITEALPHA, DUPNAME, TRIPLENAME, SEGMENTED, SKINF | FOURBONES, SKINF | TWOPARTS, SKINF | COLORS | DUPNAME | TWOPARTS]
    opts = (15, 14, 0, 5) if q else range(16)
    for d in (0, 1):
        for f in feats:
            for o in opts:
                if q and o not in (15, 14) and f not in (SKINF | COLORS, COLORS | WHITEALPHA):
                    continue
                J.append(dict(entry="h_conv", args=[d, f, o], budget=120 if q else 600, stubs=st))
        J.append(dict(entry="h_conv", args=[d, SYMGEOM, 15], budget=150 if q else 1500, stubs=st))
        if not q:
            J.append(dict(entry="h_conv", args=[d, SYMGEOM | SKINF, 15], budget=1500, stubs=st))
    return J


def owns_violation(v):
    return v["aid"].startswith("C12-") or (v["aid"] in BUILTIN and "loaded" in v.get("reached", []))


def signature(job, v):
    return "%s:%s" % (job["entry"], v["aid"])
