"""C19: texture path clean-up is canonical and idempotent."""
from props.fmodel import *
ID = "C19"
LEVEL = "model_checking"
HARNESS = ["c19_paths.cpp"]
MODULE = "c19"
BOUNDS = {
    "quick": {"paths": "strings of concrete length with symbolic bytes (NUL excluded): fully symbolic n<=4 (SSE also n=5); s1+'\\\\textures\\\\'+s2, s1+'textures'+s2 with |s1|,|s2|<=2; 'data\\\\'+s and 'Textures\\\\'+s with |s|<=3", "versions": "OB, FO3, SK, SSE, FO4", "terrain": "both", "slots": "texture set slots 0/1, the five effect shader texture paths, NiSourceTexture behind NiTexturingProperty (OB/FO3); all other paths of the owner hold canonical paths and must not change"},
    "thorough": {"paths": "fully symbolic n<=6; keyword families with |s1|,|s2|<=3", "versions": "all six", "terrain": "both", "slots": "as quick, longer strings"},
}
ASSUMPTIONS = [
    "std::regex (libstdc++) is replaced by nifsym/regexsym.py, a forking backtracking matcher for the ECMAScript subset of the five patterns (leftmost, priority-ordered, '.' excludes \\n and \\r, icase folds ASCII, '^' only at the start of the subject); std::filesystem::path::is_relative is modelled as 'does not start with /'. The claim is modulo this model; the model is differentially tested against the real libstdc++ build on seeded strings on every run (evidence: regex_model_differential)",
    "paths longer than the stated lengths, and NUL bytes inside paths, are outside the claim; 'never loops for paths of a few kilobytes' is not claimed",
    "of NiTexturingProperty only the base texture slot is built by the harness",
]
LEVEL_TEXT = ("Bounded symbolic model checking of NifFile::TrimTexturePaths (trim_whitespace, five regexes, is_relative_path) on the real "
              "code with symbolic path characters: canonical-form predicates (no surrounding whitespace, no '/', no double backslash, nothing "
              "before the textures folder, required prefixes, blank -> empty) and idempotence are discharged by z3 for every string of "
              "the stated lengths; the regex engine is a validated model.")
LEVEL_NOTE = "Regex and filesystem are models (validated differentially each run); string lengths bounded."


def jobs(tier, seed):
    q = tier == "quick"
    J = []
    bud = 150 if q else 1500
    vers = (OB, FO3, SK, SSE, FO4) if q else (OB, FO3, SK, SSE, FO4, FO76)
    for ver in vers:
        for terrain in (0, 1):
            for n in range(0, (4 if q else 5) + 1):
                if q and n == 4 and (terrain or ver not in (OB, SSE)):
                    continue
                J.append(dict(entry="h_paths", args=[ver, terrain, 0, n, 0, 0], budget=bud, throw_is_violation=True))
            k = 2 if q else 3
            for n1 in range(0, k + 1):
                for n2 in range(0, k + 1):
                    if q and (n1 + n2 > 3 or (terrain and ver != SSE)):
                        continue
                    J.append(dict(entry="h_paths", args=[ver, terrain, 1, n1, n2, 0], budget=bud, throw_is_violation=True))
                    J.append(dict(entry="h_paths", args=[ver, terrain, 2, n1, n2, 0], budget=bud, throw_is_violation=True))
            for n1 in range(0, 4):
                J.append(dict(entry="h_paths", args=[ver, terrain, 3, n1, 0, 0], budget=bud, throw_is_violation=True))
                J.append(dict(entry="h_paths", args=[ver, terrain, 4, n1, 0, 0], budget=bud, throw_is_violation=True))
    J.append(dict(entry="h_paths", args=[SSE, 0, 0, 5, 0, 0], budget=240 if q else 1500, throw_is_violation=True))
    if not q:
        J.append(dict(entry="h_paths", args=[SSE, 0, 0, 6, 0, 0], budget=3000, throw_is_violation=True))
        J.append(dict(entry="h_paths", args=[OB, 0, 0, 6, 0, 0], budget=3000, throw_is_violation=True))
    for ver in ((SSE, FO4) if q else (SK, SSE, FO4, FO76)):
        for n in range(0, 4):
            J.append(dict(entry="h_paths", args=[ver, 0, 0, n, 0, 1], budget=bud, throw_is_violation=True))
        J.append(dict(entry="h_paths", args=[ver, 0, 1, 1, 1, 1], budget=bud, throw_is_violation=True))
        for slot in (2, 3, 4, 5, 7):
            for n in ((1, 2) if q else (0, 1, 2, 3)):
                J.append(dict(entry="h_paths", args=[ver, 0, 0, n, 0, slot], budget=bud, throw_is_violation=True))
    for ver in (OB, FO3):
        for n in range(0, 4):
            J.append(dict(entry="h_paths", args=[ver, 0, 0, n, 0, 6], budget=bud, throw_is_violation=True))
        J.append(dict(entry="h_paths", args=[ver, 0, 1, 1, 1, 6], budget=bud, throw_is_violation=True))
    return J


VALIDATE_N = {"quick": 24, "thorough": 120}


def extra_coverage(check, jobs, results):
    """Differential test of the regex/filesystem models: seeded concrete strings are run (a) through the engine with
    every input fixed (regex model) and (b) through the native build (real libstdc++ std::regex); the cleaned
    strings written to the output buffer must be identical."""
    import random, os, hashlib
    from nifsym import runner
    import check as CK
    tier = check.tier
    N = 160 if tier == "quick" else 1200
    rnd = random.Random(1000 + check.seed)
    alphabet = [0x2F, 0x5C, 0x20, 0x0A, 0x0D, 0x09, 0x2E] + [ord(c) for c in "tTeExXuUrRsSdDaA:"] + [0x80, 0xFF]
    words = [b"textures", b"Textures\\", b"\\textures\\", b"data\\", b"DATA/", b"//", b"\\\\"]
    twin = check.twin("fast", "c19")
    module = check.module["c19"]
    jobs2 = []
    cases = []
    for i in range(N):
        n = rnd.randrange(0, 13)
        bs = bytearray()
        while len(bs) < n:
            if rnd.random() < 0.25:
                bs += rnd.choice(words)
            else:
                bs.append(rnd.choice(alphabet))
        bs = bytes(bs[:14])
        ver = rnd.choice([0, 1, 2, 3, 4])
        terrain = rnd.choice([0, 0, 1])
        slot = rnd.choice([0, 0, 1])
        args = [ver, terrain, 0, len(bs), 0, slot]
        vals = [["c", 8, b] for b in bs]
        cases.append((args, bs, vals))
        jobs2.append(dict(module=module, entry="h_paths", args=args, budget=60, samples=1,
                          engine_opts=dict(replay={"values": vals, "input": "", "trunc": None})))
    res = runner.run_jobs(jobs2)
    byargs = {}
    for r in res:
        if r.get("ok"):
            byargs[json_key(r["job"])] = (r["samples"][0].get("out_sha") if r["samples"] else None, r.get("nviol", 0))
    agree, disagree, flagged_both = 0, [], 0
    vdir = os.path.join(CK.VERIF, "build", "val", "C19diff")
    os.makedirs(vdir, exist_ok=True)
    for i, (args, bs, vals) in enumerate(cases):
        p = os.path.join(vdir, "d%d.txt" % i)
        CK.write_replay(p, {"entry": "h_paths", "args": args, "values": vals})
        nat = CK.run_native(twin, p, timeout=30)
        key = json_key({"args": args, "engine_opts": dict(replay={"values": vals, "input": "", "trunc": None})})
        esha, nviol = byargs.get(key, (None, 0))
        if esha is not None and nat.get("out_sha") == esha:
            agree += 1
        elif esha is None and nviol and nat.get("fails"):
            flagged_both += 1   # the concrete input violates an assertion in both worlds (known corner case)
        else:
            disagree.append({"input": bs.hex(), "args": args, "engine": esha, "native": nat.get("out_sha")})
    out = {"regex_model_differential": {"strings": N, "agree": agree, "assertion_failed_in_both": flagged_both, "disagree": disagree[:10]}}
    if disagree:
        print("ENGINE-MISMATCH: regex model disagrees with libstdc++ on %d of %d seeded strings" % (len(disagree), N))
    return out


def json_key(job):
    import json
    return json.dumps([job["args"], job.get("engine_opts", {}).get("replay", {}).get("values")], sort_keys=True)


def owns_violation(v):
    return v["aid"].startswith("C19-") or (v["aid"] in BUILTIN and "loaded" in v.get("reached", []))


def signature(job, v):
    return "%s:%s%s" % (job["entry"], v["aid"], ":effect" if job["args"][5] == 1 else "")
