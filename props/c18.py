"""C18: index-remapping and strip utilities agree with their mathematical definition."""
ID = "C18"
LEVEL = "model_checking"
HARNESS = ["c18_util.cpp"]
BOUNDS = {
    "quick": {"vector_size_n": "0..4 (erase/collapse 0..5)", "index_list_k": "0..n+1", "triangles": "0..3", "map_size": "0..4", "strips": "<=2 strips x <=5 points, alphabet 4 or unconstrained 16-bit", "map_keys": "<=3 (uint16 keys, ordered and unordered map), <=2 signed int keys in [-3,12)"},
    "thorough": {"vector_size_n": "0..6 (erase/collapse 0..7)", "index_list_k": "0..n+1", "triangles": "0..4", "map_size": "0..5", "strips": "<=2 strips x <=7 points", "map_keys": "<=4"},
}
ASSUMPTIONS = [
    "index lists are strictly ascending (documented precondition of the Erase/Insert/Generate* helpers); values otherwise unconstrained 16/32-bit, including >= size",
    "element types checked: uint8/uint16/uint32/Vector3 elements with uint16 and uint32 index types (the instantiations the library uses); containers above the stated sizes and the 65535-element wrap-around of 16-bit counters are outside the claim",
    "ApplyIndexMapToMapKeys: index map injective on non-negative entries and resulting keys distinct (as produced by collapse maps)",
]


def jobs(tier, seed):
    N = 4 if tier == "quick" else 6
    T = 3 if tier == "quick" else 4
    J = []
    bud = 100 if tier == "quick" else 900
    for n in range(0, N + 1):
        for k in range(0, min(n + 1, N) + 1):
            for e in ("h_erase_u32_u16", "h_erase_v3_u16", "h_erase_u32_u32", "h_insert_u32_u16", "h_maps_u16_u16", "h_maps_u16_sz", "h_maps_u32_u32"):
                J.append(dict(entry=e, args=[n, k], budget=bud))
            if tier == "thorough" or n <= 3:
                for e in ("h_erase_u16_u16", "h_erase_u8_u16", "h_insert_v3_u16"):
                    J.append(dict(entry=e, args=[n, k], budget=bud))
    # a larger size for the two most used helpers
    for k in range(0, N + 3):
        J.append(dict(entry="h_erase_u32_u16", args=[N + 1, k], budget=bud))
        J.append(dict(entry="h_maps_u16_u16", args=[N + 1, min(k, N + 1)], budget=bud))
    for t in range(0, T + 1):
        for msz in range(0, (3 if tier == "quick" else 5) + 1):
            for wd in (0, 1):
                J.append(dict(entry="h_applymap_int", args=[t, msz, wd], budget=bud))
            J.append(dict(entry="h_applymap_u16", args=[t, msz, 0], budget=bud))
        J.append(dict(entry="h_maxidx", args=[t], budget=bud))
    for n in range(0, (3 if tier == "quick" else 4) + 1):
        for msz in range(0, 4):
            J.append(dict(entry="h_mapkeys", args=[n, msz, 1], budget=bud))
            if n <= 2:
                J.append(dict(entry="h_mapkeys_int", args=[n, msz], budget=bud))
            if n <= (1 if tier == "quick" else 2):
                J.append(dict(entry="h_mapkeys", args=[n, msz, 0], budget=bud))
    L = 5 if tier == "quick" else 7
    for ns in (1, 2):
        for ln in range(0, L + 1):
            if ns * ln > (8 if tier == "quick" else 12):
                continue
            J.append(dict(entry="h_strips", args=[ns, ln, 4], budget=bud))
            J.append(dict(entry="h_strips", args=[ns, ln, 0], budget=bud))
    return J


def signature(job, v):
    return "%s:%s" % (job["entry"], v["aid"])

LEVEL_TEXT = ("Bounded symbolic model checking: the real template instantiations (LLVM bitcode of NifUtil.hpp as the library "
              "instantiates it) are executed on fully symbolic contents and index lists for every container size up to the bound; "
              "each assertion (result == naive definition) and every memory access is discharged by z3 for all values, so an "
              "off-by-one or missing range test yields a concrete counterexample that is replayed on a native ASan build.")
LEVEL_NOTE = ("Sizes bounded (see evidence bounds); index lists assumed strictly ascending as documented; engine memory model and "
              "libstdc++ container externals (operator new, _Rb_tree/_Hashtable helpers) are trusted models; sampled paths are "
              "re-run natively and compared on every run.")
