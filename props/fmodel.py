"""Shared constants of the F-model family (see harness/fmodel.h)."""
OB, FO3, SK, SSE, FO4, FO76 = range(6)
VERS = {"OB": OB, "FO3": FO3, "SK": SK, "SSE": SSE, "FO4": FO4, "FO76": FO76}
SKIN, COLL, EXTRA, SHAPE2, CTRL, LOOSE, SYMPOS, CHILDNODE, LOOSECHAIN, SHAPEEXTRA, ROOT1, SHAREDCOLL, SHADERCTRL, BONETREE, LEGACYSHAPE, EXPORTINFO, TEXPATH, SRCTEX, STRIPS, BONETYPE, DATALESS = 1, 2, 4, 8, 16, 32, 64, 128, 256, 512, 1024, 2048, 4096, 8192, 16384, 32768, 65536, 131072, 262144, 524288, 1048576
BUILTIN = ("memory", "div0", "unreachable", "recursion", "hang", "huge-allocation", "exception")
MAXREFS = 40
