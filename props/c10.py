"""C10: skin partitions always cover the shape's triangles exactly once."""
from props.fmodel import *
ID = "C10"
LEVEL = "model_checking"
HARNESS = ["c10_parts.cpp"]
MODULE = "c10"
ENTRIES = ("h_parts", "h_weights", "h_split", "h_partlabels", "h_parts_direct")
BOUNDS = {
    "quick": {"(a) topology+labels": "OB/FO3/SK/SSE, 3-4 vertices, 1-2 triangles with symbolic corners (distinct, non-degenerate), 2 bones, symbolic partition id per triangle in [-1, #partitions] (unassigned and out-of-range included); SetShapePartitions, UpdateSkinPartitions, GetShapePartitions, RemoveEmptyPartitions, SetDefaultPartition", "(b) weights": "symbolic float weights in [0,1] (incl. zero) per (bone,vertex), 3 vertices, 1-2 bones, concrete topology", "(c) bone limit": "6 vertices, 4 triangles, 24 bones (4 per vertex, disjoint bone sets per triangle pair): forces the 18-bone split for OB/FO3; symbolic partition per triangle", "(d) direct": "SetShapePartitions followed directly by save+reload / RemoveEmptyPartitions (no rebuild in between), 6 vertices / 4 triangles, symbolic labels in [0,3), also with partitions stored as strips (OB/FO3/SK)"},
    "thorough": {"(a) topology+labels": "4 vertices, 2 triangles, 3 partitions, all four versions", "(b) weights": "3-4 vertices, 2 bones", "(c) bone limit": "as quick"},
}
ASSUMPTIONS = [
    "triangles are pairwise distinct up to rotation and non-degenerate (the partition lookup matches triangles by their vertex triple)",
    "weights: with concrete dyadic weights the sum is asserted to be exactly 1 (or 0); with symbolic float weights only non-negativity, bone-slot validity and coverage are asserted - 'sum to one within tolerance' for arbitrary floats needs floating-point error analysis and is outside the claim",
    "more than 24 bones / more than 4 triangles are outside the claim",
]
LEVEL_TEXT = ("Bounded symbolic model checking of SetShapePartitions / UpdateSkinPartitions / GetShapePartitions / RemoveEmptyPartitions / "
              "SetDefaultPartition and the NiSkinPartition helpers on the real code: triangle corners, per-triangle partition ids and "
              "float weights are symbolic (one group at a time); coverage (every shape triangle in exactly one partition up to rotation), "
              "vertex maps, counters, bone limit, bone slots and dismember alignment are asserted for all values.")
LEVEL_NOTE = "Small meshes; one dimension symbolic at a time (all at once explodes); engine models as DESIGN.md 2.5."


def jobs(tier, seed):
    q = tier == "quick"
    J = []
    for ver in (OB, FO3, SK, SSE):
        J.append(dict(entry="h_parts", args=[ver, 3, 1, 2, 1], budget=120 if q else 600))
        J.append(dict(entry="h_parts", args=[ver, 3, 1, 2, 2], budget=120 if q else 600))
        J.append(dict(entry="h_parts", args=[ver, 4, 1, 2, 1], budget=160 if q else 900))
        J.append(dict(entry="h_parts", args=[ver, 4, 2, 2, 2], budget=160 if q else 1800))
        if not q:
            J.append(dict(entry="h_parts", args=[ver, 4, 2, 2, 3], budget=1800))
        J.append(dict(entry="h_split", args=[ver, 0], budget=160 if q else 900))
    for ver in (OB, FO3, SK, SSE):
        for mode in (0, 1, 2):
            if mode == 2 and ver == SSE:
                continue
            J.append(dict(entry="h_parts_direct", args=[ver, 3, mode], budget=100 if q else 600))
    for ver in ((SSE, FO3) if q else (OB, FO3, SK, SSE)):
        J.append(dict(entry="h_weights", args=[ver, 3, 1], budget=160 if q else 1200))
        if not q:
            J.append(dict(entry="h_weights", args=[ver, 3, 2], budget=1800))
            J.append(dict(entry="h_weights", args=[ver, 4, 2], budget=1800))
    return J


def owns_violation(v):
    return v["aid"].startswith("C10-") or v["aid"] in BUILTIN


def signature(job, v):
    return "%s:%s" % (job["entry"], v["aid"])
