"""Shared F-block family (DESIGN.md section 3): per registered block type, symbolic version and input."""
import os, sys
from nifsym import build
sys.path.insert(0, os.path.join(build.VERIF, "harness"))
import gen_blocks  # noqa: E402

GEN = os.path.join(build.BUILD, "gen", "fblock_gen.cpp")
_types = None
ENTRIES = ("h_roundtrip", "h_refs", "h_trunc", "h_clone", "h_strings")


def prepare():
    global _types
    _types = gen_blocks.generate(build.REPO, GEN, os.path.join(build.HARNESS, "fblock.cpp.in"))
    return _types


def types():
    if _types is None:
        prepare()
    return _types


# block types whose exploration explodes on a fully symbolic version: split by version class
def jobs_for(entry, tier, seed, budget_quick=12, budget_thorough=120, only=None, extra=None):
    ts = types()
    J = []
    for i, t in enumerate(ts):
        if only is not None and t not in only:
            continue
        if tier == "quick":
            j = dict(entry=entry, args=[i, 0], budget=budget_quick, B=1, max_input=256, samples=1)
            if extra:
                j.update(extra)
            J.append(j)
        else:
            for vc in (1, 2, 3):
                j = dict(entry=entry, args=[i, vc], budget=budget_thorough / 3.0, B=2, max_input=512, samples=1)
                if extra:
                    j.update(extra)
                J.append(j)
    return J


def type_of(job):
    return types()[job["args"][0]]


BUILTIN = ("memory", "div0", "unreachable", "recursion", "hang", "huge-allocation", "exception")
