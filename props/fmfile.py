"""File-level F-model jobs shared by C01 / C02 / C07 / C16 (harness/fm_file.cpp)."""
from props.fmodel import *
from props import fblock

ENTRIES = ("h_file_fixedpoint", "h_file_repeat", "h_file_trunc")


def modules():
    return {"fblock": dict(harness=[fblock.GEN], entries=fblock.ENTRIES),
            "fmfile": dict(harness=["fm_file.cpp"], entries=ENTRIES)}


MODELS_Q = [(SSE, EXPORTINFO | TEXPATH), (FO4, EXPORTINFO | EXTRA | VERTEXTRA), (OB, TEXPATH | SRCTEX), (OB, SKIN | COLL | STRIPPART), (OB, SKIN | SHAPEEXTRA | EXTRA), (SSE, LOOSE | ROOT1 | EXTRA), (OB, EXTRA | SHAPE2 | LOOSECHAIN), (SSE, LOOSECHAIN | LOOSE | CTRL), (FO3, SKIN | EXTRA | SRCTEX | STRIPPART), (SK, SKIN | CTRL | SHAPE2), (SSE, SKIN | COLL | EXTRA | LOOSE),
            (SSE, SHAPE2 | CHILDNODE), (FO4, SKIN | EXTRA | LOOSE), (FO76, EXTRA | SHAPE2)]
MODELS_T = MODELS_Q + [(v, f) for v in (OB, FO3, SK, SSE, FO4, FO76) for f in (0, SKIN, SKIN | COLL | EXTRA | CTRL | SHAPE2 | LOOSE | CHILDNODE, CTRL | LOOSE, SHAPE2 | SKIN | STRIPPART)]


def jobs(entry, tier, extra_args=(), budget=None, sympos=False, **kw):
    J = []
    bud = budget or (120 if tier == "quick" else 900)
    for ver, feat in (MODELS_Q if tier == "quick" else MODELS_T):
        # (symbolic vertex positions are not used at file level: Create()/UpdateBounds() run Miniball, whose control flow over
        #  symbolic floats is beyond the solver budget; such paths would only end as "unknown")
        j = dict(entry=entry, args=[ver, feat] + list(extra_args), budget=bud, mod="fmfile")
        j.update(kw)
        J.append(j)
    return J
