"""C17: segment/partition labels round-trip and always partition the triangles."""
ID = "C17"
LEVEL = "model_checking"
MODULES = {"c17": dict(harness=["c17_segments.cpp"], entries=()), "c10": dict(harness=["c10_parts.cpp"], entries=("h_parts", "h_weights", "h_split", "h_partlabels"))}
BOUNDS = {
    "quick": {"triangles_t": "0..4", "segmentation_layouts": "7 layouts (1-3 segments, 0-2 sub-segments, permuted part ids, empty segments)", "labels": "symbolic in [-1, #parts) per triangle", "delete_after": "layouts 1,3,4,5 (4 = non-first segment with exactly one sub-segment, seed C17-m5); t<=3, n<=3 vertices, k<=2 deleted, optionally a second single-vertex deletion; every surviving triangle keeps its label", "reorder": "t<=3, symbolic 32-bit order", "partition_labels": "OB/FO3/SK/SSE, 6 vertices / 4 triangles, symbolic label per triangle in [0,2), SetShapePartitions -> GetShapePartitions, then DeleteVertsForShape of one vertex"},
    "thorough": {"triangles_t": "0..5", "segmentation_layouts": "7", "labels": "symbolic in [-1, #parts)", "delete_after": "t<=3, n<=4, k<=3", "reorder": "t<=4"},
}
ASSUMPTIONS = [
    "labels >= number of parts are excluded (documented precondition of SetSegmentation: labels index the supplied part ids)",
    "for unassigned (-1) labels only coverage (the triangle lies in exactly one range) is asserted, not which range",
    "triangles carry unique concrete tags in the round-trip harness (SetSegmentation never branches on triangle contents); symbolic corners in the deletion harness",
    "Save/Load of the segmentation block is covered by the C01/C02 block-level round trip, not repeated here",
]
LEVEL_TEXT = ("Bounded symbolic model checking of BSSubIndexTriShape::SetSegmentation / GetSegmentation / notifyVerticesDelete and "
              "NiShape::ReorderTriangles on the real code: the per-triangle label list is symbolic, so z3 covers every labelling "
              "(incl. -1, empty segments, permuted ids) for each triangle count and segmentation layout within the bound.")
LEVEL_NOTE = "Triangle count and layouts bounded as listed; std::stable_sort and vector externals run as real libstdc++ IR; models trusted as in DESIGN.md 2.5."


def jobs(tier, seed):
    T = 4 if tier == "quick" else 5
    bud = 120 if tier == "quick" else 900
    J = []
    for layout in range(7):
        for t in range(0, T + 1):
            for un in (0, 1):
                if t == T and tier == "quick" and layout in (4, 5) and un == 1:
                    continue
                J.append(dict(entry="h_seg", args=[t, layout, un], budget=bud))
        for t in range(1, 4):
            for n in range(1, (3 if tier == "quick" else 4) + 1):
                for k in range(1, min(n, 2 if tier == "quick" else 3) + 1):
                    if tier == "quick" and layout not in (1, 3, 4, 5):
                        continue
                    if t == 3 and tier == "quick" and (n > 2 or layout in (4, 5)):
                        continue
                    J.append(dict(entry="h_seg_delete", args=[t, layout, n, k, 0, 0], budget=bud))
                    if k == 1 and n >= 2 and t >= 2:
                        J.append(dict(entry="h_seg_delete", args=[t, layout, n, k, 0, 1], budget=bud))
                    if layout in (3, 4, 5) and t <= 2:
                        J.append(dict(entry="h_seg_delete", args=[t, layout, n, k, 1, 0], budget=bud))
    for t in range(0, (3 if tier == "quick" else 4) + 1):
        J.append(dict(entry="h_reorder", args=[t], budget=bud))
    for j in J:
        j["mod"] = "c17"
    # partition assignment (NiTriShape / BSTriShape skin partitions): labels round-trip, also after deleting a vertex
    for ver in (0, 1, 2, 3):
        for nparts in ((2,) if tier == "quick" else (2, 3)):
            for dv in ((-1, 0, 3) if tier == "quick" else (-1, 0, 2, 3, 5)):
                J.append(dict(entry="h_partlabels", args=[ver, nparts, dv], budget=bud, mod="c10"))
    return J
