"""C04: default save only permutes blocks and prunes unreferenced ones."""
from props.fmodel import *
ID = "C04"
LEVEL = "model_checking"
HARNESS = ["fm_graph.cpp"]
MODULE = "fmgraph"
ENTRIES = ("h_c04", "h_shapeorder", "h_c15")
BOUNDS = {
    "quick": {"models": "API-built graphs for OB/FO3/SK/SSE/FO4 with skin, collision, extra data, controller chain, second shape, loose block, deeper node tree", "symbolic": "one reference field at a time (every field of every block) rewired to any block of the same type or emptied", "shape_order": "<=3 shapes, explicit order lists of length = #shapes incl. duplicate and missing names"},
    "thorough": {"models": "as quick plus FO76 and all feature combinations", "symbolic": "as quick", "shape_order": "<=3 shapes, lists of length 1..4"},
}
ASSUMPTIONS = [
    "graphs are built through the public API (Create/AddNode/CreateShapeFromData/CreateSkinning/AssignExtraData/AddBlock); the rewired reference always designates a block of the original target's type, never the owner or the scene root, and node-to-node child references are only emptied (the scene graph stays a tree)",
    "object identity (block addresses recorded before) is the oracle; 'no field value changes' is checked on the serialised bytes of reference-free, non-shape blocks",
]
LEVEL_TEXT = ("Bounded symbolic model checking of NifFile::Optimize + PrettySortBlocks + Save/Load and SetShapeOrder on the real code, on "
              "small API-built graphs in which one reference field (each in turn) takes a symbolic value: bijection, reachability, "
              "same-target, root-first, idempotence and reload assertions are discharged for all values by z3.")
LEVEL_NOTE = "Small graphs (<= ~20 blocks); one symbolic reference at a time; engine models as DESIGN.md 2.5."

GRAPHS_Q = [(SSE, SKIN | COLL | EXTRA | LOOSE), (SSE, EXTRA | LOOSE | ROOT1 | CHILDNODE), (SK, COLL | SHAREDCOLL | EXTRA), (SK, SKIN | CTRL | SHAPE2 | CHILDNODE), (FO4, SKIN | EXTRA | LOOSE | SHAPE2), (OB, SKIN | COLL | CTRL), (FO3, EXTRA | SHAPE2 | LOOSE | CHILDNODE), (SSE, EXTRA | CHILD0), (FO3, SHAPE2 | CHILD0)]
GRAPHS_T = GRAPHS_Q + [(FO76, SKIN | EXTRA | LOOSE), (SSE, SKIN | CTRL | SHAPE2 | CHILDNODE | LOOSE | EXTRA | COLL), (SK, COLL | EXTRA), (OB, SHAPE2 | LOOSE | EXTRA | CHILDNODE), (FO4, CTRL | CHILDNODE)]


def jobs(tier, seed):
    J = []
    bud = 60 if tier == "quick" else 600
    for ver, feat in (GRAPHS_Q if tier == "quick" else GRAPHS_T):
        for which in range(-1, MAXREFS):
            J.append(dict(entry="h_c04", args=[ver, feat, which], budget=bud))
    for ver in ((OB, FO3, SK, SSE, FO4) if tier == "quick" else (OB, FO3, SK, SSE, FO4, FO76)):
        for ns in (1, 2, 3):
            for ln in ((ns,) if tier == "quick" else range(1, 5)):
                J.append(dict(entry="h_shapeorder", args=[ver, ns, ln], budget=bud))
    return J


def owns_violation(v):
    return v["aid"].startswith("C04-") or v["aid"] in BUILTIN


def signature(job, v):
    return "%s:%s" % (job["entry"], v["aid"])
