"""C15: corrupted block references never crash loading, querying or saving."""
from props.fmodel import *
from props import c04
ID = "C15"
LEVEL = "model_checking"
HARNESS = ["fm_graph.cpp"]
MODULE = "fmgraph"
ENTRIES = c04.ENTRIES
NATIVE_TIMEOUT = 60
BOUNDS = {
    "quick": {"models": "4 API-built graphs (SSE skinned+collision+extra+loose, SK skinned+controller+2 skinned shapes with 2 and 1 bones+deeper tree, OB skinned+collision+controller, FO4 two skinned shapes with 2 and 1 bones)", "symbolic": "K=1: every reference field of every block takes an unconstrained 32-bit value (empty, count, beyond count, self, ancestor, wrong type, any in-range index are all values of that variable)"},
    "thorough": {"models": "all 10 graphs incl. FO3/FO4/FO76", "symbolic": "K=1 every field; K=2 on selected pairs of fields"},
}
ASSUMPTIONS = [
    "the corrupted file is produced by writing the clean model, patching one (two) reference fields of the loaded copy with symbolic values and writing it again without clean-up; that byte image is then loaded, queried (read-only battery incl. per-bone transforms, bounds and weights for every index of the shape's bone list), copied, sorted, saved with default options and reloaded",
    "oracle: engine built-ins (memory faults, division by zero, unbounded recursion > 400 frames, instruction budget, C++ exceptions) and load/save return codes",
]
LEVEL_TEXT = ("Bounded symbolic model checking: one (two) reference fields of a small valid file carry unconstrained symbolic 32-bit values; "
              "Load, a read-only query battery, copy construction, PrettySortBlocks, default Save and reload are executed on the real code; "
              "z3 decides for every value whether a memory fault, unbounded recursion, hang or exception is reachable.")
LEVEL_NOTE = "Small graphs; K<=2 simultaneous corruptions; engine models as DESIGN.md 2.5."

GRAPHS_Q = [(SSE, SKIN | COLL | EXTRA | LOOSE), (SK, SKIN | CTRL | SHAPE2 | CHILDNODE | SKIN2), (OB, SKIN | COLL | CTRL), (FO4, SKIN | SHAPE2 | SKIN2)]


def jobs(tier, seed):
    J = []
    bud = 90 if tier == "quick" else 600
    for ver, feat in (GRAPHS_Q if tier == "quick" else c04.GRAPHS_T):
        for which in range(0, MAXREFS):
            J.append(dict(entry="h_c15", args=[ver, feat, which, -1], budget=bud, throw_is_violation=True))
    if tier == "thorough":
        for ver, feat in c04.GRAPHS_Q[:3]:
            for which in range(0, 24, 3):
                for w2 in range(1, 24, 4):
                    if w2 != which:
                        J.append(dict(entry="h_c15", args=[ver, feat, which, w2], budget=bud, throw_is_violation=True))
    return J


def owns_violation(v):
    return v["aid"].startswith("C15-") or (v["aid"] in BUILTIN and "loaded" in v.get("reached", []))


def signature(job, v):
    top = next((f for f in v["stack"] if "nifly" in f), v["stack"][0] if v["stack"] else "?")
    return "%s:%s:%s" % (job["entry"], v["aid"], top[:60])
