"""C09: deleting vertices keeps a shape and its skin data consistent."""
ID = "C09"
LEVEL = "model_checking"
MODULES = {"c09": dict(harness=["c09_delete.cpp"], entries=()), "c09file": dict(harness=["fm_delete.cpp"], entries=("h_delverts",))}
BOUNDS = {
    "quick": {"file_level": "DeleteVertsForShape on 4-vertex shapes of six versions (unskinned, skinned, skinned+LOCKEDNORM), k<=2 symbolic sorted indices, second deletion, save+reload", "vertices_n": "1..4", "triangles_t": "0..2", "deleted_k": "1..n (every sorted in-range list, symbolic)", "strip_points": "<=4", "skin": "<=2 bones x <=3 weights; 1 partition, vertex map <=3, <=2 triangles, mapped and true indices, list and strip form", "segments": "FO4: 2 segments (first with 2 sub-segments), SSE: 3 segments, symbolic split points; FO4 also a second single-vertex deletion on the same object"},
    "thorough": {"vertices_n": "1..5", "triangles_t": "0..3", "deleted_k": "1..n", "strip_points": "<=5", "skin": "<=2 bones x <=4 weights; vertex map <=4, <=3 triangles", "segments": "as quick"},
}
ASSUMPTIONS = [
    "deletion list strictly ascending and < vertex count (callers' documented precondition); triangle corners / strip points / weight indices < vertex count (the loader removes others)",
    "per-vertex attributes and vertex records are fully symbolic byte patterns (bit-identity is asserted with memcmp)",
    "NiSkinPartition vertex maps strictly ascending (as UpdateSkinPartitions produces them)",
]
LEVEL_TEXT = ("Bounded symbolic model checking of every notifyVerticesDelete override (NiGeometryData/NiTriShapeData/NiLinesData/"
              "NiScreenElementsData/NiTriStripsData, BSTriShape/BSDynamicTriShape/BSMeshLODTriShape/BSSubIndexTriShape, NiSkinData, "
              "NiSkinPartition) and NifFile::DeleteVertsForShape + Save/Load: objects are populated with symbolic attributes, "
              "corners and a symbolic sorted deletion list; the oracle (complement in order, triangles without deleted corner "
              "re-indexed in order, all indices in range, counters == sizes) is discharged by z3 for all values within the sizes.")
LEVEL_NOTE = "Sizes bounded as listed; engine memory model and libstdc++ container externals trusted; sampled paths re-run natively."


def jobs(tier, seed):
    N = 4 if tier == "quick" else 5
    T = 2 if tier == "quick" else 3
    bud = 100 if tier == "quick" else 900
    J = []
    for n in range(1, N + 1):
        for k in range(1, n + 1):
            for t in range(0, T + 1):
                if tier == "quick" and n == N and t == T and k not in (1, n):
                    continue
                J.append(dict(entry="h_geomdata", args=[0, n, t, k], budget=bud))
                J.append(dict(entry="h_bstri", args=[0, n, t, k], budget=bud))
                if t == T or tier == "thorough":
                    J.append(dict(entry="h_geomdata", args=[2, n, t, k], budget=bud))
                    J.append(dict(entry="h_bstri", args=[1, n, t, k], budget=bud))
                    J.append(dict(entry="h_bstri", args=[2, n, t, k], budget=bud))
                if t >= 1 and n <= (3 if tier == "quick" else 4):
                    J.append(dict(entry="h_bssits", args=[1, n, t, k, 0], budget=bud))
                    J.append(dict(entry="h_bssits", args=[0, n, t, k, 0], budget=bud))
                    if k == 1 and n >= 2 and t >= 2:
                        J.append(dict(entry="h_bssits", args=[1, n, t, k, 1], budget=bud))
            J.append(dict(entry="h_geomdata", args=[1, n, 0, k], budget=bud))
            J.append(dict(entry="h_lines", args=[n, k], budget=bud))
            for ln in range(0, N + 1):
                J.append(dict(entry="h_tristrips", args=[n, ln, k], budget=bud))
            for nb in (1, 2):
                for w in range(0, (3 if tier == "quick" else 4) + 1):
                    if w <= n:
                        J.append(dict(entry="h_skindata", args=[n, nb, w, k], budget=bud))
            for m in range(0, min(n, 3 if tier == "quick" else 4) + 1):
                for t in range(0, T + 1):
                    if t > 0 and m == 0:
                        continue
                    for mapped in (0, 1):
                        J.append(dict(entry="h_skinpart", args=[n, m, t, k, mapped, 0], budget=bud))
                        if t >= 1 and (tier == "thorough" or n <= 3):
                            J.append(dict(entry="h_skinpart", args=[n, m, t, k, mapped, 1], budget=bud))
    for j in J:
        j["mod"] = "c09"
    # file level: NifFile::DeleteVertsForShape on 4-vertex / 2-triangle API-built shapes, then save+reload
    from props.fmodel import OB, FO3, SK, SSE, FO4, FO76, SKIN, EXTRA
    for ver in (OB, FO3, SK, SSE, FO4, FO76):
        for feat in (0, SKIN, SKIN | EXTRA):
            if feat and ver == FO76:
                continue
            for k in ((1, 2) if tier == "quick" else (1, 2, 3, 4)):
                if tier == "quick" and k == 2 and feat == SKIN:
                    continue
                J.append(dict(entry="h_delverts", args=[ver, feat, k, 1 if k == 1 else 0], budget=120 if tier == "quick" else 900, mod="c09file"))
    return J
