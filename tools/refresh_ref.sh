#!/bin/bash
# Refresh the C08 reference snapshot from /repo's committed HEAD (only after a deliberate, reviewed change such as a fix: commit).
set -e
rm -rf /verif/ref/include /verif/ref/src /verif/ref/external
mkdir -p /verif/ref
git -C /repo archive HEAD include src external | tar -x -C /verif/ref
git -C /repo rev-parse HEAD > /verif/ref/COMMIT
echo "ref now at $(cat /verif/ref/COMMIT)"
