#!/usr/bin/env python3
"""Confirm a seeded change produced by a sub-agent and run checks against it.

  seed_eval.py <worktree> <seed-dir> <name> <property> [check ids...]

1. brings the scratch worktree to /repo's HEAD, applies <seed-dir>/patch.diff
2. builds, runs the 28-test suite (must pass), builds + runs the demo (must fail)
3. reverts the patch, rebuilds, runs the demo (must pass)
4. re-applies the patch and runs the given checks with NIFLY_REPO=<worktree>; records which ones raise VIOLATION
5. reverts, writes /verif/seeded/<name>/{patch.diff,demo.cpp,meta.json}
"""
import sys, os, subprocess, json, shutil, time

wt, sd, name, prop = sys.argv[1:5]
checks = sys.argv[5:]
V = "/verif"


def sh(cmd, **kw):
    r = subprocess.run(cmd, shell=True, stdout=subprocess.PIPE, stderr=subprocess.STDOUT, text=True, **kw)
    return r.returncode, r.stdout


def build():
    rc, out = sh("cmake -G Ninja -S %s -B %s/_build >/dev/null && cmake --build %s/_build 2>&1 | tail -3" % (wt, wt, wt))
    return rc, out


def ctest():
    rc, out = sh("ctest --test-dir %s/_build -j8 2>&1 | tail -4" % wt)
    return ("100% tests passed" in out and "out of 28" in out), out


def demo():
    exe = "/tmp/seed_demo_%d" % os.getpid()
    rc, out = sh("g++ -std=c++17 -g -I%s/include -I%s/external %s/demo.cpp %s/_build/src/libnifly.a -o %s 2>&1 | tail -5" % (wt, wt, sd, wt, exe))
    if not os.path.exists(exe):
        return None, "demo build failed: " + out
    rc, out = sh("timeout 120 %s 2>&1 | tail -8" % exe)
    rc2 = subprocess.run("timeout 120 %s >/dev/null 2>&1" % exe, shell=True).returncode
    os.remove(exe)
    return rc2, out


meta = {"property": prop, "name": name, "ran": []}
head = subprocess.run("git -C /repo rev-parse HEAD", shell=True, stdout=subprocess.PIPE, text=True).stdout.strip()
sh("git -C %s checkout -q -- src include && git -C %s checkout -q --detach %s" % (wt, wt, head))
rc, out = sh("git -C %s apply %s/patch.diff" % (wt, sd))
if rc != 0:
    print("PATCH DOES NOT APPLY to current HEAD:", out)
    sys.exit(2)
meta["repo_head"] = head
b = build()
ok, tout = ctest()
meta["tests_pass_with_change"] = ok
drc, dout = demo()
meta["demo_with_change"] = {"exit": drc, "tail": dout[-600:]}
print("with change: tests pass =", ok, "demo exit =", drc)
results = {}
for c in checks:
    t0 = time.time()
    rc, out = sh("cd %s && VERIF_EVIDENCE_DIR=/tmp/seed_evidence VERIF_REPLAY_DIR=/tmp/seed_replays NIFLY_REPO=%s python3-vt check.py %s --tier quick 2>&1 | grep -v '^WARNING' | tail -12" % (V, wt, c))
    rc2 = subprocess.run("cd %s && NIFLY_REPO=%s python3-vt check.py %s --tier quick >/tmp/seed_check_%s.log 2>&1" % (V, wt, c, c), shell=True).returncode if False else None
    viol = [l for l in out.split("\n") if l.startswith("VIOLATION")]
    results[c] = {"violations": viol[:6], "tail": out[-900:], "wall_s": round(time.time() - t0)}
    print(c, "->", "DETECTED" if viol else "missed", "(%ds)" % (time.time() - t0))
    for l in out.split("\n")[-14:]:
        print("    " + l)
meta["checks"] = results
sh("git -C %s checkout -q -- src include" % wt)
build()
drc0, dout0 = demo()
meta["demo_without_change"] = {"exit": drc0, "tail": dout0[-300:]}
print("without change: demo exit =", drc0)
meta["confirmed"] = bool(ok and drc not in (0, None) and drc0 == 0)
dst = os.path.join(V, "seeded", name)
os.makedirs(dst, exist_ok=True)
if os.path.abspath(sd) != os.path.abspath(dst):
    shutil.copy(os.path.join(sd, "patch.diff"), dst)
    shutil.copy(os.path.join(sd, "demo.cpp"), dst)
if os.path.exists(os.path.join(sd, "README.md")):
    shutil.copy(os.path.join(sd, "README.md"), os.path.join(dst, "AGENT_README.md"))
meta["needs"] = ""
meta["what_i_ran"] = ("worktree at /repo HEAD %s; git apply patch.diff; cmake build; ctest (28 tests); g++ demo.cpp against the patched lib (must exit != 0); "
                      "checks run with NIFLY_REPO=<worktree> python3-vt /verif/check.py <ID> --tier quick; patch reverted, demo re-run (must exit 0)" % head[:7])
json.dump(meta, open(os.path.join(dst, "meta.json"), "w"), indent=1)
print("confirmed =", meta["confirmed"], "->", dst)
