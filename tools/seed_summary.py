#!/usr/bin/env python3
"""Generates /verif/seeded/SUMMARY.md from the meta.json files."""
import json, os, glob
V = os.path.dirname(os.path.dirname(os.path.abspath(__file__)))
rows = []
notes = json.load(open(os.path.join(V, "seeded", "notes.json")))
for d in sorted(glob.glob(os.path.join(V, "seeded", "*", "meta.json"))):
    m = json.load(open(d))
    name = os.path.basename(os.path.dirname(d))
    det = [c for c, r in m.get("checks", {}).items() if r.get("violations")]
    miss = [c for c, r in m.get("checks", {}).items() if not r.get("violations")]
    nt = notes.get(name, ["", ""])
    if not m.get("needs") or m.get("summary") != nt[0]:
        m["summary"], m["needs"] = nt[0], nt[1]
        json.dump(m, open(d, "w"), indent=1)
    rows.append((name, m.get("property"), m.get("confirmed"), det, miss, m.get("needs", ""), m.get("summary", "")))
with open(os.path.join(V, "seeded", "SUMMARY.md"), "w") as f:
    f.write("# Seeded changes and which checks catch them\n\n")
    f.write("Each change compiles, passes the 28 existing tests, and fails its demonstration (confirmed in a scratch worktree).\n\n")
    f.write("| seed | breaks | confirmed | flagged by | run but silent | what it needs / summary |\n|---|---|---|---|---|---|\n")
    for name, prop, conf, det, miss, needs, summ in rows:
        f.write("| %s | %s | %s | %s | %s | %s |\n" % (name, prop, "yes" if conf else "NO", ", ".join(det) or "-", ", ".join(miss) or "-", (summ + " — needs: " + needs).replace("|", "/")))
    n = len(rows)
    d = sum(1 for r in rows if r[3])
    f.write("\n%d seeds, %d flagged by at least one check (own property's check listed first).\n" % (n, d))
print("seeds:", len(rows), "detected:", sum(1 for r in rows if r[3]))
