#!/usr/bin/env python3
"""Regenerates /verif/MANIFEST.json from the property specs in /verif/props (single source of truth)."""
import json, os, sys, importlib, subprocess
V = os.path.dirname(os.path.dirname(os.path.abspath(__file__)))
sys.path.insert(0, V)
props = [json.loads(l) for l in open(os.path.join(V, "properties.jsonl"))]
checks, na, served = [], [], []
for p in props:
    pid = p["id"]
    path = os.path.join(V, "props", pid.lower() + ".py")
    spec = None
    if os.path.exists(path):
        spec = importlib.import_module("props." + pid.lower())
    if spec is None or getattr(spec, "NOT_APPLICABLE", None):
        na.append({"property_id": pid, "reason": getattr(spec, "NOT_APPLICABLE", None) or "check not built yet (build in progress, see DESIGN.md section 8)"})
        continue
    served.append(pid)
    checks.append({
        "property_id": pid,
        "quick_cmd": "python3-vt /verif/check.py %s --tier quick" % pid,
        "thorough_cmd": "python3-vt /verif/check.py %s --tier thorough" % pid,
        "evidence_file": "/verif/evidence/%s.json" % pid,
        "replay_cmd_template": "python3-vt /verif/check.py replay {path}",
        "engine": "nifsym",
        "level_claimed": {"category": spec.LEVEL, "text": spec.LEVEL_TEXT, "design_ref": "DESIGN.md section 4, " + pid},
        "level_note": spec.LEVEL_NOTE,
        "technique": getattr(spec, "TECHNIQUE", "bounded symbolic execution of the LLVM bitcode of the real code (nifsym) with z3; counterexamples replayed on a native ASan build"),
    })
hooks = subprocess.run(["git", "-C", "/repo", "log", "--format=%H", "--grep=^verif hook"], stdout=subprocess.PIPE, text=True).stdout.split()
m = {"version": 1, "setup_cmd": "bash /verif/setup.sh",
     "hooks": {"guard": "OUSNIUS_NIFLY_VERIF",
               "enable": "checks compile /repo/src/*.cpp themselves with clang++-14 -DOUSNIUS_NIFLY_VERIF (nifsym/build.py); the define adds two callbacks reporting the NiBlockRef / NiStringRef object being serialised",
               "baseline_off_cmd": "cmake -G Ninja -S /repo -B /repo/_build && cmake --build /repo/_build && ctest --test-dir /repo/_build -j8 --timeout 900",
               "source_commits": hooks, "add_only": False},
     "engines": [{"name": "nifsym", "path": "/verif/nifsym", "serves_properties": served,
                  "kind_free_text": "KLEE-style symbolic executor written for this task (Python + z3 5.1) over the LLVM-14 bitcode clang++-14 produces from /repo's current sources; native ASan twin for replay"}],
     "checks": checks, "not_applicable": na,
     "notes": "hooks.add_only is false only because the one-line body of NiBlockRef<T>::Sync had to be opened up to insert the guarded call; no behaviour changes with the guard off."}
json.dump(m, open(os.path.join(V, "MANIFEST.json"), "w"), indent=1)
print("checks:", served, "not applicable:", [x["property_id"] for x in na])
