#!/usr/bin/env python3-vt
"""debug: list all violation records (owned or not) in cached job results of a property's jobs"""
import sys, os, json, importlib, collections
V = os.path.dirname(os.path.dirname(os.path.abspath(__file__)))
sys.path.insert(0, V)
from nifsym import build, runner
pid, tier = sys.argv[1], (sys.argv[2] if len(sys.argv) > 2 else "quick")
spec = importlib.import_module("props." + pid.lower())
if hasattr(spec, "prepare"): spec.prepare()
jobs = spec.jobs(tier, 0)
hf = [h if os.path.isabs(h) else os.path.join(V, "harness", h) for h in spec.HARNESS]
entries = sorted(set(j["entry"] for j in jobs) | set(getattr(spec, "ENTRIES", ())))
m = build.build_module(getattr(spec, "MODULE", pid.lower()), hf, entries, defines=getattr(spec, "DEFINES", ()), ref_repo=getattr(spec, "REF_REPO", None), keep=list(getattr(spec, "KEEP", ())))
c = collections.OrderedDict()
for j in jobs:
    j["module"] = m; j.setdefault("seed", 0)
    p = runner._cache_path(j)
    if not os.path.exists(p): continue
    r = json.load(open(p))
    for v in r["violations"]:
        sig = spec.signature(r["job"], v) if hasattr(spec, "signature") else "%s:%s" % (j["entry"], v["aid"])
        key = (sig, v["msg"][:90], "loaded" in v.get("reached", []))
        if key not in c:
            c[key] = [0, v]
        c[key][0] += 1
for (sig, msg, loaded), (n, v) in c.items():
    mdl = {k: val for k, val in v["model"].items() if k.startswith("v")}
    print(n, sig, "|", msg, "| loaded" if loaded else "| first-get", "|", " <- ".join(x[:40] for x in v["stack"][:3]), "|", mdl)
